"""C03 — layer-2/3 PDUs and information elements survive encode-decode (DESIGN §5 C03).

Oracle (on the real code, per PDU kind X):
  fields -> p = X(...);  bits = p.as_bits();  len(bits) == L;  q = X.from_bits(bits);
            every attribute of q equals the attribute of p (all attributes, not only the variant's);
            q.as_bits() == bits
  bits   -> X.from_bits(b) raises one of the documented errors, or returns o with e = o.as_bits(),
            len(e) == L, o2 = X.from_bits(e): attributes(o2) == attributes(o) and o2.as_bits() == e
  element-> E(v) for every v < 2^w: never "nothing", defined -> itself, folded -> a defined member that
            maps to itself, or ValueError
Correspondence (model vs code): `x.enc <fields>` -> bits, `x.dec <bits>` -> fields + re-encoded bits or
error kind, `elem <E> <v>`.
The attributes crc_ok / crc9_ok are integrity indicators (property C04) and are not compared here.

Hardening (after the missed seeded changes C03-C, C03-D):
  special tokens -> token_dictionary(): BOMs, NUL runs, CR / LF forms, 7F/80 boundaries, all-ones, surrogates / invalid UTF-8,
            ASCII specials, protocol constants; written at EVERY octet offset (and right-aligned) of every opaque / text-like
            field of every variant, each placement crossed with every value of every selector field (covering_rows: pairwise in
            quick, complete cross product in thorough); 7-bit characters at every bit offset of the short payload fields;
            decode side: the tokens over valid encodings at every octet offset and at every bit offset.  Every such case goes
            through the same oracle (check_fields / check_bits) and both directions of the correspondence.
            Lean: Props/C03c (the decoder returns the received bits of the field verbatim, for every selector value).
  history -> the models are pure functions; that the code behaves like one is probed on the real code: for every element
            instance and every PDU variant as_bits / from_bits / as_bytes / from_bytes / convert are called twice (results must
            be distinct objects and must not be attributes of the object or the caller's argument), every result obtained is
            changed in place (MUT_OPS: += extend append item assignment invert clear setall slice assignment del reverse insert
            pop frombytes) and the call repeated twice more, PDUs that carry the element are round-tripped before and after,
            the argument of from_bits is left alone and changing it afterwards changes nothing, results are held while other
            calls are made / until the end of the run (Holder) and re-verified.  Failures carry the history as input
            ({"kind": "alias", "probe": ...}) and replay re-executes it.

Hardening, round 3 (after the missed seeded changes C03-E, C03-F):
  ignored arguments -> every PDU class takes the arguments of ALL its opcodes / formats.  ignored_cases(): per variant the object is
            built with EVERY constructor argument set (inspect.signature coverage is recorded): the arguments of the other
            variants at 0 / max / random non-zero / random, all at once and one at a time, crossed with the carried fields random /
            all zero / all max / each in turn at 0 and max.  Oracle: the carried attributes decode back equal, the bits are
            stable, the object holds the values it was given ("constructor-changes-field": the canonical field text written
            from the GIVEN values must be what the object prints; the model's enc line is written from the given values too).
            Correspondence: `x.enc <given carried fields>` and `x.encattrs <every attribute of the object>` (Model/PduArgs.lean:
            as_bits read off the whole attribute record) against the real as_bits.  Lean: Props/C03d.
            Siblings: alt_cases() — every argument in the OTHER type its signature accepts (int/bool, enum/int, bytes/bitarray,
            int/bitarray, int/bytes); equal_pair_cases() — two fields of the same type equal / octets reversed / complemented /
            plus 1; the octet interface (as_bytes / from_bytes) must agree with the bit interface on every fields case.
  check transforms -> check_field_cases(): for every PDU with a check field (CSBK, data header, PI header CRC-CCITT; short LC
            CRC-8; full LC RS(12,9) parity under both masks / 5-bit checksum; CRC-9 of confirmed rate blocks) the field is set
            to every systematic TRANSFORM of the right value (transform_table: octets reversed / rotated, bits reversed whole and
            per octet, nibbles swapped / reversed, complemented, every rotation, every other data type's mask xor-ed / instead of
            the own one, without mask, without inversion, +-1, negated, shifted, every single bit flipped, 0, all ones, the mask
            itself) and to the body's CRC by eight other CRC-16/CCITT conventions and over parts / variants of the body, crossed
            with every selector value of the variant (every feature set id, flag, enum member: covering_rows with cap 32).  The
            right value is taken from the library (CRC16 / CRC8 / CRC9 / ReedSolomon1294 / FiveBitChecksum) and from a plain
            bitwise computation here (a disagreement is C05's subject and only counted).  Decode side: the same transforms over
            valid encodings whose two selector octets take all 256 values; check_bits reports "check-field-rewritten" when
            every other bit re-serialises as received but the (non-zero) check field does not.  Lean: Props/C03c
            (csbk/dh/slc_crc_verbatim, rate_checks_verbatim, *_crc_enc_verbatim).  embedded_crc_cases(): a CRC of one part of the
            PDU standing inside an opaque payload field.
  error paths / ambient state -> error_path_probe(): valid calls, a batch of calls that raise (wrong lengths, argument types,
            every documented decode error, out-of-range fields, attributes set to None), the same valid calls again — first
            thing in the run.  ambient_probe(): a fixed sample with the root logger at DEBUG, stdout / stderr raising on
            write, both, `random` reseeded, warnings as errors; ambient_children(): the sample in a fresh interpreter (the
            results at the END of the run must equal it), under `python -O`, and with the FIRST call on every class failing.

Hardening, round 4 (after the seeded changes C03-G, C03-H, reported by the coverage obligation only):
  relations among >= 3 fields -> relation_cases(): the variant's numeric view is a list of units (integer / bit-string / octet-string
            fields of >= 4 bits; runs of adjacent sub-octet fields as one number, e.g. the service-options octet; consecutive 32- / 16- /
            8-bit words of opaque payload fields).  Constructed: for unit triples (a, b -> c) the target = xor / sum / both differences /
            and / or / high part of sum, difference (low part = truncation to the target's width); for pairs (a -> c) equality across
            types, rotations, shifts, high part, negation, complement, bit / octet reversal, +-1; a == b != c, a == b == c, arithmetic
            progressions; the check field = the RIGHT check value xor / + / - / & / | another field; derived quantities of a payload
            field (population count, non-zero / leading / trailing zero octets, first / last octet, octet sum / xor, 16-bit word sum,
            length) standing in another field; every exact population count 0..n of every payload field; repeated sub-blocks (all words
            equal, period 2, equal halves, palindrome, two equal words, counting, all equal but one bit).  TWO relations at once: two
            targets computed from the same two sources; two relations on disjoint units of one width class (payload words + the
            whole fields of that width), one of the results optionally rotated / octet-swapped / complemented; mixed-width disjoint
            pairs (sampled).  Quick runs take a seed-rotated share of each family; thorough runs — and runs in which the SOURCE FILE of
            the PDU class differs from the committed baseline (harness/drift.py) — enumerate the families completely (capped).
            relation_overlay_cases(): decode side, an octet-aligned word of a valid encoding overwritten by a function of one or two other
            words of the same string.  All cases go through check_fields / check_bits and both directions of the correspondence.
"""
import enum
import json
import math

from bitarray import bitarray
from bitarray.util import int2ba, ba2int

try:
    from common import impl_error
except ImportError:  # run as a script (child interpreters of the ambient probe): harness/ is not on the path yet
    import os as _os
    import sys as _sys

    _sys.path.insert(0, _os.path.dirname(_os.path.dirname(_os.path.abspath(__file__))))
    from common import impl_error

PROP = "C03"
MODULES = ["C03", "C03a", "C03b", "C03c", "C03d", "C03e", "C03t"]
GEN = ["Elements", "TranslCsbk"]
MATCHERS = {}

SKIP_ATTRS = ("crc_ok", "crc9_ok")


# ------------------------------------------------------------------------------------------------
# canonical forms
def canon(v):
    t = type(v)
    if t is int or t is str or v is None:
        return v
    if t is bool:
        return int(v)
    if t is bitarray:
        return "b" + v.to01()
    if t is bytes:
        return "x" + v.hex()
    if isinstance(v, bool):
        return int(v)
    if isinstance(v, enum.Enum):
        return ["E", type(v).__name__, v.value if not isinstance(v.value, tuple) else list(v.value)]
    if isinstance(v, bitarray):
        return "b" + v.to01()
    if isinstance(v, (bytes, bytearray)):
        return "x" + bytes(v).hex()
    if isinstance(v, float):
        return ["F", v.hex()]
    if isinstance(v, int) or isinstance(v, str):
        return v
    if isinstance(v, (list, tuple)):
        return [canon(x) for x in v]
    if hasattr(v, "__dict__"):
        return {k: canon(x) for k, x in sorted(vars(v).items()) if k not in SKIP_ATTRS}
    return repr(type(v))


def attrs(o):
    return {k: canon(x) for k, x in vars(o).items() if k not in SKIP_ATTRS}


def diff_attrs(a, b):
    return sorted(k for k in set(a) | set(b) if a.get(k, "<absent>") != b.get(k, "<absent>"))


def b01(x):
    return "1" if x else "0"


def sbits(b):
    s = b.to01() if isinstance(b, bitarray) else b
    return s if s else "-"


def shex(b):
    return bytes(b).hex() if len(b) else "-"


# ------------------------------------------------------------------------------------------------
# type-directed field specs; values live in a JSON-able "plain" domain (int, '0101' strings, hex strings)
class U:
    """unsigned integer of w bits"""

    def __init__(self, w, extra=(), sel=None):
        self.w = w
        self.extra = tuple(extra)
        self.sel = sel  # values that select a branch of the codec (crossed with the token placements)

    def rand(self, rng):
        return rng.getrandbits(self.w)

    def specials(self, rng):
        return list(dict.fromkeys([0, (1 << self.w) - 1] + [1 << i for i in range(self.w)] + list(self.extra)))


class B(U):
    def __init__(self):
        super().__init__(1)


class E:
    """member value of an enum; `allowed` restricts to the members a PDU can carry"""

    def __init__(self, cls, allowed=None):
        self.cls = cls
        self.vals = [m.value for m in (allowed if allowed is not None else list(cls))]

    def rand(self, rng):
        return rng.choice(self.vals)

    def specials(self, rng):
        return list(self.vals)


class BITS:
    def __init__(self, n):
        self.n = n

    def rand(self, rng):
        return int2ba(rng.getrandbits(self.n), length=self.n).to01() if self.n else ""

    def specials(self, rng):
        n = self.n
        out = ["0" * n, "1" * n] + [("0" * i + "1" + "0" * (n - i - 1)) for i in range(n)]
        return list(dict.fromkeys(out))


class BYTES:
    def __init__(self, n):
        self.n = n

    def rand(self, rng):
        return rng.getrandbits(8 * self.n).to_bytes(self.n, "big").hex() if self.n else ""

    def specials(self, rng):
        n = self.n
        out = ["00" * n, "ff" * n]
        for i in range(0, 8 * n, max(1, (8 * n) // 16)):
            out.append((1 << i).to_bytes(n, "big").hex())
        return list(dict.fromkeys(out))


class S:
    """signed integer of w bits (two's complement range)"""

    def __init__(self, w):
        self.w = w

    def rand(self, rng):
        return rng.randrange(-(1 << (self.w - 1)), 1 << (self.w - 1))

    def specials(self, rng):
        w = self.w
        out = [0, -1, 1, (1 << (w - 1)) - 1, -(1 << (w - 1)), -(1 << (w - 1)) + 1]
        out += [1 << i for i in range(w - 1)] + [-(1 << i) for i in range(w - 1)]
        return list(dict.fromkeys(out))


class Variant:
    def __init__(self, kind, name, fields, build, length=None, fix=None, cls=None, kwargs=None, payload_kwargs=None, carried=None,
                 optional=None):
        self.kind = kind
        self.name = name
        self.fields = fields  # [(plain field name, spec)]
        self.build = build  # plain dict -> object
        self.length = length  # plain dict -> expected serialised length (default: kind.length)
        self.fix = fix  # plain dict -> plain dict: re-establish cross-field constraints after a special value was set
        # constructor view of the variant (signature-driven classes: ignored arguments, other accepted argument types)
        self.cls = cls  # the PDU class
        self.kwargs = kwargs  # plain dict -> every keyword argument the variant passes to cls(...)
        self.payload_kwargs = payload_kwargs  # plain dict -> the opcode / format specific keyword arguments only
        self.carried = carried  # attribute names this opcode / format carries (None: every attribute)
        self.optional = optional or []  # [(plain key, spec)] the build reads with a default: arguments the variant does NOT carry
        if build is None and cls is not None:
            self.build = lambda v: cls(**kwargs(v))

    def random_vals(self, rng):
        return {n: s.rand(rng) for n, s in self.fields}


class Kind:
    """one PDU class: variants, decoder, canonical field text, documented decode errors"""

    def __init__(self, name, length, from_bits, fmt, errors, variants=None, bit_seeds=None, extra_check=None,
                 dec_line=None, enc_line=None, enc_out=None, n_bits=None):
        self.dec_line = dec_line or (lambda s: f"{name}.dec {s}")
        self.enc_line_from_text = enc_line is None  # the model's enc line is "<name>.enc <canonical field text>"
        self.enc_line = enc_line or (lambda p, vals: f"{name}.enc {fmt(p, vals.get('crc'))}")
        self.enc_out = enc_out or (lambda p, bits: sbits(bits))
        self.n_bits = n_bits
        self.name = name
        self.length = length  # serialised length (None: variable)
        self.from_bits = from_bits
        self.fmt = fmt  # object -> canonical field text (same text the driver prints / parses)
        self.errors = set(errors)
        self.variants = variants or []
        self.bit_seeds = bit_seeds  # rng -> structured 'random' right-length bit string
        self.extra_check = extra_check  # object -> None | str   (e.g. unrelated attributes at default)
        self.consistency = None  # (ctx, inp, decoded object, bits) -> None: the other entry points / views of the same codec must agree


# ------------------------------------------------------------------------------------------------
# ServiceOptions + CSBK
def so_fields(prefix="so_"):
    return [
        (prefix + "e", B()),
        (prefix + "p", B()),
        (prefix + "r", BITS(2)),
        (prefix + "b", B()),
        (prefix + "o", B()),
        (prefix + "pl", U(2)),
    ]


def so_build(v, prefix="so_"):
    from okdmr.dmrlib.etsi.layer3.elements.service_options import ServiceOptions

    return ServiceOptions(
        is_emergency=v[prefix + "e"],
        is_privacy=v[prefix + "p"],
        reserved=bitarray(v[prefix + "r"]),
        is_broadcast=v[prefix + "b"],
        is_open_voice_call_mode=v[prefix + "o"],
        priority_level=v[prefix + "pl"],
    )


def so_args(s):
    return [b01(s.is_emergency), b01(s.is_privacy), sbits(s.reserved), b01(s.is_broadcast), b01(s.is_open_voice_call_mode), str(s.priority_level)]


def mk_so_kind():
    from okdmr.dmrlib.etsi.layer3.elements.service_options import ServiceOptions

    k = Kind("so", 8, ServiceOptions.from_bits, lambda s, crc=None: ",".join(so_args(s)), errors=["AssertionError"])
    k.variants = [Variant(k, "so", so_fields(), so_build)]
    k.bit_seeds = lambda rng: int2ba(rng.getrandbits(8), length=8)
    return k


def mk_csbk_kind():
    from okdmr.dmrlib.etsi.layer2.pdu.csbk import CSBK
    from okdmr.dmrlib.etsi.layer2.elements.csbk_opcodes import CsbkOpcodes as O
    from okdmr.dmrlib.etsi.layer2.elements.feature_set_ids import FeatureSetIDs
    from okdmr.dmrlib.etsi.layer3.elements.additional_information_field import AdditionalInformationField
    from okdmr.dmrlib.etsi.layer3.elements.announcement_type import AnnouncementType
    from okdmr.dmrlib.etsi.layer3.elements.answer_response import AnswerResponse
    from okdmr.dmrlib.etsi.layer3.elements.channel_timing_opcode import ChannelTimingOpcode
    from okdmr.dmrlib.etsi.layer3.elements.dynamic_identifier import DynamicIdentifier
    from okdmr.dmrlib.etsi.layer3.elements.random_access_service_function import RandomAccessServiceFunction
    from okdmr.dmrlib.etsi.layer3.elements.reason_code import ReasonCode
    from okdmr.dmrlib.etsi.layer3.elements.source_type import SourceType

    hdr = [("lb", B()), ("pf", B()), ("fid", E(FeatureSetIDs)), ("crc", U(16))]

    def common(v, op):
        return dict(
            csbko=op,
            last_block=v["lb"],
            protect_flag=v["pf"],
            manufacturers_feature_set_id=FeatureSetIDs(v["fid"]),
            crc=v["crc"],
        )

    # (variant name, opcode, fields, constructor kwargs from plain values, attribute names carried)
    table = [
        ("bsDwnAct", O.BSOutboundActivation, [("bs", U(24)), ("src", U(24))],
         lambda v: dict(bs_address=v["bs"], source_address=v["src"]),
         lambda o: [o.bs_address, o.source_address], ["bs_address", "source_address"]),
        ("uuVReq", O.UnitToUnitVoiceServiceRequest, so_fields() + [("tgt", U(24)), ("src", U(24))],
         lambda v: dict(service_options=so_build(v), target_address=v["tgt"], source_address=v["src"]),
         lambda o: so_args(o.service_options) + [o.target_address, o.source_address],
         ["service_options", "target_address", "source_address"]),
        ("uuAnsRsp", O.UnitToUnitVoiceServiceAnswerResponse,
         so_fields() + [("ar", E(AnswerResponse)), ("tgt", U(24)), ("src", U(24))],
         lambda v: dict(service_options=so_build(v), answer_response=AnswerResponse(v["ar"]), target_address=v["tgt"], source_address=v["src"]),
         lambda o: so_args(o.service_options) + [o.answer_response.value, o.target_address, o.source_address],
         ["service_options", "answer_response", "target_address", "source_address"]),
        ("nackRsp", O.NegativeAcknowledgementResponse,
         [("aif", E(AdditionalInformationField)), ("st", E(SourceType)), ("svc", E(O)), ("rc", E(ReasonCode)), ("src", U(24)), ("tgt", U(24))],
         lambda v: dict(additional_information_field=AdditionalInformationField(v["aif"]), source_type=SourceType(v["st"]),
                        service_type=O(v["svc"]), reason_code=ReasonCode(v["rc"]), source_address=v["src"], target_address=v["tgt"]),
         lambda o: [o.additional_information_field.value, o.source_type.value, o.service_type.value, o.reason_code.value, o.source_address, o.target_address],
         ["additional_information_field", "source_type", "service_type", "reason_code", "source_address", "target_address"]),
        ("preamble", O.PreambleCSBK, [("cf", B()), ("ind", B()), ("btf", U(8)), ("tgt", U(24)), ("src", U(24))],
         lambda v: dict(csbk_content_follows_preambles=v["cf"], target_address_is_individual=v["ind"], blocks_to_follow=v["btf"],
                        target_address=v["tgt"], source_address=v["src"]),
         lambda o: [b01(o.csbk_content_follows_preambles), b01(o.target_address_is_individual), o.blocks_to_follow, o.target_address, o.source_address],
         ["csbk_content_follows_preambles", "target_address_is_individual", "blocks_to_follow", "target_address", "source_address"]),
        ("channelTiming", O.ChannelTimingCSBK,
         [("age", U(11)), ("gen", U(5)), ("lid", U(20)), ("nl", U(1)), ("ldi", E(DynamicIdentifier)), ("cto", E(ChannelTimingOpcode)),
          ("sid", U(20)), ("sdi", E(DynamicIdentifier))],
         lambda v: dict(sync_age=v["age"], generation=v["gen"], leader_identifier=v["lid"], new_leader=v["nl"],
                        leader_dynamic_identifier=DynamicIdentifier(v["ldi"]), channel_timing_opcode=ChannelTimingOpcode(v["cto"]),
                        source_identifier=v["sid"], source_dynamic_identifier=DynamicIdentifier(v["sdi"])),
         lambda o: [o.sync_age, o.generation, o.leader_identifier, o.new_leader, o.leader_dynamic_identifier.value,
                    o.channel_timing_opcode.value, o.source_identifier, o.source_dynamic_identifier.value],
         ["sync_age", "generation", "leader_identifier", "new_leader", "leader_dynamic_identifier", "channel_timing_opcode",
          "source_identifier", "source_dynamic_identifier"]),
        ("hyteraIpscSync", O.HyteraIPSCSync, [("raw", BYTES(8))],
         lambda v: dict(raw_data=bytes.fromhex(v["raw"])),
         lambda o: [shex(o.raw_data)], ["raw_data"]),
        ("aloha", O.AlohaPDUsForRandomAccessProtocol,
         [("tsccas", B()), ("sync", B()), ("dvc", U(3)), ("off", B()), ("act", B()), ("mask", U(5)), ("sf", E(RandomAccessServiceFunction)),
          ("nrand", U(4)), ("reg", B()), ("backoff", U(4)), ("sys", U(16)), ("tgt", U(24))],
         lambda v: dict(tsccas_support=bool(v["tsccas"]), site_timeslot_synchronized=bool(v["sync"]), document_version_control=v["dvc"],
                        tscc_is_offset_timing=bool(v["off"]), ts_active_connection=bool(v["act"]), aloha_mask=v["mask"],
                        service_function=RandomAccessServiceFunction(v["sf"]), nrand_wait=v["nrand"], tscc_reg_required=bool(v["reg"]),
                        tscc_backoff=v["backoff"], system_identity_code=v["sys"], target_address=v["tgt"]),
         lambda o: [b01(o.tsccas_support), b01(o.site_timeslot_synchronized), o.document_version_control, b01(o.tscc_is_offset_timing),
                    b01(o.ts_active_connection), o.aloha_mask, o.service_function.value, o.nrand_wait, b01(o.tscc_reg_required),
                    o.tscc_backoff, o.system_identity_code, o.target_address],
         ["tsccas_support", "site_timeslot_synchronized", "document_version_control", "tscc_is_offset_timing", "ts_active_connection",
          "aloha_mask", "service_function", "nrand_wait", "tscc_reg_required", "tscc_backoff", "system_identity_code", "target_address"]),
        ("broadcast", O.AnnouncementPDUsWithoutResponse,
         [("at", E(AnnouncementType)), ("params", BITS(38)), ("reg", B()), ("backoff", U(4)), ("sys", U(16))],
         lambda v: dict(announcement_type=AnnouncementType(v["at"]), broadcast_params=bitarray(v["params"]), tscc_reg_required=bool(v["reg"]),
                        tscc_backoff=v["backoff"], system_identity_code=v["sys"]),
         lambda o: [o.announcement_type.value, sbits(o.broadcast_params), b01(o.tscc_reg_required), o.tscc_backoff, o.system_identity_code],
         ["announcement_type", "broadcast_params", "tscc_reg_required", "tscc_backoff", "system_identity_code"]),
    ]
    by_op = {t[1]: t for t in table}
    defaults = {}

    def fmt(o, crc=None):
        t = by_op[o.csbko]
        return " ".join([b01(o.last_block), b01(o.protect_flag), str(o.feature_set.value), str(o.crc if crc is None else crc), t[0],
                         ",".join(str(x) for x in t[4](o))])

    def extra(o):
        t = by_op.get(o.csbko)
        if t is None:
            return None
        if o.csbko not in defaults:
            defaults[o.csbko] = attrs(CSBK(csbko=o.csbko, crc=1))
        d = defaults[o.csbko]
        a = attrs(o)
        keep = set(t[5]) | {"last_block", "protect_flag", "csbko", "feature_set", "crc"}
        bad = [k for k in a if k not in keep and a[k] != d.get(k)]
        return ("non-default unrelated attributes " + ",".join(bad)) if bad else None

    k = Kind("csbk", 96, CSBK.from_bits, fmt, errors=["ValueError", "NotImplementedError"], extra_check=extra)
    for name, op, fields, kw, _a, names in table:
        k.variants.append(
            Variant(k, name, hdr + fields, None, cls=CSBK, kwargs=(lambda v, op=op, kw=kw: dict(common(v, op), **kw(v))), payload_kwargs=kw,
                    carried=set(names) | {"last_block", "protect_flag", "csbko", "feature_set", "crc"})
        )
    ops = [t[1].value for t in table]

    def seeds(rng):
        b = int2ba(rng.getrandbits(96), length=96)
        r = rng.random()
        if r < 0.75:
            b[2:8] = int2ba(rng.choice(ops), length=6)
        elif r < 0.85:
            b[2:8] = int2ba(rng.choice([m.value for m in O]), length=6)
        op = ba2int(b[2:8])
        if rng.random() < 0.6:
            # make the inner enumerations valid more often than 1/256
            if op == O.UnitToUnitVoiceServiceAnswerResponse.value:
                b[24:32] = int2ba(rng.choice([0x20, 0x21]), length=8)
            if op == O.NegativeAcknowledgementResponse.value:
                b[24:32] = int2ba(0x21, length=8)
                b[18:24] = int2ba(rng.choice([m.value for m in O]), length=6)
        if rng.random() < 0.15:
            b[80:96] = 0
        return b

    k.bit_seeds = seeds
    return k


class UNZ(U):
    """unsigned integer of w bits, never 0"""

    def rand(self, rng):
        return rng.randrange(1, 1 << self.w)

    def specials(self, rng):
        return [v for v in super().specials(rng) if v != 0]


class VBITS:
    """bit string of variable length 0..n"""

    def __init__(self, n):
        self.n = n

    def rand(self, rng):
        k = rng.randrange(self.n + 1)
        return int2ba(rng.getrandbits(k), length=k).to01() if k else ""

    def specials(self, rng):
        return ["", "0", "1", "0" * self.n, "1" * self.n, "1" + "0" * (self.n - 1)]


class CHOICE:
    def __init__(self, spec_a, spec_b):
        self.a, self.b = spec_a, spec_b

    def rand(self, rng):
        return (self.a if rng.random() < 0.5 else self.b).rand(rng)

    def specials(self, rng):
        return self.a.specials(rng) + self.b.specials(rng)


def cross_variant_defaults(kind, carried, rng_seed=0):
    """attribute -> value it has in an object of a variant that does not carry it (the constructor default)"""
    import random

    rng = random.Random(rng_seed)
    objs = {}
    for var in kind.variants:
        vals = var.random_vals(rng)
        if var.fix:
            vals = var.fix(vals)
        objs[var.name] = attrs(var.build(vals))
    d = {}
    for vname, a in objs.items():
        for k, v in a.items():
            if k not in carried[vname] and k not in d:
                d[k] = v
    return d


def mk_dh_kind():
    from okdmr.dmrlib.etsi.layer2.pdu.data_header import DataHeader
    from okdmr.dmrlib.etsi.layer2.elements.data_packet_formats import DataPacketFormats as D
    from okdmr.dmrlib.etsi.layer2.elements.sap_identifier import SAPIdentifier
    from okdmr.dmrlib.etsi.layer2.elements.full_message_flag import FullMessageFlag
    from okdmr.dmrlib.etsi.layer2.elements.resynchronize_flag import ResynchronizeFlag
    from okdmr.dmrlib.etsi.layer2.elements.defined_data_formats import DefinedDataFormats
    from okdmr.dmrlib.etsi.layer2.elements.sarq import SARQ
    from okdmr.dmrlib.etsi.layer2.elements.udt_format import UDTFormat
    from okdmr.dmrlib.etsi.layer2.elements.supplementary_flag import SupplementaryFlag
    from okdmr.dmrlib.etsi.layer2.elements.csbk_opcodes import CsbkOpcodes
    from okdmr.dmrlib.etsi.layer3.elements.udt_option_flag import UDTOptionFlag

    hdr = [("crc", BITS(16))]
    common_attrs = {"data_packet_format", "crc"}
    table = [
        ("confirmed", D.DataPacketConfirmed,
         [("G", B()), ("A", B()), ("poc", U(5)), ("sap", E(SAPIdentifier)), ("dst", U(24)), ("src", U(24)), ("fmf", E(FullMessageFlag)),
          ("btf", U(7)), ("rsf", E(ResynchronizeFlag)), ("ns", U(3)), ("fsn", U(4))],
         lambda v: dict(is_group=v["G"], is_response_requested=v["A"], pad_octet_count=v["poc"], sap_identifier=SAPIdentifier(v["sap"]),
                        llid_destination=v["dst"], llid_source=v["src"], full_message_flag=FullMessageFlag(v["fmf"]), blocks_to_follow=v["btf"],
                        resynchronize_flag=ResynchronizeFlag(v["rsf"]), send_sequence_number=v["ns"], fragment_sequence_number=v["fsn"]),
         lambda o: [b01(o.is_group), b01(o.is_response_requested), o.pad_octet_count, o.sap_identifier.value, o.llid_destination, o.llid_source,
                    o.full_message_flag.value, o.blocks_to_follow, o.resynchronize_flag.value, o.send_sequence_number, o.fragment_sequence_number.value],
         ["is_group", "is_response_requested", "pad_octet_count", "sap_identifier", "llid_destination", "llid_source", "full_message_flag",
          "blocks_to_follow", "resynchronize_flag", "send_sequence_number", "fragment_sequence_number"]),
        ("unconfirmed", D.DataPacketUnconfirmed,
         [("G", B()), ("A", B()), ("poc", U(5)), ("sap", E(SAPIdentifier)), ("dst", U(24)), ("src", U(24)), ("fmf", E(FullMessageFlag)),
          ("btf", U(7)), ("fsn", U(4))],
         lambda v: dict(is_group=v["G"], is_response_requested=v["A"], pad_octet_count=v["poc"], sap_identifier=SAPIdentifier(v["sap"]),
                        llid_destination=v["dst"], llid_source=v["src"], full_message_flag=FullMessageFlag(v["fmf"]), blocks_to_follow=v["btf"],
                        fragment_sequence_number=v["fsn"]),
         lambda o: [b01(o.is_group), b01(o.is_response_requested), o.pad_octet_count, o.sap_identifier.value, o.llid_destination, o.llid_source,
                    o.full_message_flag.value, o.blocks_to_follow, o.fragment_sequence_number.value],
         ["is_group", "is_response_requested", "pad_octet_count", "sap_identifier", "llid_destination", "llid_source", "full_message_flag",
          "blocks_to_follow", "fragment_sequence_number"]),
        ("response", D.ResponsePacket,
         [("A", B()), ("sap", E(SAPIdentifier)), ("dst", U(24)), ("src", U(24)), ("fmf", E(FullMessageFlag)), ("btf", U(7)),
          ("cls", U(2)), ("typ", U(3)), ("status", U(3))],
         lambda v: dict(is_response_requested=v["A"], sap_identifier=SAPIdentifier(v["sap"]), llid_destination=v["dst"], llid_source=v["src"],
                        full_message_flag=FullMessageFlag(v["fmf"]), blocks_to_follow=v["btf"], response_class=v["cls"], response_type=v["typ"],
                        response_status=v["status"]),
         lambda o: [b01(o.is_response_requested), o.sap_identifier.value, o.llid_destination, o.llid_source, o.full_message_flag.value,
                    o.blocks_to_follow, o.response_class, o.response_type, o.response_status],
         ["is_response_requested", "sap_identifier", "llid_destination", "llid_source", "full_message_flag", "blocks_to_follow",
          "response_class", "response_type", "response_status"]),
        ("shortDataDefined", D.ShortDataDefined,
         [("G", B()), ("A", B()), ("ab", U(6)), ("sap", E(SAPIdentifier)), ("dst", U(24)), ("src", U(24)), ("ddf", E(DefinedDataFormats)),
          ("sarq", E(SARQ)), ("fmf", E(FullMessageFlag)), ("pad", BITS(8))],
         lambda v: dict(is_group=v["G"], is_response_requested=v["A"], appended_blocks=v["ab"], sap_identifier=SAPIdentifier(v["sap"]),
                        llid_destination=v["dst"], llid_source=v["src"], defined_data_format=DefinedDataFormats(v["ddf"]), sarq=SARQ(v["sarq"]),
                        full_message_flag=FullMessageFlag(v["fmf"]), bit_padding=bitarray(v["pad"])),
         lambda o: [b01(o.is_group), b01(o.is_response_requested), o.appended_blocks, o.sap_identifier.value, o.llid_destination, o.llid_source,
                    o.defined_data_format.value, o.sarq.value, o.full_message_flag.value, sbits(o.bit_padding)],
         ["is_group", "is_response_requested", "appended_blocks", "sap_identifier", "llid_destination", "llid_source", "defined_data_format",
          "sarq", "full_message_flag", "bit_padding"]),
        ("udt", D.UnifiedDataTransport,
         [("G", B()), ("A", B()), ("Em", B()), ("of", E(UDTOptionFlag)), ("sap", E(SAPIdentifier)), ("fmt", E(UDTFormat)), ("dst", U(24)),
          ("src", U(24)), ("pn", U(5)), ("ab", U(2)), ("sf", E(SupplementaryFlag)), ("op", E(CsbkOpcodes))],
         lambda v: dict(is_group=v["G"], is_response_requested=v["A"], is_emergency=v["Em"], udt_option_flag=UDTOptionFlag(v["of"]),
                        sap_identifier=SAPIdentifier(v["sap"]), udt_format=UDTFormat(v["fmt"]), llid_destination=v["dst"], llid_source=v["src"],
                        pad_nibbles_count=v["pn"], appended_blocks=v["ab"], supplementary_flag=SupplementaryFlag(v["sf"]),
                        udt_opcode=CsbkOpcodes(v["op"])),
         lambda o: [b01(o.is_group), b01(o.is_response_requested), b01(o.is_emergency), o.udt_option_flag.value, o.sap_identifier.value,
                    o.udt_format.value, o.llid_destination, o.llid_source, o.pad_nibbles_count, o.appended_blocks, o.supplementary_flag.value,
                    o.udt_opcode.value],
         ["is_group", "is_response_requested", "is_emergency", "udt_option_flag", "sap_identifier", "udt_format", "llid_destination",
          "llid_source", "pad_nibbles_count", "appended_blocks", "supplementary_flag", "udt_opcode"]),
    ]
    by_dpf = {t[1]: t for t in table}

    def fmt(o, crc=None):
        t = by_dpf[o.data_packet_format]
        c = sbits(o.crc) if crc is None else sbits(crc)
        return " ".join([c, t[0], ",".join(str(x) for x in t[4](o))])

    k = Kind("dh", 96, DataHeader.from_bits, fmt, errors=["ValueError", "NotImplementedError"])
    for name, dpf, fields, kw, _a, names in table:
        k.variants.append(Variant(k, name, hdr + fields, None, cls=DataHeader,
                                  kwargs=(lambda v, dpf=dpf, kw=kw: dict(dpf=dpf, crc=bitarray(v["crc"]), **kw(v))), payload_kwargs=kw,
                                  carried=set(names) | common_attrs))
    carried = {t[0]: set(t[5]) | common_attrs for t in table}
    defaults = cross_variant_defaults(k, carried)

    def extra(o):
        t = by_dpf.get(o.data_packet_format)
        if t is None:
            return None
        a = attrs(o)
        bad = [x for x in a if x not in carried[t[0]] and x in defaults and a[x] != defaults[x]]
        return ("non-default unrelated attributes " + ",".join(bad)) if bad else None

    k.extra_check = extra
    dpfs = [t[1].value for t in table]

    def seeds(rng):
        b = int2ba(rng.getrandbits(96), length=96)
        if rng.random() < 0.85:
            b[4:8] = int2ba(rng.choice(dpfs), length=4)
        if ba2int(b[4:8]) == 0 and rng.random() < 0.7:
            b[74:80] = int2ba(rng.choice([m.value for m in CsbkOpcodes]), length=6)
        if rng.random() < 0.15:
            b[80:96] = 0
        return b

    k.bit_seeds = seeds
    return k


GPS_LON = 360 / 2**25
GPS_LAT = 180 / 2**24


def gps_raw(x, step):
    r = x / step
    return int(r) if r == int(r) else repr(r)


def mk_flc_kind():
    from okdmr.dmrlib.etsi.layer2.pdu.full_link_control import FullLinkControl
    from okdmr.dmrlib.etsi.layer2.elements.flcos import FLCOs
    from okdmr.dmrlib.etsi.layer2.elements.feature_set_ids import FeatureSetIDs
    from okdmr.dmrlib.etsi.layer3.elements.position_error import PositionError
    from okdmr.dmrlib.etsi.layer3.elements.talker_alias_data_format import TalkerAliasDataFormat

    hdr = [("pf", B()), ("fid", E(FeatureSetIDs)), ("crc", CHOICE(BITS(24), BITS(5)))]
    table = [
        ("unitToUnit", [FLCOs.UnitToUnitVoiceChannelUser], so_fields() + [("tgt", U(24)), ("src", U(24))],
         lambda v: dict(service_options=so_build(v), target_address=v["tgt"], source_address=v["src"]),
         lambda o: so_args(o.service_options) + [o.target_address, o.source_address],
         ["service_options", "target_address", "source_address"]),
        ("group", [FLCOs.GroupVoiceChannelUser], so_fields() + [("grp", U(24)), ("src", U(24))],
         lambda v: dict(service_options=so_build(v), group_address=v["grp"], source_address=v["src"]),
         lambda o: so_args(o.service_options) + [o.group_address, o.source_address],
         ["service_options", "group_address", "source_address"]),
        ("gpsInfo", [FLCOs.GPSInfo], [("pe", E(PositionError)), ("lon", S(25)), ("lat", S(24))],
         lambda v: dict(position_error=PositionError(v["pe"]), longitude=v["lon"] * GPS_LON, latitude=v["lat"] * GPS_LAT),
         lambda o: [o.position_error.value, gps_raw(o.longitude, GPS_LON), gps_raw(o.latitude, GPS_LAT)],
         ["position_error", "longitude", "latitude"]),
        ("talkerAliasHeader", [FLCOs.TalkerAliasHeader], [("fmt", E(TalkerAliasDataFormat)), ("len", U(5)), ("msb", B()), ("data", BYTES(6))],
         lambda v: dict(talker_alias_data_format=TalkerAliasDataFormat(v["fmt"]), talker_alias_data_length=v["len"],
                        talker_alias_data_msb=v["msb"], talker_alias_data=bytes.fromhex(v["data"])),
         lambda o: [o.talker_alias_data_format.value, o.talker_alias_data_length, b01(o.talker_alias_data_msb), shex(o.talker_alias_data)],
         ["talker_alias_data_format", "talker_alias_data_length", "talker_alias_data_msb", "talker_alias_data"]),
        ("talkerAliasBlock", [FLCOs.TalkerAliasBlock1, FLCOs.TalkerAliasBlock2, FLCOs.TalkerAliasBlock3],
         [("flco", E(FLCOs, [FLCOs.TalkerAliasBlock1, FLCOs.TalkerAliasBlock2, FLCOs.TalkerAliasBlock3])), ("data", BYTES(7))],
         lambda v: dict(talker_alias_data=bytes.fromhex(v["data"])),
         lambda o: [o.full_link_control_opcode.value, shex(o.talker_alias_data)],
         ["talker_alias_data"]),
    ]
    by_op = {}
    for t in table:
        for op in t[1]:
            by_op[op] = t

    def fmt(o, crc=None):
        t = by_op[o.full_link_control_opcode]
        return " ".join([b01(o.protect_flag), str(o.feature_set_id.value), sbits(o.crc), t[0], ",".join(str(x) for x in t[4](o))])

    def extra(o):
        t = by_op.get(o.full_link_control_opcode)
        if t is None:
            return None
        d = attrs(FullLinkControl(protect_flag=0, flco=o.full_link_control_opcode, fid=o.feature_set_id, crc=o.crc))
        a = attrs(o)
        keep = set(t[5]) | {"protect_flag", "full_link_control_opcode", "feature_set_id", "crc"}
        bad = [x for x in a if x not in keep and a[x] != d.get(x)]
        return ("non-default unrelated attributes " + ",".join(bad)) if bad else None

    k = Kind("flc", None, FullLinkControl.from_bits, fmt, errors=["ValueError", "KeyError"], extra_check=extra)
    for name, ops, fields, kw, _a, names in table:
        def kwargs(v, ops=ops, kw=kw):
            flco = FLCOs(v["flco"]) if "flco" in v else ops[0]
            return dict(protect_flag=v["pf"], flco=flco, fid=FeatureSetIDs(v["fid"]), crc=bitarray(v["crc"]), **kw(v))

        k.variants.append(Variant(k, name, hdr + fields, None, length=lambda v: 72 + len(v["crc"]), cls=FullLinkControl, kwargs=kwargs,
                                  payload_kwargs=kw, carried=set(names) | {"protect_flag", "full_link_control_opcode", "feature_set_id", "crc"}))
    ops = [op.value for op in by_op]

    def seeds(rng):
        n = 96 if rng.random() < 0.6 else 77
        b = int2ba(rng.getrandbits(n), length=n)
        r = rng.random()
        if r < 0.8:
            b[2:8] = int2ba(rng.choice(ops), length=6)
        elif r < 0.9:
            b[2:8] = int2ba(rng.choice([m.value for m in FLCOs]), length=6)
        return b

    k.bit_seeds = seeds
    return k


def mk_slc_kind():
    from okdmr.dmrlib.etsi.layer2.pdu.short_link_control import ShortLinkControl
    from okdmr.dmrlib.etsi.layer2.elements.slcos import SLCOs
    from okdmr.dmrlib.etsi.layer3.elements.activity_id import ActivityID

    def fmt(o, crc=None):
        c = sbits(o.crc_8bit) if crc is None else sbits(crc)
        if o.slco == SLCOs.NullMessage:
            return f"{c} null -"
        return f"{c} activity {o.ts1_activity_id.value},{o.ts2_activity_id.value},{sbits(o.ts1_address)},{sbits(o.ts2_address)}"

    def extra(o):
        if o.slco == SLCOs.NullMessage:
            d = attrs(ShortLinkControl(slco=SLCOs.NullMessage, crc_8bit=1))
            a = attrs(o)
            bad = [x for x in a if x not in ("slco", "crc_8bit") and a[x] != d.get(x)]
            return ("non-default unrelated attributes " + ",".join(bad)) if bad else None
        return None

    k = Kind("slc", 36, ShortLinkControl.from_bits, fmt, errors=["KeyError", "ValueError"], extra_check=extra)
    act_kw = lambda v: dict(ts1_activity_id=ActivityID(v["t1"]), ts2_activity_id=ActivityID(v["t2"]), ts1_address=bitarray(v["a1"]),
                            ts2_address=bitarray(v["a2"]))
    k.variants = [
        Variant(k, "null", [("crc", BITS(8))], None, cls=ShortLinkControl,
                kwargs=lambda v: dict(slco=SLCOs.NullMessage, crc_8bit=bitarray(v["crc"])), payload_kwargs=lambda v: {},
                carried={"slco", "crc_8bit"}),
        Variant(k, "activity", [("crc", BITS(8)), ("t1", E(ActivityID)), ("t2", E(ActivityID)), ("a1", BITS(8)), ("a2", BITS(8))], None,
                cls=ShortLinkControl, kwargs=lambda v: dict(slco=SLCOs.ActivityUpdate, crc_8bit=bitarray(v["crc"]), **act_kw(v)),
                payload_kwargs=act_kw, carried=None),
    ]

    def seeds(rng):
        b = int2ba(rng.getrandbits(36), length=36)
        if rng.random() < 0.8:
            b[0:4] = int2ba(rng.choice([0, 1]), length=4)
        if rng.random() < 0.2:
            b[28:36] = 0
        return b

    k.bit_seeds = seeds
    k.n_bits = (1200, 30000)
    return k


def mk_pi_kind():
    from okdmr.dmrlib.etsi.layer2.pdu.pi_header import PIHeader

    k = Kind("pi", 96, PIHeader.from_bits, lambda o, crc=None: f"{shex(o.data)} {o.crc}", errors=[])
    k.variants = [Variant(k, "pi", [("data", BYTES(10)), ("crc", U(16))], None, cls=PIHeader,
                          kwargs=lambda v: dict(data=bytes.fromhex(v["data"]), crc=v["crc"]), payload_kwargs=lambda v: {})]
    k.bit_seeds = lambda rng: int2ba(rng.getrandbits(96), length=96)
    k.n_bits = (800, 20000)
    return k


RATE_TYPES = ["unconfirmed", "confirmed", "unconfirmedLast", "confirmedLast"]


def rate_consistency(cname, cls, T, tname, members):
    """the other entry points of the rate PDU codecs (coverage round: none of them was executed by any generated input):
    from_bits — the untyped entry point of BitsInterface, the one Burst.extract_data calls — must be the typed decoder with the Undefined
    type and keep all bits as data; convert() of that untyped block to the block's type (what a receiver does once the header told it
    the type) must be the typed decoder; is_confirmed / is_last_block / resolve / get_data_type must classify the block as the type it
    was decoded with."""
    conf = tname in ("confirmed", "confirmedLast")
    last = tname in ("unconfirmedLast", "confirmedLast")
    dt_name = {"12": "Rate12Data", "34": "Rate34Data", "1": "Rate1Data"}[cname]

    def chk(ctx, inp, o, bits):
        bits = bitarray(bits)
        u, err = call(cls.from_bits, bitarray(bits))
        t, err2 = call(cls.from_bits_typed, bitarray(bits), T.Undefined)
        if err or err2 or attrs(u) != attrs(t):
            ctx.fail("untyped-entry-differs", inp, f"rate{cname}: from_bits(b) is not from_bits_typed(b, Undefined)",
                     expected=err2 or attrs(t), actual=err or attrs(u))
            return
        ub, err = call(u.as_bits)
        if err or ub != bits or bytes(u.data) != bits.tobytes():
            ctx.fail("untyped-entry-differs", inp, f"rate{cname}: the untyped decode does not keep the received bits as data / does not serialise to them",
                     expected=sbits(bits), actual=err or sbits(ub))
        dt, err = call(cls.get_data_type)
        if err or getattr(dt, "name", None) != dt_name:
            ctx.fail("rate-classification", inp, f"rate{cname}: get_data_type() is {err or dt}", expected=dt_name, actual=err or str(dt))
        want_c, want_l = (conf, last) if tname != "undefined" else (False, False)
        c, err = call(o.is_confirmed)
        l_, err2 = call(o.is_last_block)
        if err or err2 or (bool(c), bool(l_)) != (want_c, want_l):
            ctx.fail("rate-classification", inp, f"rate{cname}/{tname}: is_confirmed / is_last_block = {err or c} / {err2 or l_}",
                     expected=[want_c, want_l], actual=[err or c, err2 or l_])
        r, err = call(T.resolve, want_c, want_l)
        if err or r is not o.packet_type:
            ctx.fail("rate-classification", inp, f"rate{cname}/{tname}: resolve(confirmed={want_c}, last={want_l}) is {err or r}, the block is {o.packet_type}",
                     expected=str(o.packet_type), actual=err or str(r))
        if tname != "undefined":
            v, err = call(u.convert, members[tname])
            if err or attrs(v) != attrs(o):
                ctx.fail("convert-differs", inp, f"rate{cname}/{tname}: from_bits(b).convert(type) is not from_bits_typed(b, type)",
                         expected=attrs(o), actual=err or attrs(v))
            else:
                vb, err = call(v.as_bits)
                if err or vb != bits:
                    ctx.fail("convert-differs", inp, f"rate{cname}/{tname}: from_bits(b).convert(type).as_bits() != b", expected=sbits(bits), actual=err or sbits(vb))
        ctx.count(f"rate{cname}:other-entry-points")

    return chk


def mk_rate_kinds():
    from okdmr.dmrlib.etsi.layer2.pdu.rate12_data import Rate12Data, Rate12DataTypes
    from okdmr.dmrlib.etsi.layer2.pdu.rate34_data import Rate34Data, Rate34DataTypes
    from okdmr.dmrlib.etsi.layer2.pdu.rate1_data import Rate1Data, Rate1DataTypes

    out = []
    for cname, cls, T, total in (("12", Rate12Data, Rate12DataTypes, 12), ("34", Rate34Data, Rate34DataTypes, 18), ("1", Rate1Data, Rate1DataTypes, 24)):
        members = {"unconfirmed": T.Unconfirmed, "confirmed": T.Confirmed, "unconfirmedLast": T.UnconfirmedLastBlock,
                   "confirmedLast": T.ConfirmedLastBlock, "undefined": T.Undefined}
        for tname in RATE_TYPES + ["undefined"]:
            member = members[tname]
            fmt = lambda o, crc=None: f"{shex(o.data)} {o.dbsn} {o.crc9} {o.crc32}"
            k = Kind(f"rate{cname}.{tname}", 8 * total, (lambda b, cls=cls, member=member: cls.from_bits_typed(b, member)), fmt, errors=[],
                     dec_line=(lambda s, cname=cname, tname=tname: f"rate.dec {cname} {tname} {s}"))
            k.bit_seeds = lambda rng, total=total: (
                (lambda b: (b.__setitem__(slice(7, 16), 0), b)[1] if rng.random() < 0.15 else b)(int2ba(rng.getrandbits(8 * total), length=8 * total)))
            k.n_bits = (250, 6000)
            k.consistency = rate_consistency(cname, cls, T, tname, members)
            if tname != "undefined":
                dl = member.value
                fields = [("data", BYTES(dl))]
                if tname in ("confirmed", "confirmedLast"):
                    fields += [("dbsn", U(7)), ("crc9", U(9))]
                if tname in ("unconfirmedLast", "confirmedLast"):
                    fields += [("crc32", U(32))]

                def kwargs(v, member=member):
                    return dict(data=bytes.fromhex(v["data"]), packet_type=member, dbsn=v.get("dbsn", 0), crc9=v.get("crc9", 0), crc32=v.get("crc32", 0))

                carried = {"data", "packet_type"} | ({"dbsn", "crc9"} if tname in ("confirmed", "confirmedLast") else set()) \
                    | ({"crc32"} if tname in ("unconfirmedLast", "confirmedLast") else set())
                have = {n for n, _s in fields}
                optional = [(n, sp) for n, sp in (("dbsn", U(7)), ("crc9", U(9)), ("crc32", U(32))) if n not in have]
                k.variants = [Variant(k, tname, fields, None, cls=cls, kwargs=kwargs, payload_kwargs=lambda v: {}, carried=carried,
                                      optional=optional)]
                k.enc_line = (lambda p, v, cname=cname, tname=tname:
                              f"rate.enc {cname} {tname} {v['data'] or '-'} {v.get('dbsn', 0)} {v.get('crc9', 0)} {v.get('crc32', 0)}")
                k.enc_line_from_text = False
                k.enc_out = lambda p, bits: f"{p.crc9} {sbits(bits)}"
                k.rate = (cname, tname, members)
            out.append(k)
    return out


def mk_udp_kind():
    from okdmr.dmrlib.etsi.layer3.pdu.udp_ipv4_compressed_header import UDPIPv4CompressedHeader as H
    from okdmr.dmrlib.etsi.layer3.elements.ip_address_identifier import IPAddressIdentifier
    from okdmr.dmrlib.etsi.layer3.elements.udp_port_identifier import UDPPortIdentifier

    port_members = {m.value: m for m in UDPPortIdentifier}
    PORT_SEL = [1, 2, 3, 95]  # text message, LIP, reserved, manufacturer specific

    def fmt(o, crc=None):
        e = lambda x: "-" if x is None else str(x)
        return " ".join(str(x) for x in [o.ipv4_identification, o.source_ip_address_id.value, o.destination_ip_address_id.value,
                                         o.udp_source_port_original, o.udp_source_port_id.value, o.udp_destination_port_original,
                                         o.udp_destination_port_id.value, e(o.extended_header_1), e(o.extended_header_2), sbits(o.user_data)])

    k = Kind("udp", None, H.from_bits, fmt, errors=["AssertionError"])
    base = [("id", U(16)), ("sip", E(IPAddressIdentifier)), ("dip", E(IPAddressIdentifier)), ("ud", VBITS(80)), ("as_member", B())]

    def kwargs(v):
        sp, dp = v.get("sp", 0), v.get("dp", 0)
        if v["as_member"]:
            sp = port_members.get(sp, sp)
            dp = port_members.get(dp, dp)
        return dict(ipv4_identification=v["id"], source_ip_address_id=IPAddressIdentifier(v["sip"]), destination_ip_address_id=IPAddressIdentifier(v["dip"]),
                    udp_source_port_id=sp, udp_destination_port_id=dp, user_data=bitarray(v["ud"]),
                    extended_header_1=v.get("e1"), extended_header_2=v.get("e2"))

    ln = lambda v: 40 + 16 * (("e1" in v) + ("e2" in v)) + len(v["ud"])
    mk = lambda name, fields: Variant(k, name, base + fields, None, length=ln, cls=H, kwargs=kwargs, payload_kwargs=lambda v: {})
    k.variants = [
        mk("ext0", [("sp", UNZ(7, sel=PORT_SEL)), ("dp", UNZ(7, sel=PORT_SEL))]),
        mk("ext1s", [("dp", UNZ(7, sel=PORT_SEL)), ("e1", U(16))]),
        mk("ext1d", [("sp", UNZ(7, sel=PORT_SEL)), ("e1", U(16))]),
        mk("ext2", [("e1", U(16)), ("e2", U(16))]),
    ]

    def seeds(rng):
        n = rng.choice([40, 41, 47, 55, 56, 57, 64, 71, 72, 73, 96, 120, rng.randrange(0, 130)])
        b = int2ba(rng.getrandbits(n), length=n) if n else bitarray()
        if n >= 40:
            if rng.random() < 0.5:
                b[25:32] = 0
            if rng.random() < 0.5:
                b[33:40] = 0
        return b

    k.bit_seeds = seeds
    k.n_bits = (3000, 60000)
    return k


# ---- every attribute of an object, for the models of as_bits() over the whole attribute record (Model/PduArgs.lean)
def _ev(x):
    return "-" if x is None else str(x.value)


def _nv(x):
    return "-" if x is None else str(int(x))


def _bv(x):
    return "-" if x is None else sbits(x)


def dh_attrs_line(o):
    return "dh.encattrs " + " ".join([
        _ev(o.data_packet_format), sbits(o.crc), b01(o.is_group), b01(o.is_response_requested), _nv(o.pad_octet_count), _ev(o.sap_identifier),
        _nv(o.llid_destination), _nv(o.llid_source), _ev(o.full_message_flag), _nv(o.blocks_to_follow), _ev(o.resynchronize_flag),
        _nv(o.send_sequence_number), _ev(o.fragment_sequence_number), _nv(o.response_class), _nv(o.response_type), _nv(o.response_status),
        _nv(o.appended_blocks), _ev(o.defined_data_format), _ev(o.sarq), _bv(o.bit_padding), b01(o.is_emergency), _ev(o.udt_option_flag),
        _nv(o.pad_nibbles_count), _ev(o.udt_format), _ev(o.udt_opcode), _ev(o.supplementary_flag)])


def csbk_attrs_line(o):
    so = o.service_options
    return "csbk.encattrs " + " ".join([
        _ev(o.csbko), b01(o.last_block), b01(o.protect_flag), _ev(o.feature_set), _nv(o.crc), _nv(o.bs_address), _nv(o.source_address),
        "-" if so is None else ",".join(so_args(so)), _nv(o.target_address), _ev(o.answer_response), _ev(o.additional_information_field),
        _ev(o.source_type), _ev(o.service_type), _ev(o.reason_code), b01(o.csbk_content_follows_preambles), b01(o.target_address_is_individual),
        _nv(o.blocks_to_follow), _nv(o.sync_age), _nv(o.generation), _nv(o.leader_identifier), _nv(o.new_leader),
        _ev(o.leader_dynamic_identifier), _ev(o.channel_timing_opcode), _nv(o.source_identifier), _ev(o.source_dynamic_identifier),
        b01(o.tsccas_support), b01(o.site_timeslot_synchronized), _nv(o.document_version_control), b01(o.tscc_is_offset_timing),
        b01(o.ts_active_connection), _nv(o.aloha_mask), _ev(o.service_function), _nv(o.nrand_wait), b01(o.tscc_reg_required),
        _nv(o.tscc_backoff), _nv(o.system_identity_code), shex(o.raw_data), _ev(o.announcement_type), _bv(o.broadcast_params)])


def flc_attrs_line(o):
    so = o.service_options
    return "flc.encattrs " + " ".join([
        b01(o.protect_flag), _ev(o.full_link_control_opcode), _ev(o.feature_set_id), _bv(o.crc), "-" if so is None else ",".join(so_args(so)),
        _nv(o.group_address), _nv(o.source_address), _nv(o.target_address), _ev(o.position_error), str(gps_raw(o.longitude, GPS_LON)),
        str(gps_raw(o.latitude, GPS_LAT)), _ev(o.talker_alias_data_format), _nv(o.talker_alias_data_length), b01(o.talker_alias_data_msb),
        shex(o.talker_alias_data)])


def slc_attrs_line(o):
    return "slc.encattrs " + " ".join([_ev(o.slco), _bv(o.crc_8bit), _ev(o.ts1_activity_id), _ev(o.ts2_activity_id), _bv(o.ts1_address),
                                        _bv(o.ts2_address)])


# ---- the canonical field text (the one kind.fmt prints for an object) written from the GIVEN plain field values: what the object must
# hold if the constructor stores its arguments as they are (a check field given as 0 / all-zero is the "compute it" sentinel)
def _pv(x):
    return "-" if x == "" else str(x)


def _payload_text(var, vals, skip):
    return ",".join(_pv(vals[n]) for n, _sp in var.fields if n not in skip) or "-"


def csbk_vals_text(var, vals, p):
    return " ".join([b01(vals["lb"]), b01(vals["pf"]), str(vals["fid"]), str(vals["crc"]), var.name, _payload_text(var, vals, ("lb", "pf", "fid", "crc"))])


def dh_vals_text(var, vals, p):
    return " ".join([_pv(vals["crc"]), var.name, _payload_text(var, vals, ("crc",))])


def flc_vals_text(var, vals, p):
    return " ".join([b01(vals["pf"]), str(vals["fid"]), _pv(vals["crc"]), var.name, _payload_text(var, vals, ("pf", "fid", "crc"))])


def slc_vals_text(var, vals, p):
    return " ".join([_pv(vals["crc"]), var.name, _payload_text(var, vals, ("crc",))])


def so_vals_text(var, vals, p):
    return _payload_text(var, vals, ())


def pi_vals_text(var, vals, p):
    return f"{_pv(vals['data'])} {p.crc}"  # the CRC argument is not stored (always recomputed)


def rate_vals_text(var, vals, p):
    c9 = vals.get("crc9", 0)
    return f"{_pv(vals['data'])} {vals.get('dbsn', 0)} {c9 if c9 else p.crc9} {vals.get('crc32', 0)}"


VALS_TEXT = {"csbk": csbk_vals_text, "dh": dh_vals_text, "flc": flc_vals_text, "slc": slc_vals_text, "so": so_vals_text, "pi": pi_vals_text,
             "rate": rate_vals_text}


ATTRS_LINES = {"dh": dh_attrs_line, "csbk": csbk_attrs_line, "flc": flc_attrs_line, "slc": slc_attrs_line}


def kinds():
    ks = [mk_so_kind(), mk_csbk_kind(), mk_dh_kind(), mk_flc_kind(), mk_slc_kind(), mk_pi_kind()] + mk_rate_kinds() + [mk_udp_kind()]
    cfs = mk_check_fields({k.name: k for k in ks})
    for k in ks:
        k.check = cfs.get(k.name, [])
        k.attrs_line = ATTRS_LINES.get(k.name)
        k.vals_text = VALS_TEXT.get("rate" if k.name.startswith("rate") else k.name)
    return ks


# ------------------------------------------------------------------------------------------------
# the oracle
def call(fn, *a):
    try:
        return fn(*a), None
    except BaseException as e:  # noqa
        return None, impl_error(e)


def build_object(kind, variant, vals, opts=None):
    """the PDU object for the plain field values; opts: {"ignored": …} sets constructor arguments the variant does NOT carry
    (ignored_kwargs), {"alt": [names]} passes the named arguments in the other type the constructor's signature accepts"""
    if not opts:
        return variant.build(vals)
    kw = variant.kwargs(merged_vals(variant, vals, opts))
    ign = opts.get("ignored")
    if ign:
        kw = dict(ignored_kwargs(kind, variant, kw, ign), **kw)
    for name in opts.get("alt") or []:
        if name in kw:
            kw[name] = alt_argument(kind, name, kw[name])
    return variant.cls(**kw)


def merged_vals(variant, vals, opts):
    """field values + the optional plain keys (arguments the variant's build reads with a default) of the 'ignored' option"""
    extra = ((opts or {}).get("ignored") or {}).get("extra")
    if not extra:
        return vals
    return dict({k: v for k, v in extra.items() if k not in vals}, **vals)


def check_fields(ctx, kind, variant, vals, record=True, opts=None):
    """property on the real code for one PDU built from fields; returns (enc line pair or None).
    opts["ignored"]: the object is built with non-default values in constructor arguments its opcode / format does not carry —
    they must not reach the wire: the carried attributes are compared with the decoded ones (the others come back as defaults)."""
    inp = {"kind": kind.name, "variant": variant.name, "mode": "fields", "fields": vals}
    if opts:
        inp["options"] = opts
    ignoring = bool(opts and opts.get("ignored"))
    how = (" with ignored constructor arguments set" if ignoring else "") + (f" with {opts['alt']} in the other accepted type" if opts and opts.get("alt") else "")
    p, err = call(build_object, kind, variant, vals, opts)
    if err:
        ctx.fail("constructor-raises", inp, f"{kind.name}/{variant.name}: building the PDU from in-range fields{how} raised {err}", actual=err)
        return None
    bits, err = call(p.as_bits)
    if err or bits is None:
        ctx.fail("as_bits-raises", inp, f"{kind.name}/{variant.name}: as_bits{how} raised {err}", actual=err)
        return None
    hold = getattr(ctx, "hold", None)
    if hold is not None:
        hold.keep(f"{kind.name}.as_bits", inp, bits)
    pa = attrs(p)
    mv = merged_vals(variant, vals, opts)
    enc_line = None
    vt = getattr(kind, "vals_text", None)
    if vt is not None:
        # "built from field values": the object must hold the values it was given (compared in the canonical field text)
        want_txt, err = call(vt, variant, mv, p)
        got_txt, err2 = call(kind.fmt, p, mv.get("crc"))
        if not err and not err2:
            if want_txt != got_txt:
                ctx.fail("constructor-changes-field", inp, f"{kind.name}/{variant.name}: the object does not hold the field values it was built from{how}",
                         expected=want_txt, actual=got_txt)
            if kind.enc_line_from_text:
                enc_line = f"{kind.name}.enc {want_txt}"  # the model is given the values the PDU was built from
    want = variant.length(vals) if variant.length else kind.length
    if want is not None and len(bits) != want:
        ctx.fail("wrong-length", inp, f"{kind.name}/{variant.name}: serialised length {len(bits)} != {want}{how}", expected=want, actual=len(bits))
    q, err = call(kind.from_bits, bitarray(bits))
    if err:
        ctx.fail("decode-of-encoded-raises", inp, f"{kind.name}/{variant.name}: from_bits(as_bits(p)) raised {err}{how}", actual=err)
        return (enc_line or kind.enc_line(p, mv), None, p, bits)
    qa = attrs(q)
    if hold is not None:
        hold.keep(f"{kind.name}.from_bits", inp, q, qa)
    d = diff_attrs(pa, qa)
    if ignoring and variant.carried is not None:
        d = [x for x in d if x in variant.carried]
    if d:
        ctx.fail("field-lost", inp, f"{kind.name}/{variant.name}: from_bits(as_bits(p)) differs from p in {d}{how}",
                 expected={k: pa.get(k) for k in d}, actual={k: qa.get(k) for k in d})
    b2, err = call(q.as_bits)
    if err or b2 != bits:
        ctx.fail("bits-not-stable", inp, f"{kind.name}/{variant.name}: as_bits(from_bits(as_bits(p))) != as_bits(p){how}",
                 expected=sbits(bits), actual=err or sbits(b2))
    # the octet interface of the same codec (as_bytes / from_bytes), where the class has one and the PDU is whole octets
    fb = getattr(type(p), "from_bytes", None)
    if fb is not None and hasattr(p, "as_bytes") and len(bits) % 8 == 0 and not err:
        y, yerr = call(p.as_bytes)
        if yerr or bytes(y) != bits.tobytes():
            ctx.fail("bytes-path-differs", inp, f"{kind.name}/{variant.name}: as_bytes() is not the octets of as_bits(){how}", expected=bits.tobytes().hex(),
                     actual=yerr or bytes(y).hex())
        else:
            q2, e2 = call(fb, bytes(y))
            if e2 or attrs(q2) != qa:
                ctx.fail("bytes-path-differs", inp, f"{kind.name}/{variant.name}: from_bytes(as_bytes(p)) differs from from_bits(as_bits(p)){how}",
                         expected={k: qa.get(k) for k in (diff_attrs(qa, attrs(q2)) if not e2 else [])}, actual=e2 or {k: attrs(q2).get(k) for k in diff_attrs(qa, attrs(q2))})
    if kind.consistency is not None and b2 == bits:
        kind.consistency(ctx, inp, q, bits)
    return (enc_line or kind.enc_line(p, mv), (q, err or b2), p, bits)


def check_bits(ctx, kind, b):
    """property on the real code for one right-length bit string; returns the impl's dec output text"""
    s = sbits(b)
    inp = {"kind": kind.name, "mode": "bits", "bits": s}
    o, err = call(kind.from_bits, bitarray(b))
    if err:
        if err[4:] not in kind.errors:
            ctx.fail("undocumented-error", inp, f"{kind.name}: from_bits raised {err}, not one of {sorted(kind.errors)}", expected=sorted(kind.errors), actual=err)
        ctx.count(f"{kind.name}:dec:{err[4:]}")
        return err
    e1, err = call(o.as_bits)
    if err or e1 is None:
        ctx.fail("as_bits-raises", inp, f"{kind.name}: as_bits of a decoded object raised {err}", actual=err)
        return "ERR as_bits"
    hold = getattr(ctx, "hold", None)
    if hold is not None:
        hold.keep(f"{kind.name}.from_bits", inp, o)
        hold.keep(f"{kind.name}.as_bits", inp, e1)
    if len(e1) != len(b):
        ctx.fail("wrong-length", inp, f"{kind.name}: decoded object serialises to {len(e1)} bits, not {len(b)}", expected=len(b), actual=len(e1))
    else:
        # a received string whose other bits are exactly what the encoder writes for the decoded fields IS the serialisation of the
        # PDU built from those fields and the received check field: the check field must come back verbatim (unless it is the
        # all-zero "compute it" sentinel of the constructor)
        for cf in getattr(kind, "check", None) or []:
            sp = cf.span(b) if (cf.span and cf.verbatim) else None
            if sp and e1[:sp[0]] == b[:sp[0]] and e1[sp[1]:] == b[sp[1]:] and e1[sp[0]:sp[1]] != b[sp[0]:sp[1]] \
                    and (b[sp[0]:sp[1]].any() or not cf.regen_on_zero):
                ctx.fail("check-field-rewritten", inp, f"{kind.name}: the decoder does not return the received check field (bits {sp[0]}..{sp[1] - 1}) "
                         "verbatim although every other bit re-serialises as received", expected=sbits(b[sp[0]:sp[1]]), actual=sbits(e1[sp[0]:sp[1]]))
    o2, err = call(kind.from_bits, bitarray(e1))
    if err:
        ctx.fail("not-a-fixed-point", inp, f"{kind.name}: from_bits(as_bits(from_bits(b))) raised {err}", actual=err)
    else:
        a1, a2 = attrs(o), attrs(o2)
        d = diff_attrs(a1, a2)
        if d:
            ctx.fail("not-a-fixed-point", inp, f"{kind.name}: decode-encode-decode changes {d}",
                     expected={k: a1.get(k) for k in d}, actual={k: a2.get(k) for k in d})
        e2, err = call(o2.as_bits)
        if err or e2 != e1:
            ctx.fail("not-a-fixed-point", inp, f"{kind.name}: encode-decode-encode changes the bits", expected=sbits(e1), actual=err or sbits(e2))
    if kind.consistency is not None and len(e1) == len(b):
        # the consistency of the entry points is stated for the serialisation of the decoded object (a fixed point of the codec)
        kind.consistency(ctx, inp, o2 if o2 is not None else o, e1)
    out = f"ok {kind.fmt(o)} {sbits(e1)}"
    if kind.extra_check:
        x = kind.extra_check(o)
        if x:
            out += " EXTRA " + x
    ctx.count(f"{kind.name}:dec:ok")
    return out


# ------------------------------------------------------------------------------------------------
# elements
def element_classes():
    import importlib.util
    import os

    here = os.path.dirname(os.path.abspath(__file__))
    path = os.path.join(here, "..", "..", "tools", "extract_elements.py")
    spec = importlib.util.spec_from_file_location("extract_elements_for_c03", path)
    mod = importlib.util.module_from_spec(spec)
    mod.register = lambda name: (lambda f: f)
    mod.HEADER = ""
    spec.loader.exec_module(mod)
    done, skipped = mod.elements()
    return done


def element_outcome(cls, v):
    """canonical outcome of cls(v): 'M <value>' | 'ERR <Class>' | 'NOTHING'"""
    try:
        r = cls(v)
    except ValueError:
        hook_none = False
        try:
            hook_none = cls._missing_(v) is None
        except BaseException:
            pass
        return None, ("NOTHING" if hook_none else "ERR ValueError")
    except BaseException as e:  # noqa
        return None, impl_error(e)
    if r is None or not isinstance(r, cls):
        return None, "NOTHING"
    return r, f"M {r.value}"


def check_element_value(ctx, cls, w, v):
    """the property for one element value on the real code; returns the canonical outcome"""
    members = {m.value: m for m in cls}
    inp = {"kind": "element", "element": cls.__name__, "value": v}
    r, out = element_outcome(cls, v)
    if out == "NOTHING":
        ctx.fail("element-nothing", inp, f"{cls.__name__}({v}) yields nothing (the _missing_ hook returns None)")
    elif out.startswith("ERR") and out != "ERR ValueError":
        ctx.fail("element-error", inp, f"{cls.__name__}({v}) raises {out}, not the documented ValueError", actual=out)
    elif v in members and out != f"M {v}":
        ctx.fail("element-defined-not-self", inp, f"{cls.__name__}({v}) is defined but maps to {out}", expected=f"M {v}", actual=out)
    elif out.startswith("M"):
        m = int(out[2:])
        if m not in members or m >= 2**w:
            ctx.fail("element-fold-target", inp, f"{cls.__name__}({v}) maps to {m} which is not a defined {w}-bit member", actual=out)
        else:
            again, err = call(cls, m)
            if err or again is not r:
                ctx.fail("element-fold-not-idempotent", inp, f"{cls.__name__}({v}) = {m} but {cls.__name__}({m}) is {err or again}")
        if "from_bits" in vars(cls):
            fb, err = call(cls.from_bits, int2ba(v, length=w))
            if err or fb is not r:
                ctx.fail("element-from_bits", inp, f"{cls.__name__}.from_bits({v}) = {err or fb} differs from the constructor ({r})")
        if "as_bits" in vars(cls) and v in members:
            ab, err = call(members[v].as_bits)
            if err or ab != int2ba(v, length=w):
                ctx.fail("element-as_bits", inp, f"{cls.__name__}({v}).as_bits() = {err or ab.to01()}", expected=int2ba(v, length=w).to01())
    return out


def check_fsn_value(ctx, v):
    from okdmr.dmrlib.etsi.layer2.elements.fragment_sequence_number import FragmentSequenceNumber as F

    inp = {"kind": "element", "element": "FragmentSequenceNumber", "value": v}
    o, err = call(F.from_bits, int2ba(v, length=4))
    out = err or f"M {o.value}"
    if err or o.value != v or o.as_bits() != int2ba(v, length=4):
        ctx.fail("element-fsn", inp, f"FragmentSequenceNumber {v} does not survive from_bits/as_bits", expected=f"M {v}", actual=out)
    elif not err:
        # the reading of the field (ETSI TS 102 361-1 9.3.36: 0000 single unconfirmed fragment, 1xxx last / single confirmed fragment)
        il, e2 = call(o.is_last)
        if e2 or bool(il) != (v == 0 or v >= 8):
            ctx.fail("element-fsn", inp, f"FragmentSequenceNumber({v}).is_last() = {e2 or il}", expected=(v == 0 or v >= 8), actual=e2 or il)
    return out


def check_elements(ctx):
    pairs = []
    for lname, cls, w in element_classes():
        for v in range(2**w):
            ctx.case(("elem", cls.__name__, v), nontrivial=True,
                     sample={"element": cls.__name__, "value": v} if (cls.__name__, v) == ("FeatureSetIDs", 3) else None)
            out = check_element_value(ctx, cls, w, v)
            pairs.append((f"elem {cls.__name__} {v}", out))
            ctx.count(f"elem:{'member' if out.startswith('M') else out}")
    # FragmentSequenceNumber (plain class around a 4-bit value)
    for v in range(16):
        ctx.case(("elem", "FSN", v))
        pairs.append((f"elem FragmentSequenceNumber {v}", check_fsn_value(ctx, v)))
    if not ctx.search_only and ctx.driver_ok:
        ctx.correspond("elements", pairs)


def _utf8(s_):
    out = bytearray()
    for ch in s_:
        c = ord(ch)
        if c < 0x80:
            out.append(c)
        elif c < 0x800:
            out += bytes([0xC0 | c >> 6, 0x80 | c & 63])
        elif c < 0x10000:
            out += bytes([0xE0 | c >> 12, 0x80 | c >> 6 & 63, 0x80 | c & 63])
        else:
            out += bytes([0xF0 | c >> 18, 0x80 | c >> 12 & 63, 0x80 | c >> 6 & 63, 0x80 | c & 63])
    return bytes(out)


def _utf16le(s_):
    out = bytearray()
    for ch in s_:
        c = ord(ch)
        if c >= 0x10000:
            c -= 0x10000
            for u in (0xD800 | c >> 10, 0xDC00 | c & 0x3FF):
                out += bytes([u & 255, u >> 8])
        else:
            out += bytes([c & 255, c >> 8])
    return bytes(out)


TA_CODECS = {0b00: ("SevenBitCharacters", 0x7F, lambda s_: bytes(ord(c) for c in s_)), 0b01: ("ISOEightBitCharacters", 0xFF, lambda s_: bytes(ord(c) for c in s_)),
             0b10: ("UnicodeUTF8", 0x10FFFF, _utf8), 0b11: ("UnicodeUTF16LE", 0x10FFFF, _utf16le)}


def check_talker_alias_text(ctx):
    """the text side of the Talker Alias Data Format element (ETSI TS 102 361-2 7.2.18; coverage round: encode / decode were never executed):
    for each of the four formats, strings over the format's repertoire (boundary code points, the special tokens of the dictionary, random)
    encode to the octets an independent encoder written here gives, and decode back to the string"""
    from okdmr.dmrlib.etsi.layer3.elements.talker_alias_data_format import TalkerAliasDataFormat as T

    rng = ctx.rng
    for v, (name, top, ref) in TA_CODECS.items():
        m = T(v)
        edges = [c for c in (0, 1, 0x0A, 0x0D, 0x20, 0x41, 0x7E, 0x7F, 0x80, 0xA0, 0xFF, 0x100, 0x7FF, 0x800, 0xD7FF, 0xE000, 0xFEFF, 0xFFFD, 0xFFFE, 0xFFFF,
                                0x10000, 0x10FFFF) if c <= top]
        strings = [""] + [chr(c) for c in edges] + ["".join(chr(c) for c in edges)] + ["A" * n for n in (1, 6, 7, 31)]
        for _ in range(ctx.budget(40, 400)):
            n = rng.randrange(1, 32)
            strings.append("".join(chr(c) for c in (rng.choice(edges) if rng.random() < 0.3 else rng.randrange(top + 1) for _ in range(n))
                                   if not 0xD800 <= c <= 0xDFFF))
        for s_ in strings:
            inp = {"kind": "talker-alias-text", "format": v, "text": [ord(c) for c in s_]}
            ctx.case(("ta-text", v, s_), nontrivial=bool(s_))
            ctx.count(f"talker-alias-text:{name}")
            raw, err = call(m.encode, s_)
            want = ref(s_)
            if err or raw != want:
                ctx.fail("talker-alias-text", inp, f"TalkerAliasDataFormat.{name}.encode gives {err or bytes(raw).hex()}", expected=want.hex(), actual=err or bytes(raw).hex())
                continue
            back, err = call(m.decode, raw)
            if err or back != s_:
                ctx.fail("talker-alias-text", inp, f"TalkerAliasDataFormat.{name}.decode(encode(s)) is {err or [ord(c) for c in back]}",
                         expected=[ord(c) for c in s_], actual=err or [ord(c) for c in back])


def implemented_members(ks, rng):
    """{enum class: member values some variant of some kind passes to a constructor} (the E specs of the fields and a sample of kwargs)"""
    used = {}
    for k in ks.values():
        for var in k.variants:
            if var.cls is None or var.kwargs is None:
                continue
            for n, sp in var.fields:
                if isinstance(sp, E):
                    used.setdefault(sp.cls, set()).update(sp.vals)
            for j in range(6):
                kw, err = call(var.kwargs, fill(var, rng, "random"))
                if not err:
                    for n, x in kw.items():
                        if isinstance(x, enum.Enum):
                            used.setdefault(type(x), set()).add(x.value)
    return used


def unimplemented_selector_cases(ctx, k, rng, used):
    """encode side of 'undefined / not implemented' (coverage round: FullLinkControl.as_bits' refusal was never executed): the PDU class is built
    with every DEFINED member of its opcode / format enumerations that NO variant of the codec implements (e.g. FLCO Terminator Data Link
    Control), the other arguments being those of an implemented variant.  Constructing or serialising must raise one of the documented errors;
    if bits come out instead they must be a fixed point of decode-then-encode (then the opcode IS implemented)."""
    rows = []
    for var in k.variants:
        if var.cls is None or var.kwargs is None:
            continue
        kw, err = call(var.kwargs, fill(var, rng, "random"))
        if not err:
            rows.append((var, kw))
    documented = set(k.errors) | {"ValueError", "KeyError", "NotImplementedError"}
    for var, kw in rows:
        for n, x in sorted(kw.items()):
            if not isinstance(x, enum.Enum):
                continue
            for m in type(x):
                if m.value in used.get(type(x), ()):
                    continue
                inp = {"kind": k.name, "mode": "unimplemented", "variant": var.name, "argument": n, "member": m.name}
                ctx.case(("unimplemented", k.name, var.name, n, m.name))
                p, err = call(lambda: var.cls(**dict(kw, **{n: m})))
                bits = None
                if not err:
                    bits, err = call(p.as_bits)
                if err:
                    ctx.count(f"unimplemented:{k.name}.{n}={m.name}:{err[4:]}")
                    if err[4:] not in documented:
                        ctx.fail("undocumented-error", inp, f"{k.name}: serialising a PDU with the defined but not implemented {n}={m.name} raised {err}, "
                                 f"not one of {sorted(documented)}", expected=sorted(documented), actual=err)
                    continue
                ctx.count(f"unimplemented:{k.name}.{n}={m.name}:bits")
                o, err = call(k.from_bits, bitarray(bits))
                if err:
                    if err[4:] not in documented:
                        ctx.fail("undocumented-error", inp, f"{k.name}: decoding the serialisation for {n}={m.name} raised {err}", expected=sorted(documented), actual=err)
                    continue
                e1, err = call(o.as_bits)
                if err or e1 != bits:
                    ctx.fail("not-a-fixed-point", inp, f"{k.name}: a PDU with {n}={m.name} serialises to bits that are not a fixed point of decode-then-encode",
                             expected=sbits(bits), actual=err or sbits(e1))


def check_gps_floats(ctx):
    """trusted-base cross-check: the float step of GPS Info is exact on every raw value tried (the
    expressions are the ones of full_link_control.py), and a sample goes through the real PDU"""
    from okdmr.dmrlib.etsi.layer2.pdu.full_link_control import FullLinkControl
    from okdmr.dmrlib.etsi.layer2.elements.flcos import FLCOs
    from okdmr.dmrlib.etsi.layer2.elements.feature_set_ids import FeatureSetIDs
    from okdmr.dmrlib.etsi.layer3.elements.position_error import PositionError

    for w, step_expr in ((25, 360 / 2**25), (24, 180 / 2**24)):
        lo, hi = -(1 << (w - 1)), (1 << (w - 1)) - 1
        ns = {0, 1, -1, lo, lo + 1, hi, hi - 1} | {1 << i for i in range(w - 1)} | {-(1 << i) for i in range(w - 1)}
        ns |= {(1 << i) - 1 for i in range(w)} | {-(1 << i) + 1 for i in range(w)}
        ns = {n for n in ns if lo <= n <= hi}
        ns |= {ctx.rng.randrange(lo, hi + 1) for _ in range(ctx.budget(20000, 1 << 18))}
        bad = None
        for n in ns:
            x = step_expr * n  # from_bits
            back = int(x / step_expr)  # as_bits
            if back != n:
                bad = (n, back)
                break
        ctx.case(("gps-float", w, len(ns)))
        ctx.count(f"gps-float:{w}", len(ns))
        if bad:
            ctx.fail("gps-float-inexact", {"kind": "flc", "mode": "gps-float", "width": w, "raw": bad[0]},
                     f"GPS Info {w}-bit raw value {bad[0]} comes back as {bad[1]} through the float step", expected=bad[0], actual=bad[1])
    for _ in range(ctx.budget(300, 20000)):
        lon = ctx.rng.randrange(-(1 << 24), 1 << 24)
        lat = ctx.rng.randrange(-(1 << 23), 1 << 23)
        p = FullLinkControl(protect_flag=0, flco=FLCOs.GPSInfo, fid=FeatureSetIDs.StandardizedFID, crc=bitarray("0" * 24),
                            position_error=PositionError(lon % 8), longitude=lon * (360 / 2**25), latitude=lat * (180 / 2**24))
        bits = p.as_bits()
        q = FullLinkControl.from_bits(bits)
        ctx.case(("gps-pdu", lon, lat))
        if ba2int(bits[23:48], signed=True) != lon or ba2int(bits[48:72], signed=True) != lat or q.longitude != p.longitude or q.latitude != p.latitude:
            ctx.fail("gps-roundtrip", {"kind": "flc", "variant": "gpsInfo", "mode": "fields",
                                       "fields": {"pf": 0, "fid": 0, "crc": "0" * 24, "pe": lon % 8, "lon": lon, "lat": lat}},
                     "GPS Info coordinates do not survive as_bits / from_bits", expected=[lon, lat],
                     actual=[ba2int(bits[23:48], signed=True), ba2int(bits[48:72], signed=True)])


# ------------------------------------------------------------------------------------------------
# special-token dictionary for opaque / text-like payload fields (talker alias data, raw_data, broadcast_params,
# user data of rate blocks, UDP payload, PI data, check fields kept verbatim, 16+ bit integers)
def token_dictionary():
    """[(class, bytes)] — deterministic order, no duplicates.  Classes are recorded in the evidence."""
    toks, seen = [], set()

    def add(cls_, *hexes):
        for h in hexes:
            b = h if isinstance(h, bytes) else bytes.fromhex(h)
            if b and b not in seen:
                seen.add(b)
                toks.append((cls_, b))

    # byte order marks: UTF-16 LE / BE, UTF-8, UTF-32 LE / BE, UTF-7
    add("bom", "fffe", "feff", "efbbbf", "fffe0000", "0000feff", "2b2f76")
    # NUL runs
    add("nul", "00", "0000", "000000", "00000000")
    # line ends: 8-bit, UTF-16 BE / LE
    add("crlf", "0d0a", "0a0d", "0d", "0a", "000d000a", "0d000a00", "000a", "0a00", "000d", "0d00")
    # 7F / 80 boundaries, sign boundaries
    add("boundary", "7f", "80", "7f80", "807f", "7fff", "8000", "ff7f", "80000000", "7fffffff", "0080", "8080")
    # all ones
    add("ones", "ff", "ffff", "ffffff", "ffffffff")
    # UTF-16 surrogates (BE / LE), non-characters, combining mark, invalid / overlong UTF-8
    add("unicode", "d800", "00d8", "dc00", "00dc", "dfff", "d83dde00", "3dd800de", "0301", "0103", "c080", "c0af", "eda080",
        "f4908080", "fe", "f8")
    # ASCII specials: space(s), ESC, DEL neighbours, quote / escape / separator characters, digits
    add("ascii", "20", "2020", "1b", "7e", "24", "2c", "5c", "22", "25", "30", "09", "0020", "2000")
    # protocol constants: text-message UDP header / ports, feature set ids, ETSI special addresses, alternating bits
    add("const", "0fa7", "0fa1", "0fa5", "1398", "10", "68", "fffec0", "fffecf", "fffffe", "fffffd", "aaaa", "5555", "a5", "5a")
    try:
        from okdmr.dmrlib.etsi.layer2.elements.crc_masks import CrcMasks
        from okdmr.dmrlib.etsi.layer2.elements.sync_patterns import SyncPatterns

        for m in CrcMasks:
            if isinstance(m.value, int) and m.value > 0:
                add("const", m.value.to_bytes(max(1, (m.value.bit_length() + 7) // 8), "big"))
        for m in list(SyncPatterns)[:4]:
            if isinstance(m.value, int) and m.value > 0:
                add("const", m.value.to_bytes(6, "big"))
    except BaseException:  # noqa: the dictionary must not depend on these modules being importable
        pass
    return toks


def bits_of(b):
    x = bitarray(endian="big")
    x.frombytes(bytes(b))
    return x.to01()


def rand_bits(rng, n):
    return int2ba(rng.getrandbits(n), length=n).to01() if n else ""


def background(rng, n, mode):
    """n background bits: random / zeros / random / ones"""
    mode %= 4
    if mode == 1:
        return "0" * n
    if mode == 3:
        return "1" * n
    return rand_bits(rng, n)


def overlay01(bg, tok01, o):
    """bit string bg with tok01 written at bit offset o (truncated at the end of bg)"""
    t = tok01[: max(0, len(bg) - o)]
    return bg[:o] + t + bg[o + len(t):]


def opaque_info(spec):
    """(class, width in bits) of a field that carries octets / bits the codec must pass through untouched;
    'payload' = opaque or text-like payload, 'number' = check field kept verbatim or integer of >= 16 bits"""
    if isinstance(spec, BYTES) and spec.n >= 1:
        return ("payload", 8 * spec.n)
    if isinstance(spec, VBITS):
        return ("payload", None)
    if isinstance(spec, CHOICE):
        return opaque_info(spec.a)
    if isinstance(spec, BITS) and spec.n >= 8:
        return ("payload" if spec.n not in (16, 24) else "number", spec.n)
    if isinstance(spec, U) and not isinstance(spec, UNZ) and spec.w >= 16:
        return ("number", spec.w)
    return None


def opaque_offsets(spec, tok, full=False):
    """bit offsets (relative to the field) at which the token is placed: every octet offset, and right-aligned"""
    cls_, n = opaque_info(spec)
    if n is None:  # variable length: the token ends the field, or is followed by a tail
        return [8 * i for i in range(0, 11)] + ([8 * 24, 8 * 60, 8 * 140] if full else [])
    offs = list(range(0, n, 8))
    r = n - 8 * len(tok)
    if r > 0 and r not in offs:
        offs.append(r)
    return offs


def opaque_value(spec, tok, o, rng, mode, tail=0):
    """plain-domain field value with the token at bit offset o"""
    if isinstance(spec, CHOICE):
        spec = spec.a
    t01 = bits_of(tok)
    if isinstance(spec, VBITS):
        n = o + len(t01) + tail
        return overlay01(background(rng, n, mode), t01, o)
    if isinstance(spec, BYTES):
        s = overlay01(background(rng, 8 * spec.n, mode), t01, o)
        return bitarray(s).tobytes().hex()
    if isinstance(spec, BITS):
        return overlay01(background(rng, spec.n, mode), t01, o)
    s = overlay01(background(rng, spec.w, mode), t01, o)  # U
    return int(s, 2)


SEPTETS = [("nul", "0000000"), ("del", "1111111"), ("cr", "0001101"), ("lf", "0001010"), ("space", "0100000"), ("esc", "0011011")]
SEL_CAP = 16  # selector fields with at most this many values are crossed completely with every token placement


def selector_domain(spec):
    """values of a field that may select a branch of the codec: enum members, flags, small integers, check-field width"""
    if isinstance(spec, E):
        return [("v", x) for x in spec.vals]
    if isinstance(spec, CHOICE):
        return [("g", spec.a), ("g", spec.b)]
    if isinstance(spec, U):
        if getattr(spec, "sel", None):
            return [("v", x) for x in spec.sel]
        if spec.w <= 3:
            return [("v", x) for x in range(1 << spec.w)]
    return None


def covering_rows(var, target, counter, rng, full=False):
    """field assignments (without the target field) such that, for this token placement, EVERY value of every selector
    field with <= SEL_CAP values occurs (pairwise covering: placement x selector value); selectors with more values rotate
    with the placement counter, so that all their values are met over the placements; the other fields are random.
    full=True (thorough): the complete cross product of the small selectors when it has at most 96 rows."""
    sels = [(n, selector_domain(s)) for n, s in var.fields if n != target and selector_domain(s)]
    small = [(n, d) for n, d in sels if len(d) <= SEL_CAP]
    rows = max([len(d) for _, d in small] + [1])
    combos = None
    if full and small:
        total = 1
        for _, d in small:
            total *= len(d)
        if total <= 96:
            import itertools

            combos = list(itertools.product(*[range(len(d)) for _, d in small]))
            rows = len(combos)
    out = []
    for r in range(rows):
        vals = {}
        for n, s in var.fields:
            if n != target:
                vals[n] = s.rand(rng)
        for i, (n, d) in enumerate(sels):
            if combos is not None and (n, d) in small:
                idx = combos[r][small.index((n, d))]
            elif len(d) <= rows:
                idx = (r + counter * (i + 1)) % len(d)
            else:
                idx = (r + counter * rows) % len(d)
            how, x = d[idx]
            vals[n] = x if how == "v" else x.rand(rng)
        out.append(vals)
    return out


def token_field_cases(ctx, var, rng, toks):
    """yield (desc, vals, token class) — every token at every octet offset of every opaque field of the variant, crossed with
    the selector values (covering_rows)"""
    counter = 0
    full = ctx.thorough()
    for fname, spec in var.fields:
        info = opaque_info(spec)
        if info is None:
            continue
        kind_, _n = info
        for ti, (tcls, tok) in enumerate(toks):
            for o in opaque_offsets(spec, tok, full):
                counter += 1
                if kind_ == "number" and not full and (counter + ti) % 3:
                    continue  # quick: check fields / integers get a rotating third of the dictionary
                rows = covering_rows(var, fname, counter, rng, full=full and kind_ == "payload")
                if kind_ == "number" and not full:
                    rows = rows[counter % len(rows):][:1]
                for r, vals in enumerate(rows):
                    tail = (0, 3, 16)[(counter + r) % 3]
                    vals = dict(vals)
                    vals[fname] = opaque_value(spec, tok, o, rng, r + counter, tail=tail)
                    # keep the order of the variant's field list (canonical descriptions)
                    vals = {n: vals[n] for n, _s in var.fields}
                    if var.fix:
                        vals = var.fix(vals)
                    yield (fname, tok.hex(), o, r), vals, tcls
        # 7-bit packed text (talker alias 7-bit format and the like): 7-bit characters at every BIT offset of the payload
        if kind_ == "payload" and _n is not None and (_n <= 64 or full):
            base_spec = spec.a if isinstance(spec, CHOICE) else spec
            for s7name, s7 in SEPTETS:
                for o in range(_n):
                    counter += 1
                    for r, vals in enumerate(covering_rows(var, fname, counter, rng)):
                        vals = dict(vals)
                        s01 = overlay01(background(rng, _n, r + counter), s7, o)
                        vals[fname] = bitarray(s01).tobytes().hex() if isinstance(base_spec, BYTES) else (s01 if isinstance(base_spec, BITS) else int(s01, 2))
                        vals = {n: vals[n] for n, _s in var.fields}
                        if var.fix:
                            vals = var.fix(vals)
                        yield (fname, "7bit-" + s7name, o, r), vals, "septet"


def variant_bases(k, rng, per_variant=4):
    """valid encodings of the kind: per variant a few objects whose selector fields follow the covering rows"""
    bases = []
    for vi, var in enumerate(k.variants):
        rows = covering_rows(var, None, vi, rng)
        step = max(1, len(rows) // per_variant)
        for vals in rows[::step][:per_variant]:
            vals = {n: vals[n] for n, _s in var.fields}
            p, err = call(var.build, vals)
            if err:
                continue
            bits, err = call(p.as_bits)
            if err or bits is None or not len(bits):
                continue
            bases.append((var.name, bitarray(bits)))
    return bases


def token_overlay_cases(ctx, k, rng, toks):
    """yield (desc, bitarray): valid encodings (and, for kinds without field variants, random right-length strings) with a token
    written over the PDU at every octet offset — reaches tokens that straddle field boundaries — and, with a rotating
    multi-octet token, at every BIT offset (7-bit packed text, fields that are not octet aligned)"""
    bases = variant_bases(k, rng)
    if not bases:
        bases = [("-", k.bit_seeds(rng)) for _ in range(4)]
    full = ctx.thorough()
    stride = 1 if full else (4 if k.name.startswith("rate") else 2)
    phase = rng.randrange(stride)
    counter = 0
    for ti, (tcls, tok) in enumerate(toks):
        t = bitarray(bits_of(tok))
        maxlen = max(len(b) for _, b in bases)
        for off in range(0, maxlen, 8):
            counter += 1
            if (counter + ti) % stride != phase:
                continue
            for j in range(len(bases) if full else 1):  # thorough: every base (variant x selector row)
                vname, base = bases[(counter + j) % len(bases)]
                if off >= len(base):
                    continue
                b = base.copy()
                n = min(len(t), len(b) - off)
                b[off:off + n] = t[:n]
                yield ("octet", vname, tok.hex(), off), b, tcls
    multi = [(c, t) for c, t in toks if len(t) >= 2]
    per = {}
    for vname, base in bases:
        if vname in per and not full:
            continue  # quick: one base per variant
        per[vname] = True
        for o in range(len(base)):
            counter += 1
            tcls, tok = multi[counter % len(multi)]
            t = bitarray(bits_of(tok))
            b = base.copy()
            n = min(len(t), len(b) - o)
            b[o:o + n] = t[:n]
            yield ("bit", vname, tok.hex(), o), b, tcls


# ------------------------------------------------------------------------------------------------
# result aliasing / history dependence: every as_bits / from_bits / as_bytes / from_bytes of every element and PDU must behave
# like a function of its argument — results are fresh objects, mutating a returned object (or the argument, afterwards)
# changes nothing that a later call returns, results held across other calls keep their value
MUT_OPS = ["+=", "extend", "append", "setitem", "invert", "clear", "setall", "slice=", "del", "reverse", "insert", "pop", "frombytes"]


def is_enum(x):
    import enum

    return isinstance(x, enum.Enum)


def is_container(x):
    return isinstance(x, (bitarray, bytearray, list, dict, set))


def mutate_in_place(x, op):
    """one of the ordinary in-place idioms on a returned mutable container; returns False if nothing applicable"""
    try:
        if isinstance(x, bitarray):
            if op == "+=":
                x += bitarray("1011001110001111" * 4)
            elif op == "extend":
                x.extend([1, 0, 1])
            elif op == "append":
                x.append(1)
            elif op == "setitem":
                if not len(x):
                    return False
                x[0] = not x[0]
                x[-1] = not x[-1]
            elif op == "invert":
                if not len(x):
                    return False
                x.invert()
            elif op == "clear":
                if not len(x):
                    return False
                x.clear()
            elif op == "setall":
                if not len(x) or x.all():
                    x.extend([0])
                x.setall(1)
            elif op == "slice=":
                x[0:len(x) // 2] = bitarray("10" * 9)
            elif op == "del":
                if not len(x):
                    return False
                del x[0]
            elif op == "reverse":
                x.reverse()
                x.append(0)
            elif op == "insert":
                x.insert(0, 1)
            elif op == "pop":
                if not len(x):
                    return False
                x.pop()
            elif op == "frombytes":
                x.frombytes(b"\xff\xfe")
            else:
                return False
            return True
        if isinstance(x, bytearray):
            if op in ("clear", "del", "pop") and len(x):
                del x[0]
            elif op in ("setitem", "invert", "setall") and len(x):
                x[0] ^= 0xFF
            else:
                x += b"\xff\xfe"
            return True
        if isinstance(x, list):
            if op in ("clear", "del", "pop") and x:
                x.pop()
            else:
                x.append(None)
            return True
        if isinstance(x, dict):
            x["<mutated>"] = 1
            return True
        if isinstance(x, set):
            x.add("<mutated>")
            return True
    except BaseException:  # noqa: an operation the container refuses leaves it as it is
        return False
    return False


_DEFAULT_IDS = {}


def constructor_default_ids(cls):
    """ids of the mutable default arguments of cls.__init__ (shared between objects by Python itself: the subject of
    property C19, not of this probe)"""
    import inspect

    if cls not in _DEFAULT_IDS:
        ids = set()
        try:
            for p in inspect.signature(cls.__init__).parameters.values():
                if p.default is not inspect.Parameter.empty and (is_container(p.default) or hasattr(p.default, "__dict__")) and not is_enum(p.default):
                    ids.add(id(p.default))
        except BaseException:  # noqa
            pass
        _DEFAULT_IDS[cls] = ids
    return _DEFAULT_IDS[cls]


def mutable_parts(o, path="", out=None, depth=0):
    """[(path, owner, attribute, object)]: mutable containers / nested objects reachable through the attributes of o
    (enum members are shared by design and not entered; constructor defaults are left out)"""
    if out is None:
        out = []
    if depth > 3 or not hasattr(o, "__dict__") or is_enum(o):
        return out
    skip = constructor_default_ids(type(o))
    for name, v in sorted(vars(o).items()):
        if is_enum(v) or id(v) in skip:
            continue
        if is_container(v):
            out.append((path + name, o, name, v))
        elif hasattr(v, "__dict__") and not isinstance(v, type):
            out.append((path + name, o, name, v))
            mutable_parts(v, path + name + ".", out, depth + 1)
    return out


def scramble(o, op):
    """change every attribute of a returned object: containers in place (op), everything else by rebinding"""
    for path, owner, name, v in mutable_parts(o):
        if is_container(v):
            mutate_in_place(v, op)
    stack = [o]
    while stack:
        x = stack.pop()
        if not hasattr(x, "__dict__") or is_enum(x):
            continue
        for name, v in sorted(vars(x).items()):
            if isinstance(v, bool):
                setattr(x, name, not v)
            elif isinstance(v, int):
                setattr(x, name, v ^ 1)
            elif isinstance(v, float):
                setattr(x, name, v + 1.0)
            elif isinstance(v, bytes):
                setattr(x, name, b"\xff\xfe" + v[:1])
            elif is_enum(v):
                ms = list(type(v))
                setattr(x, name, ms[(ms.index(v) + 1) % len(ms)])
            elif v is None:
                setattr(x, name, 0)
            elif hasattr(v, "__dict__") and not isinstance(v, type):
                stack.append(v)


def outcome(r, err):
    """canonical outcome of a call, for comparing two calls with each other"""
    if err:
        return err
    if hasattr(r, "__dict__") and not is_enum(r):
        return attrs(r)
    return canon(r)


class SubCtx:
    """collects the failures of a nested check (follow-up of a history, replay)"""

    def __init__(self):
        self.failures = []
        self.hist = {}
        self.hold = None
        self.notes = []

    def fail(self, kind, input, what, expected=None, actual=None):
        self.failures.append((kind, what, expected, actual))

    def count(self, *a, **k):
        pass

    def case(self, *a, **k):
        pass


def alias_element_classes():
    """name -> class, for every class of the element packages that defines as_bits or from_bits (enums and plain classes)"""
    import importlib
    import pkgutil

    out = {}
    for pkg_name in ("okdmr.dmrlib.etsi.layer2.elements", "okdmr.dmrlib.etsi.layer3.elements"):
        pkg = importlib.import_module(pkg_name)
        for mi in sorted(pkgutil.iter_modules(pkg.__path__), key=lambda m: m.name):
            mod = importlib.import_module(f"{pkg_name}.{mi.name}")
            for name, obj in sorted(vars(mod).items()):
                if isinstance(obj, type) and obj.__module__ == mod.__name__ and ("as_bits" in vars(obj) or "from_bits" in vars(obj)):
                    out[name] = obj
    return out


def element_instances(cls):
    """[(key, instance)] of an element class: the members of an enum; FragmentSequenceNumber(0..15); ServiceOptions is a PDU kind"""
    import enum

    if issubclass(cls, enum.Enum):
        return [(m.name, m) for m in cls]
    if cls.__name__ == "FragmentSequenceNumber":
        return [(v, cls(v)) for v in range(16)]
    return []


def element_instance(cls, key):
    import enum

    return cls[key] if issubclass(cls, enum.Enum) else cls(key)


_CARRIERS = {}


def element_carriers(ks):
    """element class name -> [(kind, variant, field name | None, fixed member | None)]: the PDU variants that serialise a member
    of the class, through a field of the variant (E spec) or as the variant's own opcode / format (found on a sample object)"""
    import random

    key = id(ks)
    if key in _CARRIERS:
        return _CARRIERS[key]
    rng = random.Random(3)
    idx = {}
    for k in ks.values():
        for var in k.variants:
            spec_classes = set()
            for fname, spec in var.fields:
                if isinstance(spec, E):
                    spec_classes.add(spec.cls)
                    idx.setdefault(spec.cls.__name__, []).append((k, var, fname, None))
            p, err = call(var.build, var.random_vals(rng))
            if err:
                continue
            for name, v in sorted(vars(p).items()):
                if is_enum(v) and type(v) not in spec_classes:
                    idx.setdefault(type(v).__name__, []).append((k, var, None, v))
    _CARRIERS[key] = idx
    return idx


def probe_element(ctx, spec, ks, ref=None):
    """history on one element instance: as_bits twice; mutate the first result in place (spec['op']); as_bits again; from_bits of
    the value; then build / serialise / decode PDUs that carry the instance.  Deterministic from spec."""
    import random

    cls = alias_element_classes().get(spec["element"])
    if cls is None:
        return
    m = element_instance(cls, spec["member"])
    op = spec["op"]
    tag = f"{cls.__name__}.{spec['member']}"
    if "as_bits" not in vars(cls):
        return
    a, err = call(m.as_bits)
    if err or not isinstance(a, bitarray):
        b, err2 = call(m.as_bits)
        if outcome(a, err) != outcome(b, err2):
            ctx.fail("alias-unstable", spec, f"{tag}.as_bits(): two calls give {outcome(a, err)} and {outcome(b, err2)}")
        return
    value = getattr(m, "value", None)
    # reference value: the integer value on the width of the first result of the run (taken before any history)
    w = len(ref) if ref is not None else len(a)
    if isinstance(value, int) and not isinstance(value, bool) and 0 <= value < (1 << w):
        want = int2ba(value, length=w).to01()
    else:
        want = ref if ref is not None else a.to01()
    if a.to01() != want:
        ctx.fail("alias-element-value", spec, f"{tag}.as_bits() is {sbits(a)} ({len(a)} bits), not {want}", expected=want, actual=sbits(a))
    b, err = call(m.as_bits)
    if b is a:
        ctx.fail("alias-same-object", spec, f"{tag}.as_bits() returns the same mutable bitarray object on every call: a caller that extends "
                 "or edits its copy changes what every later call (and every PDU carrying the element) serialises")
    # PDUs that carry the instance: checked once BEFORE the history (a failure there is an ordinary round-trip failure and is reported
    # as such) and again after it (a failure that appears only then is caused by the history)
    plan = plan_element_pdus(ks, cls, m, tag, op) if is_enum(m) else []
    sound = []
    for k, var, vals in plan:
        n0 = len(ctx.failures)
        check_fields(ctx, k, var, vals)
        if len(ctx.failures) == n0:
            sound.append((k, var, vals))
    if not mutate_in_place(a, op):
        return
    if isinstance(b, bitarray) and b is not a:
        mutate_in_place(b, op)  # a cache may be filled by the first call and served from the second on
    for nth in ("next", "next but one"):
        c, err = call(m.as_bits)
        if err or not isinstance(c, bitarray) or c.to01() != want:
            ctx.fail("alias-mutation-visible", spec, f"after `x = {tag}.as_bits(); x {op} …` the {nth} {tag}.as_bits() is "
                     f"{err or (str(len(c)) + ' bits ' + sbits(c))}", expected=want, actual=err or sbits(c))
            break
        mutate_in_place(c, op)
    if "from_bits" in vars(cls):
        inb = bitarray(want)
        r, err = call(cls.from_bits, inb)
        if inb.to01() != want:
            ctx.fail("alias-argument-modified", spec, f"{cls.__name__}.from_bits modifies its argument", expected=want, actual=sbits(inb))
        if is_enum(m) and (err or r is not m):
            ctx.fail("alias-element-from_bits", spec, f"{cls.__name__}.from_bits({want}) is {err or r}, not the member {tag}")
        if not err and not is_enum(m):
            r2, err2 = call(cls.from_bits, bitarray(want))
            if r2 is r:
                ctx.fail("alias-same-object", spec, f"{cls.__name__}.from_bits returns the same mutable object on every call")
            snap = outcome(r, None)
            scramble(r, op)
            r3, err3 = call(cls.from_bits, bitarray(want))
            if outcome(r3, err3) != snap:
                ctx.fail("alias-mutation-visible", spec, f"after changing the object returned by {cls.__name__}.from_bits({want}) the next call "
                         f"returns {outcome(r3, err3)}", expected=snap, actual=outcome(r3, err3))
    for k, var, vals in sound:
        sub = SubCtx()
        check_fields(sub, k, var, vals)
        ctx.count("alias:element-then-pdu")
        for kind_, what, exp, act in sub.failures[:1]:
            ctx.fail("alias-poisons-pdu", dict(spec, then={"kind": k.name, "variant": var.name, "fields": vals}),
                     f"after `x = {tag}.as_bits(); x {op} …` (the same PDU round-trips before): {what}", expected=exp, actual=act)
    # a shared object that was changed is put back (in place) after it was reported, so that the rest of the run is evaluated on an
    # unpoisoned library and further findings are not drowned
    c, err = call(m.as_bits)
    if not err and isinstance(c, bitarray) and c.to01() != want:
        c.clear()
        c.extend(bitarray(want))
        ctx.count("alias:restored-shared-object")


def plan_element_pdus(ks, cls, m, tag, op):
    """[(kind, variant, field values)]: up to two PDU variants that serialise the member m (deterministic from the probe's name)"""
    import random

    cands = [c for c in element_carriers(ks).get(cls.__name__, []) if c[3] is None or c[3] is m]
    if not cands:
        return []
    rng = random.Random(f"{tag}:{op}")
    start = rng.randrange(len(cands))
    out = []
    for j in range(min(2, len(cands))):
        k, var, fname, _fixed = cands[(start + j) % len(cands)]
        vals = var.random_vals(rng)
        if fname is not None:
            if m.value not in dict(var.fields)[fname].vals:
                continue
            vals[fname] = m.value
        out.append((k, var, vals))
    return out


def probe_pdu(ctx, spec, ks):
    """history on one PDU built from fields: as_bits twice, mutate the first result in place, as_bits again (same object and a fresh
    object with equal fields), as_bytes before / after; from_bits twice on the same bits, the argument left alone, the two objects
    share nothing mutable, changing one object (and, afterwards, the argument) does not change the other or a third decode;
    results held while other PDUs are built, serialised and decoded keep their value.  Deterministic from spec."""
    import random

    k = ks.get(spec["pdu"])
    if k is None:
        return
    var = next((v for v in k.variants if v.name == spec["variant"]), None)
    if var is None:
        return
    vals, op = spec["fields"], spec["op"]
    tag = f"{k.name}/{var.name}"
    p, err = call(var.build, vals)
    if err:
        return  # reported by the field sweep
    before = attrs(p)
    a, err = call(p.as_bits)
    if err or not isinstance(a, bitarray):
        return
    if attrs(p) != before:
        ctx.fail("alias-as_bits-changes-object", spec, f"{tag}: as_bits() changes attributes {diff_attrs(before, attrs(p))} of the object it serialises")
        before = attrs(p)
    s0 = a.to01()
    b, err = call(p.as_bits)
    if b is a:
        ctx.fail("alias-same-object", spec, f"{tag}: as_bits() returns the same mutable bitarray object on every call")
    for path, _owner, _name, v in mutable_parts(p):
        if v is a:
            ctx.fail("alias-internal-field", spec, f"{tag}: as_bits() returns the object's own attribute {path}, not a copy")
    y0 = None
    if hasattr(p, "as_bytes"):
        y, yerr = call(p.as_bytes)
        y0 = outcome(y, yerr)
        if isinstance(y, bytearray):
            mutate_in_place(y, op)
    rng = random.Random(f"{tag}:{op}:{s0}")
    if op == "other-calls":
        # hold the results while other objects of the same kind are built, serialised and decoded
        o, oerr = call(k.from_bits, bitarray(s0))
        osnap = outcome(o, oerr)
        for _ in range(6):
            v2 = rng.choice(k.variants)
            p2, e2 = call(v2.build, v2.random_vals(rng))
            if e2:
                continue
            b2, e2 = call(p2.as_bits)
            if not e2 and isinstance(b2, bitarray):
                call(k.from_bits, bitarray(b2))
            call(k.from_bits, k.bit_seeds(rng))
        if a.to01() != s0:
            ctx.fail("alias-held-result-changed", spec, f"{tag}: a bitarray returned by as_bits() changed while other PDUs were serialised / decoded "
                     "(shared output buffer)", expected=s0, actual=sbits(a))
        if outcome(o, oerr) != osnap:
            ctx.fail("alias-held-result-changed", spec, f"{tag}: an object returned by from_bits() changed while other PDUs were serialised / decoded",
                     expected=osnap, actual=outcome(o, oerr))
    elif mutate_in_place(a, op):
        if attrs(p) != before:
            ctx.fail("alias-internal-field", spec, f"{tag}: changing the bitarray returned by as_bits() ({op}) changes attributes "
                     f"{diff_attrs(before, attrs(p))} of the object", expected={x: before.get(x) for x in diff_attrs(before, attrs(p))})
            return
        if isinstance(b, bitarray) and b is not a:
            mutate_in_place(b, op)  # a cache may be filled by the first call and served from the second on
        for nth in ("next", "next but one"):
            c, err = call(p.as_bits)
            if err or not isinstance(c, bitarray) or c.to01() != s0:
                ctx.fail("alias-mutation-visible", spec, f"{tag}: after `x = p.as_bits(); x {op} …` the {nth} p.as_bits() differs", expected=s0, actual=err or sbits(c))
                break
            mutate_in_place(c, op)
        p2, err = call(var.build, vals)
        if not err:
            c2, err = call(p2.as_bits)
            if err or not isinstance(c2, bitarray) or c2.to01() != s0:
                ctx.fail("alias-mutation-visible", spec, f"{tag}: after `x = p.as_bits(); x {op} …` an equal object built from the same fields serialises differently",
                         expected=s0, actual=err or sbits(c2))
    if y0 is not None:
        y, yerr = call(p.as_bytes)
        if outcome(y, yerr) != y0:
            ctx.fail("alias-mutation-visible", spec, f"{tag}: as_bytes() differs after the history", expected=y0, actual=outcome(y, yerr))
    # ---- decode side
    inb = bitarray(s0)
    o1, err = call(k.from_bits, inb)
    if err or o1 is None or not hasattr(o1, "__dict__"):
        return
    if inb.to01() != s0:
        ctx.fail("alias-argument-modified", spec, f"{tag}: from_bits modifies its argument", expected=s0, actual=sbits(inb))
        inb = bitarray(s0)
    o2, err = call(k.from_bits, inb)
    if err:
        ctx.fail("alias-unstable", spec, f"{tag}: the second from_bits of the same bits raised {err}")
        return
    if o2 is o1:
        ctx.fail("alias-same-object", spec, f"{tag}: from_bits returns the same mutable object for the same bits")
        return
    snap = attrs(o1)
    if attrs(o2) != snap:
        ctx.fail("alias-unstable", spec, f"{tag}: two from_bits of the same bits differ in {diff_attrs(snap, attrs(o2))}")
        return
    ids1 = {id(v): path for path, _o, _n, v in mutable_parts(o1)}
    for path, _o, _n, v in mutable_parts(o2):
        if id(v) in ids1:
            ctx.fail("alias-shared-attribute", spec, f"{tag}: two decoded objects share the mutable attribute {path}")
            return
    for path, _o, _n, v in mutable_parts(o1):
        if v is inb:
            ctx.fail("alias-shared-attribute", spec, f"{tag}: the decoded object keeps the caller's bitarray as attribute {path}")
            return
    e0, err = call(o1.as_bits)
    e0 = err or sbits(e0)
    if op != "other-calls":
        scramble(o1, op)
        if attrs(o2) != snap:
            ctx.fail("alias-mutation-visible", spec, f"{tag}: changing one decoded object changes another one in {diff_attrs(snap, attrs(o2))}")
            return
        mutate_in_place(inb, op)
        if attrs(o2) != snap:
            ctx.fail("alias-shared-attribute", spec, f"{tag}: changing the argument after from_bits changes the decoded object in {diff_attrs(snap, attrs(o2))}")
            return
        scramble(o2, op)  # every object obtained so far is changed: a cache may be served from the second call on
        for nth in ("next", "next but one"):
            o3, err = call(k.from_bits, bitarray(s0))
            if err or attrs(o3) != snap:
                ctx.fail("alias-mutation-visible", spec, f"{tag}: after changing the decoded objects, the {nth} from_bits of the same bits returns something else",
                         expected=snap, actual=err or attrs(o3))
                return
            e3, err = call(o3.as_bits)
            if (err or sbits(e3)) != e0:
                ctx.fail("alias-mutation-visible", spec, f"{tag}: after changing the decoded objects, a new decode serialises differently", expected=e0, actual=err or sbits(e3))
                return
            scramble(o3, op)
    # rate blocks: convert(type) returns a new object each time and leaves the block alone
    if getattr(k, "rate", None) and op != "other-calls":
        members = k.rate[2]
        for t2 in RATE_TYPES:
            c1, e1 = call(p.convert, members[t2])
            c2, e2 = call(p.convert, members[t2])
            if outcome(c1, e1) != outcome(c2, e2):
                ctx.fail("alias-unstable", spec, f"{tag}: two convert({t2}) of the same block differ")
            elif not e1 and c1 is not None and (c1 is c2 or c1 is p):
                ctx.fail("alias-same-object", spec, f"{tag}: convert({t2}) returns {'the block itself' if c1 is p else 'the same object on every call'}")
            elif not e1 and c1 is not None:
                s1 = outcome(c1, None)
                scramble(c1, op)
                scramble(c2, op)
                c3, e3 = call(p.convert, members[t2])
                if attrs(p) != before or outcome(c3, e3) != s1:
                    ctx.fail("alias-mutation-visible", spec, f"{tag}: changing the object returned by convert({t2}) changes the block or the next convert",
                             expected=s1, actual=outcome(c3, e3))
    fb = getattr(type(p), "from_bytes", None)
    if fb is not None and hasattr(p, "as_bytes"):
        y, yerr = call(build_again_bytes, var, vals)
        if not yerr and isinstance(y, (bytes, bytearray)):
            q1, e1 = call(fb, bytes(y))
            q2, e2 = call(fb, bytes(y))
            s1 = outcome(q1, e1)
            if outcome(q2, e2) != s1:
                ctx.fail("alias-unstable", spec, f"{tag}: two from_bytes of the same octets differ")
            elif q1 is not None and q1 is q2 and hasattr(q1, "__dict__"):
                ctx.fail("alias-same-object", spec, f"{tag}: from_bytes returns the same mutable object for the same octets")
            elif q1 is not None and hasattr(q1, "__dict__") and op != "other-calls":
                scramble(q1, op)
                q3, e3 = call(fb, bytes(y))
                if outcome(q3, e3) != s1:
                    ctx.fail("alias-mutation-visible", spec, f"{tag}: after changing an object returned by from_bytes, the next from_bytes differs",
                             expected=s1, actual=outcome(q3, e3))


def build_again_bytes(var, vals):
    return var.build(vals).as_bytes()


class Holder:
    """results kept across the whole run and re-verified later: a bitarray returned by as_bits, an object returned by from_bits —
    with the value they had when they were returned"""

    def __init__(self, every, cap):
        self.every, self.cap = every, cap
        self.items = []
        self.n = 0
        self.reported = 0

    def keep(self, entry, inp, obj, snap=None):
        self.n += 1
        if self.n % self.every or len(self.items) >= self.cap:
            return
        if isinstance(obj, bitarray):
            snap = obj.to01()
        elif snap is None:
            snap = attrs(obj)
        self.items.append((entry, inp, obj, snap, self.n))

    def verify(self, ctx):
        keep = []
        for entry, inp, obj, snap, n in self.items:
            now = obj.to01() if isinstance(obj, bitarray) else attrs(obj)
            if now != snap:
                self.reported += 1
                if self.reported <= 10:
                    ctx.fail("alias-held-result-changed", {"kind": "alias", "probe": "held", "entry": entry, "first": inp, "calls_since": self.n - n},
                             f"the result of {entry} changed after it was returned, while {self.n - n} later cases ran (shared buffer / cached object)",
                             expected=snap if isinstance(snap, str) else {x: snap.get(x) for x in diff_attrs(snap, now)},
                             actual=now if isinstance(now, str) else {x: now.get(x) for x in diff_attrs(snap, now)})
            else:
                keep.append((entry, inp, obj, snap, n))
        ctx.count("alias:held-verified", len(self.items))
        self.items = keep


def alias_elements(ctx, ks):
    """every element instance x every in-place operation; the first results of every instance are held until the end of the run"""
    held = []
    classes = alias_element_classes()
    for cname, cls in classes.items():
        for key, m in element_instances(cls):
            if "as_bits" not in vars(cls):
                continue
            r, err = call(m.as_bits)
            held.append((cname, key, r, outcome(r, err)))
    refs = {(c, key): (r.to01() if isinstance(r, bitarray) else None) for c, key, r, _s in held}
    for cname, cls in classes.items():
        for key, m in element_instances(cls):
            for op in MUT_OPS:
                spec = {"kind": "alias", "probe": "element", "element": cname, "member": key, "op": op}
                ctx.case(("alias", "element", cname, key, op), nontrivial=True,
                         sample=spec if (cname, key, op) == ("FeatureSetIDs", "StandardizedFID", "+=") else None)
                ctx.count("alias:element")
                probe_element(ctx, spec, ks, ref=refs.get((cname, key)))
    return held


def alias_elements_final(ctx, held):
    for cname, key, r, snap in held:
        now = outcome(r, None) if isinstance(r, bitarray) else snap
        if now != snap:
            ctx.fail("alias-held-result-changed", {"kind": "alias", "probe": "element-held", "element": cname, "member": key},
                     f"the bitarray returned by the first {cname}.{key}.as_bits() of the run changed while the run went on", expected=snap, actual=now)
        cls = alias_element_classes()[cname]
        r2, err = call(element_instance(cls, key).as_bits)
        if outcome(r2, err) != snap:
            ctx.fail("alias-mutation-visible", {"kind": "alias", "probe": "element-held", "element": cname, "member": key},
                     f"{cname}.{key}.as_bits() at the end of the run differs from the first call of the run", expected=snap, actual=outcome(r2, err))
    ctx.count("alias:element-held", len(held))


def alias_pdus(ctx, k, ks):
    """every variant of the kind x every in-place operation (+ 'other-calls') on a few field tuples"""
    n = ctx.budget(1, 6)
    for var in k.variants:
        for i in range(n):
            for op in MUT_OPS + ["other-calls"]:
                vals = var.random_vals(ctx.rng)
                if var.fix:
                    vals = var.fix(vals)
                spec = {"kind": "alias", "probe": "pdu", "pdu": k.name, "variant": var.name, "fields": vals, "op": op}
                ctx.case(("alias", "pdu", k.name, var.name, json.dumps(vals, sort_keys=True), op), nontrivial=True,
                         sample=spec if (i == 0 and op == "+=" and var is k.variants[0] and k.name == "csbk") else None)
                ctx.count(f"alias:pdu:{k.name}")
                probe_pdu(ctx, spec, ks)


# ------------------------------------------------------------------------------------------------
# constructor arguments the opcode / format does NOT carry (round 3, seeded change C03-E): every PDU class takes the arguments of all
# its opcodes / formats; an object is "built from in-range field values" whatever is passed in the arguments of the OTHER opcodes,
# and none of them may reach the wire.  The values come from the field specs of the other variants of the same class (so the
# whole constructor signature is covered — checked against inspect.signature and recorded in the evidence).
def spec_value(spec, rng, how):
    """a value of the spec: 'zero' (0 / False / smallest member / empty), 'max' (all ones / largest member), 'nz' (random, not
    zero-like), 'random'"""
    if isinstance(spec, CHOICE):
        return spec_value(spec.a if how != "random" or rng.random() < 0.5 else spec.b, rng, how)
    if how == "random":
        return spec.rand(rng)
    if isinstance(spec, E):
        vs = sorted(spec.vals, key=lambda x: (not isinstance(x, int), x if isinstance(x, int) else 0))
        if how == "zero":
            return vs[0]
        if how == "max":
            return vs[-1]
        nz = [x for x in vs if x != vs[0]] or vs
        return rng.choice(nz)
    if isinstance(spec, S):
        if how == "zero":
            return 0
        if how == "max":
            return (1 << (spec.w - 1)) - 1
        return rng.choice([-1, 1]) * rng.randrange(1, 1 << (spec.w - 1))
    if isinstance(spec, U):
        lo = 1 if isinstance(spec, UNZ) else 0
        if how == "zero":
            return lo
        if how == "max":
            return (1 << spec.w) - 1
        return rng.randrange(1, 1 << spec.w)
    if isinstance(spec, VBITS):
        if how == "zero":
            return ""
        if how == "max":
            return "1" * spec.n
        k = rng.randrange(1, spec.n + 1)
        return "1" + rand_bits(rng, k - 1)
    if isinstance(spec, BITS):
        n = spec.n
        if how == "zero" or n == 0:
            return "0" * n
        if how == "max":
            return "1" * n
        return int2ba(rng.randrange(1, 1 << n), length=n).to01()
    if isinstance(spec, BYTES):
        n = spec.n
        if how == "zero" or n == 0:
            return "00" * n
        if how == "max":
            return "ff" * n
        return rng.randrange(1, 1 << (8 * n)).to_bytes(n, "big").hex()
    return spec.rand(rng)


def fill(var, rng, how):
    return {n: spec_value(sp, rng, how) for n, sp in var.fields}


def ignored_kwargs(kind, variant, own_kw, ign):
    """keyword arguments of the class's constructor that the variant does not pass itself, with the values the OTHER variants of the
    class would pass for the field values given in ign["from"] = [[variant name, field values], …]; ign["only"] restricts the names"""
    only = ign.get("only")
    out = {}
    for wname, wvals in ign.get("from") or []:
        w = next((x for x in kind.variants if x.name == wname), None)
        if w is None or w.payload_kwargs is None:
            continue
        for n, a in w.payload_kwargs(wvals).items():
            if n not in own_kw and n not in out and (only is None or n in only):
                out[n] = a
    return out


_SIG = {}


def ctor_params(cls):
    import inspect

    if cls not in _SIG:
        _SIG[cls] = [n for n in inspect.signature(cls.__init__).parameters if n != "self"]
    return _SIG[cls]


def ignorable_params(kind, variant, rng):
    """names of the constructor arguments the variant does not pass but another variant of the class does"""
    own = set(variant.kwargs(fill(variant, rng, "random")))
    names = []
    for w in kind.variants:
        if w is variant or w.payload_kwargs is None:
            continue
        for n in w.payload_kwargs(fill(w, rng, "random")):
            if n not in own and n not in names:
                names.append(n)
    return names


def zero_crc9_quirk(kind, var, vals, opts):
    """the one combination of the unchanged code that is left out (documented in the assumptions): a confirmed NON-last rate block
    given a CRC-32 (an argument the variant does not carry, but calculate_crc9 reads the attribute) and crc9 = 0 ("compute it") whose
    computed CRC-9 happens to be 0 (1 in 512): the constructor's `crc9 <= 0` rule leaves 0 in the object, the decoder recomputes it without
    the CRC-32.  Every other value of the computed CRC-9 is kept in the sweep."""
    if not getattr(kind, "rate", None) or kind.rate[1] != "confirmed" or vals.get("crc9"):
        return False
    extra = ((opts or {}).get("ignored") or {}).get("extra") or {}
    if not extra.get("crc32") or not getattr(kind, "check", None):
        return False
    res, err = call(kind.check[0].right, var, merged_vals(var, vals, opts))
    return bool(not err and any(v == 0 for _l, v in res[1]))


def ignored_cases(ctx, kind, var, rng):
    """yield (desc, vals, opts): the variant's own fields x the arguments of the other variants (or the optional plain keys of the
    variant: rate blocks) at zero / max / random non-zero / random — all of them and one at a time — with the carried fields random,
    all zero-like, all max, and each carried field in turn at zero / max"""
    others = [w for w in kind.variants if w is not var and w.payload_kwargs is not None]
    reps = ctx.budget(1, 4)

    def ign(how, only=None):
        o = {}
        if others:
            o["from"] = [[w.name, fill(w, rng, how)] for w in others]
        if var.optional:
            o["extra"] = {n: spec_value(sp, rng, how) for n, sp in var.optional if only is None or n in only}
        if only is not None:
            o["only"] = list(only)
        return o

    names = (ignorable_params(kind, var, rng) if others else []) + [n for n, _sp in var.optional]
    if not names:
        return
    # A: all ignored arguments at once x the carried fields
    for cmode in ("random", "zero", "max", "nz"):
        for imode in ("max", "nz", "zero", "random"):
            for r in range(reps):
                yield ("all", cmode, imode, r), fill(var, rng, cmode), {"ignored": ign(imode)}
    # B: every carried field in turn at zero / max, the ignored arguments non-zero
    for fi, (fname, spec) in enumerate(var.fields):
        for j, how in enumerate(("zero", "max")):
            vals = fill(var, rng, "random")
            vals[fname] = spec_value(spec, rng, how)
            yield ("carried", fname, how), vals, {"ignored": ign(("max", "nz")[(fi + j) % 2])}
    # C: one ignored argument at a time (the others keep the constructor's default)
    for ni, n in enumerate(names):
        for imode in ("max", "nz"):
            for cmode in ("zero", "random"):
                yield ("one", n, imode, cmode), fill(var, rng, cmode), {"ignored": ign(imode, only=[n])}


# ---- the other argument type a constructor's signature accepts (Union[int, bool], Union[<enum>, int], Union[bytes, bitarray],
# Union[int, bitarray], Union[int, bytes]): the same value in the other type is the same field value
def _be_bits(b):
    x = bitarray(endian="big")
    x.frombytes(bytes(b))
    return x


def _flag(a):
    return int(a) if isinstance(a, bool) else bool(a)


def _enum_int(a):
    return a.value if is_enum(a) else a


def _fsn(a):
    from okdmr.dmrlib.etsi.layer2.elements.fragment_sequence_number import FragmentSequenceNumber

    return FragmentSequenceNumber(a) if isinstance(a, int) else a.value


ALT_ARGS = {
    # kind prefix -> constructor argument -> the same value in the other accepted type
    "csbk": {"last_block": _flag, "protect_flag": _flag, "csbk_content_follows_preambles": _flag, "target_address_is_individual": _flag,
             "new_leader": _flag, "leader_dynamic_identifier": _enum_int, "channel_timing_opcode": _enum_int,
             "source_dynamic_identifier": _enum_int, "service_function": _enum_int,
             "raw_data": lambda a: _be_bits(a) if isinstance(a, bytes) else a.tobytes()},
    "dh": {"is_group": _flag, "is_response_requested": _flag, "is_emergency": _flag, "fragment_sequence_number": _fsn},
    "flc": {"protect_flag": _flag, "talker_alias_data_msb": _flag},
    # an integer CRC-8 is stored least significant bit first (index order of the attribute = order on the wire)
    "slc": {"crc_8bit": lambda a: sum(int(a[i]) << i for i in range(len(a)))},
    "pi": {"crc": lambda a: a.to_bytes(2, "big")},
    # DBSN most significant bit first; the nine CRC-9 bits in the order of the wire (least significant first); CRC-32 big endian
    "rate": {"data": lambda a: _be_bits(a), "dbsn": lambda a: int2ba(a, length=7), "crc9": lambda a: int2ba(a, length=9)[::-1],
             "crc32": lambda a: a.to_bytes(4, "big")},
    "udp": {"source_ip_address_id": _enum_int, "destination_ip_address_id": _enum_int, "udp_source_port_id": _enum_int,
            "udp_destination_port_id": _enum_int},
}


def alt_table(kind):
    name = kind.name
    return ALT_ARGS.get("rate" if name.startswith("rate") else name, {})


def alt_argument(kind, name, a):
    fn = alt_table(kind).get(name)
    return fn(a) if fn else a


def alt_cases(ctx, kind, var, rng):
    """yield (desc, vals, opts): every argument with a second accepted type, one at a time and all together"""
    if var.kwargs is None:
        return
    names = [n for n in var.kwargs(fill(var, rng, "random")) if n in alt_table(kind)]
    if not names:
        return
    for r in range(ctx.budget(2, 8)):
        for how in ("random", "zero", "max"):
            yield ("all", how, r), fill(var, rng, how), {"alt": names}
        for n in names:
            yield ("one", n, r), fill(var, rng, "random"), {"alt": [n]}


def union_params_uncovered(kind):
    """constructor arguments annotated Union[...] of two concrete types that ALT_ARGS does not list (recorded in the evidence)"""
    import typing

    out = []
    cls = next((v.cls for v in kind.variants if v.cls is not None), None)
    if cls is None:
        return out
    try:
        hints = typing.get_type_hints(cls.__init__)
    except BaseException:  # noqa
        return out
    for n, h in hints.items():
        args = [a for a in getattr(h, "__args__", ()) if a is not type(None)]
        if typing.get_origin(h) is typing.Union and len(args) >= 2 and n not in alt_table(kind):
            out.append(n)
    return out


# ---- correlated fields: two fields of the same type carry the same value (source = target address, both slots the same activity …)
def equal_pair_cases(ctx, var, rng):
    """yield (desc, vals): every pair of fields of the same type and width carries the same value, or the second one a simple
    function of the first (octets reversed, complemented, plus 1)"""
    def sig(sp):
        if isinstance(sp, E):
            return ("E", sp.cls.__name__)
        if isinstance(sp, (U, S)) and not isinstance(sp, B):
            return (type(sp).__name__ if isinstance(sp, S) else "U", sp.w)
        if isinstance(sp, (BITS, BYTES)):
            return (type(sp).__name__, sp.n)
        return None

    def width(sp):
        return sp.w if isinstance(sp, (U, S)) else (sp.n if isinstance(sp, BITS) else 8 * sp.n)

    def to_int(sp, v):
        if isinstance(sp, BITS):
            return int(v, 2) if v else 0
        if isinstance(sp, BYTES):
            return int(v, 16) if v else 0
        return v

    def from_int(sp, x):
        w = width(sp)
        x &= (1 << w) - 1
        if isinstance(sp, BITS):
            return format(x, f"0{w}b")
        if isinstance(sp, BYTES):
            return x.to_bytes(sp.n, "big").hex()
        return x

    fs = [(n, sp) for n, sp in var.fields if sig(sp) and not (isinstance(sp, U) and sp.w < 4)]
    for i, (n1, s1) in enumerate(fs):
        for n2, s2 in fs[i + 1:]:
            if sig(s1) != sig(s2):
                continue
            for how in ("random", "max", "zero", "nz")[: ctx.budget(2, 4)]:
                vals = fill(var, rng, "random")
                v = spec_value(s1, rng, how)
                if isinstance(s1, E) and v not in s2.vals:
                    continue
                if isinstance(s2, UNZ) and v == 0:
                    continue
                vals[n1] = vals[n2] = v
                yield ("equal", n1, n2, how), vals
            if isinstance(s1, (E, S)) or width(s1) < 8:
                continue
            w = width(s1)
            for rel in ("octets-reversed", "complemented", "plus-1"):
                if rel == "octets-reversed" and (w % 8 or w < 16):
                    continue
                vals = fill(var, rng, "random")
                x = to_int(s1, vals[n1])
                y = {"octets-reversed": lambda: int.from_bytes(x.to_bytes(w // 8, "big")[::-1], "big"), "complemented": lambda: ~x,
                     "plus-1": lambda: x + 1}[rel]()
                y = from_int(s2, y)
                if isinstance(s2, UNZ) and y == 0:
                    continue
                vals[n2] = y
                yield (rel, n1, n2), vals


# ------------------------------------------------------------------------------------------------
# check fields that are a systematic TRANSFORM of the right value (round 3, seeded change C03-F): a decoder must carry the check
# field verbatim whatever it is; a 'tolerant' decoder that recognises the right CRC in another octet / bit order, complemented,
# rotated, with another data type's mask, without mask or inversion, or computed by another CRC-16 convention, and stores the
# corrected value, rewrites a field.  The right value comes from the library's CRC16 / CRC9 / CRC8 / RS(12,9) / 5-bit checksum AND
# from a plain bitwise computation here (that the two agree is property C05 — a disagreement is only counted).
def crc_bitwise(bits, width, poly, init=0, refin=False, refout=False, xorout=0):
    bits = [int(x) for x in bits]
    if refin:
        bits = [b for i in range(0, len(bits), 8) for b in reversed(bits[i:i + 8])]
    top = 1 << (width - 1)
    mask = (1 << width) - 1
    r = init
    for b in bits:
        fb = ((r & top) != 0) != bool(b)
        r = (r << 1) & mask
        if fb:
            r ^= poly
    if refout:
        r = int(format(r, f"0{width}b")[::-1], 2)
    return r ^ xorout


def all_crc_masks():
    try:
        from okdmr.dmrlib.etsi.layer2.elements.crc_masks import CrcMasks

        return [(m.name, m.value) for m in CrcMasks if isinstance(m.value, int)]
    except BaseException:  # noqa
        return []


def rotl(c, w, r):
    r %= w
    return ((c << r) | (c >> (w - r))) & ((1 << w) - 1) if r else c


_TRANSFORMS = {}


def transform_table(w, own_mask):
    """[(label, family, fn)] — systematic ways to get a wrong check value from the right one (w bits); family 'core' or the name
    of a long family (masks, rotations, bit flips) that quick runs spread over the selector rows"""
    key = (w, own_mask)
    if key in _TRANSFORMS:
        return _TRANSFORMS[key]
    ones = (1 << w) - 1
    out = []

    def add(label, fn, family="core"):
        out.append((label, family, (lambda c, fn=fn: fn(c) & ones)))

    def octs(c):
        return list(c.to_bytes(w // 8, "big"))

    def from_octs(o):
        return int.from_bytes(bytes(o), "big")

    def brev(c):
        return int(format(c, f"0{w}b")[::-1], 2)

    add("right", lambda c: c)
    if w % 8 == 0 and w >= 16:
        n = w // 8
        add("octets-reversed", lambda c: from_octs(octs(c)[::-1]))
        for r in range(1, n):
            add(f"octets-rotated-{r}", lambda c, r=r: from_octs(octs(c)[r:] + octs(c)[:r]))
        add("bits-reversed-in-each-octet", lambda c: from_octs(int(format(o, "08b")[::-1], 2) for o in octs(c)))
        add("nibbles-swapped-in-each-octet", lambda c: from_octs(((o << 4) | (o >> 4)) & 0xFF for o in octs(c)))
        if n == 4:
            add("octets-swapped-in-each-halfword", lambda c: from_octs([octs(c)[i] for i in (1, 0, 3, 2)]))
    if w % 4 == 0 and w >= 8:
        add("nibbles-reversed", lambda c: int(format(c, f"0{w // 4}x")[::-1], 16))
    add("bits-reversed", brev)
    add("complemented", lambda c: c ^ ones)
    add("bits-reversed-complemented", lambda c: brev(c) ^ ones)
    add("without-mask", lambda c: c ^ own_mask)
    add("without-mask-and-inversion", lambda c: c ^ own_mask ^ ones)
    seen_m = {0, own_mask}
    for name, m in all_crc_masks():
        for tag, mm in (("low", m & ones), ("high", m >> max(0, m.bit_length() - w))):
            if mm not in seen_m:
                seen_m.add(mm)
                fam = "core" if mm.bit_length() > w - 4 else "mask"  # a mask of the field's own width: every selector row; shorter ones rotate
                add(f"xor-mask-{name}-{tag}", lambda c, mm=mm: c ^ mm, fam)
                add(f"mask-{name}-{tag}-instead", lambda c, mm=mm: c ^ own_mask ^ mm, fam)
    core_rots = {1, 4 % w, 8 % w, w - 1, w - 4, w // 2} - {0}
    for r in range(1, w):
        add(f"rotated-left-{r}", lambda c, r=r: rotl(c, w, r), "core" if r in core_rots else "rotation")
    add("plus-1", lambda c: c + 1)
    add("minus-1", lambda c: c - 1)
    add("negated", lambda c: -c)
    add("shifted-left", lambda c: c << 1)
    add("shifted-right", lambda c: c >> 1)
    for i in range(w):
        add(f"bit-{i}-flipped", lambda c, i=i: c ^ (1 << i), "bit")
    add("zero", lambda c: 0)
    add("all-ones", lambda c: ones)
    add("own-mask", lambda c: own_mask)
    add("own-mask-complemented", lambda c: own_mask ^ ones)
    _TRANSFORMS[key] = out
    return out


def check_transforms(c, w, own_mask=0, full=True):
    """[(label, value)] — the transforms of the right value c; no duplicate values, c itself first"""
    out, seen = [], set()
    for label, family, fn in transform_table(w, own_mask):
        v = fn(c)
        if v not in seen:
            seen.add(v)
            out.append((label, v))
    return out


CRC16_CONVENTIONS = [
    # name, init, refin, refout, xorout — the catalogued CRC-16 parametrisations of the CCITT polynomial 0x1021
    ("xmodem", 0x0000, False, False, 0x0000), ("ccitt-false", 0xFFFF, False, False, 0x0000), ("genibus", 0xFFFF, False, False, 0xFFFF),
    ("aug-ccitt", 0x1D0F, False, False, 0x0000), ("kermit", 0x0000, True, True, 0x0000), ("x25", 0xFFFF, True, True, 0xFFFF),
    ("mcrf4xx", 0xFFFF, True, True, 0x0000), ("tms37157", 0x89EC, True, True, 0x0000),
]


def other_crc16(body, own_mask):
    """[(label, value)]: the body's CRC by the other CRC-16/CCITT conventions (with and without the data type mask), and the
    library's convention over the body with the octets of every 16-bit word exchanged"""
    out = []
    bits = [int(x) for x in body]
    for name, init, refin, refout, xorout in CRC16_CONVENTIONS:
        v = crc_bitwise(bits, 16, 0x1021, init, refin, refout, xorout)
        out.append((f"crc16-{name}", v))
        out.append((f"crc16-{name}-masked", v ^ own_mask))
    if len(bits) % 16 == 0:
        sw = [b for i in range(0, len(bits), 16) for b in bits[i + 8:i + 16] + bits[i:i + 8]]
        v = crc_bitwise(sw, 16, 0x1021) ^ 0xFFFF ^ own_mask
        out.append(("crc16-over-word-swapped-body", v))
    # the library's convention over a PART of the body / a body with the leading flags or an octet cleared / extended
    lib = lambda x: crc_bitwise(x, 16, 0x1021) ^ 0xFFFF ^ own_mask
    if len(bits) >= 32:
        out.append(("crc16-over-body-without-first-octet", lib(bits[8:])))
        out.append(("crc16-over-body-without-first-two-octets", lib(bits[16:])))
        out.append(("crc16-over-body-without-last-octet", lib(bits[:-8])))
        out.append(("crc16-over-body-with-first-two-bits-cleared", lib([0, 0] + bits[2:])))
        out.append(("crc16-over-body-with-second-octet-cleared", lib(bits[:8] + [0] * 8 + bits[16:])))
        out.append(("crc16-over-body-and-sixteen-zero-bits", lib(bits + [0] * 16)))
        out.append(("crc16-over-reversed-body", lib(bits[::-1])))
    return out


class CheckField:
    """the check field of a PDU kind: where it is, how its right value is obtained, how a value is written in the plain domain"""

    def __init__(self, field, width, own_mask, right, to_plain, span=None, regen_on_zero=True, applies=None, verbatim=True):
        self.field, self.width, self.own_mask = field, width, own_mask
        self.right = right  # (variant, vals) -> (body bits | None, [(label, right value)])
        self.to_plain = to_plain
        self.span = span  # bits -> (start, stop) of the check field in a serialised PDU, or None
        self.regen_on_zero = regen_on_zero  # an all-zero check field is the constructor's "compute it" sentinel
        self.applies = applies or (lambda var, vals: True)
        self.verbatim = verbatim  # the attribute is the received field (False: PI header, always recomputed)


def mk_check_fields(ks):
    """kind name -> [CheckField]"""
    from okdmr.dmrlib.etsi.crc.crc16 import CRC16
    from okdmr.dmrlib.etsi.crc.crc8 import CRC8
    from okdmr.dmrlib.etsi.crc.crc9 import CRC9
    from okdmr.dmrlib.etsi.layer2.elements.crc_masks import CrcMasks

    out = {}

    def right16(mask_member, zero_crc, nbody):
        def right(var, vals):
            p0 = var.build(dict(vals, crc=zero_crc))
            body = p0.as_bits()[:nbody]
            lib = CRC16.calculate(body.tobytes(), mask_member)
            ind = crc_bitwise(body, 16, 0x1021) ^ 0xFFFF ^ mask_member.value
            return body, [("library", lib), ("independent", ind)]

        return right

    out["csbk"] = [CheckField("crc", 16, CrcMasks.CSBK.value, right16(CrcMasks.CSBK, 0, 80), lambda c: c, span=lambda b: (80, 96))]
    out["dh"] = [CheckField("crc", 16, CrcMasks.DataHeader.value, right16(CrcMasks.DataHeader, "0" * 16, 80),
                            lambda c: format(c, "016b"), span=lambda b: (80, 96))]
    out["pi"] = [CheckField("crc", 16, CrcMasks.PiHeader.value, right16(CrcMasks.PiHeader, 0, 80), lambda c: c, span=None, verbatim=False)]

    def slc_right(var, vals):
        p0 = var.build(dict(vals, crc="0" * 8))
        body = p0.as_bits()[:28]
        return body, [("library", CRC8.calculate(bitarray(body))), ("independent", crc_bitwise(body, 8, 0x07))]

    # kept and sent least significant bit first
    out["slc"] = [CheckField("crc", 8, 0, slc_right, lambda c: format(c, "08b")[::-1], span=lambda b: (28, 36))]

    def flc_right24(var, vals):
        from okdmr.dmrlib.etsi.fec.reed_solomon_12_9_4 import ReedSolomon1294

        p0 = var.build(dict(vals, crc="0" * 24))
        body = p0.as_bits()[:72]
        data = body.tobytes()
        rights = []
        for name, m in (("voice-lc-header", CrcMasks.VoiceLCHeader.value), ("terminator-with-lc", CrcMasks.TerminatorWithLC.value), ("unmasked", 0)):
            par = ReedSolomon1294.generate(data, m.to_bytes(3, "big"))[9:12]
            rights.append((f"library-rs129-{name}", int.from_bytes(par, "big")))
        return body, rights

    def flc_right5(var, vals):
        from okdmr.dmrlib.etsi.fec.five_bit_checksum import FiveBitChecksum

        p0 = var.build(dict(vals, crc="0" * 5))
        body = p0.as_bits()[:72]
        data = body.tobytes()
        return body, [("library", FiveBitChecksum.calculate(data)), ("independent", sum(data) % 31)]

    out["flc"] = [
        CheckField("crc", 24, CrcMasks.VoiceLCHeader.value, flc_right24, lambda c: format(c, "024b"),
                   span=lambda b: (72, 96) if len(b) == 96 else None, regen_on_zero=False),
        CheckField("crc", 5, 0, flc_right5, lambda c: format(c, "05b"), span=lambda b: (72, 77) if len(b) == 77 else None, regen_on_zero=False),
    ]
    for k in ks.values():
        if getattr(k, "rate", None) and k.rate[1] in ("confirmed", "confirmedLast"):
            cname = k.rate[0]
            mask = {"12": CrcMasks.Rate12DataContinuation, "34": CrcMasks.Rate34DataContinuation, "1": CrcMasks.Rate1DataContinuation}[cname]

            def right9(var, vals, mask=mask):
                data = bytes.fromhex(vals["data"])
                dbsn, c32 = vals.get("dbsn", 0), vals.get("crc32", 0)
                lib = CRC9.calculate_from_parts(data=data, serial_number=dbsn, mask=mask, crc32=c32)
                src = _be_bits(data).to01() + (format(c32, "032b") if c32 else "") + format(dbsn, "07b")
                ind = crc_bitwise(src, 9, 0x59) ^ 0x1FF ^ mask.value
                return None, [("library", lib), ("independent", ind)]

            out[k.name] = [CheckField("crc9", 9, mask.value, right9, lambda c: c, span=lambda b: (7, 16))]
    return out


LONG_FAMILY_SHARE = 4  # quick: every selector row gets a rotating 1/4 of the long transform families (all of them over the rows)


def check_field_cases(ctx, kind, var, cf, rng):
    """yield (desc, vals, label): the check field = every transform of the right value (and the body's CRC by the other CRC-16
    conventions), crossed with every value of every selector field of the variant (every FID, flag, enum member …: covering_rows
    with the selector cap lifted to 32 values; the other fields random per row).  quick: the long families (other masks, all
    rotations, single bit flips, other CRC conventions) are spread over the rows, every row gets the core transforms."""
    global SEL_CAP
    full = ctx.thorough()
    if dict(var.fields).get(cf.field) is None:
        return
    base = fill(var, rng, "random")
    if not cf.applies(var, base):
        return
    cap, SEL_CAP = SEL_CAP, 32
    try:
        rows = covering_rows(var, cf.field, rng.randrange(1 << 16), rng, full=False)
    finally:
        SEL_CAP = cap
    table = transform_table(cf.width, cf.own_mask)
    for r, row in enumerate(rows):
        vals = dict(row)
        vals[cf.field] = base[cf.field]
        vals = {n: vals[n] for n, _s in var.fields}
        res, err = call(cf.right, var, vals)
        if err or not res[1]:
            ctx.count(f"check:right-value-unavailable:{kind.name}")
            continue
        body, rights = res
        if len({v for _l, v in rights if _l in ("library", "independent")}) > 1:
            ctx.count(f"check:library-and-independent-value-differ:{kind.name}")
        seen = set()
        cands = []
        for ri, (rl, rv) in enumerate(rights):
            if not full and len(rights) > 2 and ri != r % len(rights):
                continue  # quick: several right values (full LC: one per data type mask) take turns over the rows
            for ti, (tl, family, fn) in enumerate(table):
                if not full and family != "core" and (ti + r) % LONG_FAMILY_SHARE:
                    continue
                cands.append((rl, tl, fn(rv)))
        if cf.width == 16 and body is not None:
            for ti, (tl, v) in enumerate(other_crc16(body, cf.own_mask)):
                if full or (ti + r) % LONG_FAMILY_SHARE == 0:
                    cands.append(("body", tl, v))
        for rl, tl, v in cands:
            if v in seen:
                continue
            seen.add(v)
            out = dict(vals)
            out[cf.field] = cf.to_plain(v)
            yield (cf.field, rl, tl, r), out, tl


def check_field_decode_cases(ctx, kind, cf, rng, bases):
    """yield (desc, bitarray): decode side — bodies that are NOT what the encoder writes (every opcode value / every octet value of the
    selector octets over valid encodings, random bodies) with the check field = a transform of the body's right CRC-16"""
    if cf.width != 16 or cf.span is None:
        return
    counter = 0
    for vname, base in bases:
        sp = cf.span(base)
        if sp is None:
            continue
        lo, hi = sp
        for pos, width, count in ((0, 8, 256), (8, 8, 256)):
            for x in range(count):
                counter += 1
                b = base.copy()
                b[pos:pos + width] = int2ba(x, length=width)
                right = crc_bitwise(b[:lo], 16, 0x1021) ^ 0xFFFF ^ cf.own_mask
                ts = check_transforms(right, 16, cf.own_mask)
                for j in range(ctx.budget(1, 8)):
                    tl, tv = ts[(counter * 7 + j * 11) % len(ts)]
                    b2 = b.copy()
                    b2[lo:hi] = int2ba(tv, length=16)
                    yield ("decode", vname, pos, x, tl), b2, tl


# ---- a checksum of one part of the PDU standing inside another part (round 3, correlations between unrelated parts)
def embedded_crc_cases(ctx, kind, var, rng):
    """yield (desc, vals): every opaque payload field of at least 24 bits carries, in its last / first 16 bits, the CRC-CCITT (no mask,
    CSBK mask, the kind's own mask) of the rest of the field, of the whole serialisation so far, or the PDU's own right check value"""
    own = [cf.own_mask for cf in (getattr(kind, "check", None) or []) if cf.width == 16]
    masks = list(dict.fromkeys([0, 0xA5A5] + own))
    for fname, spec in var.fields:
        info = opaque_info(spec)
        if info is None or info[0] != "payload" or info[1] is None or info[1] < 24 or isinstance(spec, CHOICE):
            continue
        n = info[1]
        for row in range(ctx.budget(2, 6)):
            vals = fill(var, rng, "random")
            f01 = bits_of(bytes.fromhex(vals[fname])) if isinstance(spec, BYTES) else vals[fname]
            p, err = call(var.build, vals)
            ser, err2 = call(p.as_bits) if not err else (None, "x")
            cands = []
            for m in masks:
                cands.append((f"field-head-crc-mask-{m:04x}", "tail", crc_bitwise(f01[:-16], 16, 0x1021) ^ 0xFFFF ^ m))
                cands.append((f"field-tail-crc-mask-{m:04x}", "head", crc_bitwise(f01[16:], 16, 0x1021) ^ 0xFFFF ^ m))
                if not err2 and ser is not None and len(ser) >= 32:
                    cands.append((f"pdu-crc-mask-{m:04x}", "tail", crc_bitwise(ser[:len(ser) - 16], 16, 0x1021) ^ 0xFFFF ^ m))
                    cands.append((f"pdu-head-crc-mask-{m:04x}", "tail", crc_bitwise(ser[:16], 16, 0x1021) ^ 0xFFFF ^ m))
            if not err2 and ser is not None and len(ser) >= 16:
                cands.append(("pdu-last-16-bits", "tail", ba2int(ser[-16:])))
                cands.append(("pdu-last-16-bits", "head", ba2int(ser[-16:])))
            for label, where, v in cands:
                c01 = format(v & 0xFFFF, "016b")
                g01 = (f01[:-16] + c01) if where == "tail" else (c01 + f01[16:])
                out = dict(vals)
                out[fname] = bitarray(g01).tobytes().hex() if isinstance(spec, BYTES) else g01
                yield (fname, label, where, row), out


# ---- round 4: arithmetic relations among >= 3 fields / words of one PDU (seeded changes C03-G, C03-H)
# A codec that special-cases "this field looks like a function of those two" (a folded parity, a checksum of two addresses, a word
# that is the xor of its neighbours) is only ever wrong on field tuples that satisfy the relation — probability 2^-w per relation
# under any sampling that draws the fields independently.  The tuples are therefore CONSTRUCTED: the variant's numeric view is a
# list of UNITS (every integer / bit-string / octet-string field of at least 4 bits, every run of adjacent sub-octet fields read
# as one number — e.g. the service-options octet —, and the consecutive 32- / 16- / 8-bit words of the opaque payload fields); for
# ordered unit triples (a, b -> c) the target is set to xor / sum / both differences / and / or / high part of sum and difference
# of the sources (low part = the result truncated to the target's width), for pairs (a -> c) to a == c across types, rotations,
# shifts, low / high part, negation, complement, bit / octet reversal, +-1; a == b != c and a == b == c; and PAIRS of relations at
# once: two targets computed from the same two sources, and two relations on disjoint unit sets, each result optionally rotated /
# octet-swapped / complemented (depth 2).  Quick runs take a rotating share (seed), thorough runs — and runs in which the source
# file of the PDU class differs from the committed baseline — enumerate the families completely (capped).
class Unit:
    def __init__(self, name, w, get, put, fields, rng_=None, src_only=False, word=None):
        self.name, self.w, self.get, self.put = name, w, get, put
        self.fields = frozenset(fields)
        self.range = rng_  # (lo, hi) bit range inside the field for a word unit, None = the whole field(s)
        self.src_only = src_only
        self.word = word  # word width for a word unit
        self.long = False  # an opaque payload field of more than 64 bits as ONE number (derived quantities only)

    def overlaps(self, other):
        if not (self.fields & other.fields):
            return False
        if self.range is None or other.range is None:
            return True
        return self.range[0] < other.range[1] and other.range[0] < self.range[1]


def _small_width(sp):
    if isinstance(sp, UNZ):
        return None
    if isinstance(sp, U):
        return sp.w if sp.w < 8 else None
    if isinstance(sp, BITS):
        return sp.n if 0 < sp.n < 8 else None
    return None


def relation_units(var):
    """the numeric view of a variant: [Unit]"""
    units = []

    def u_field(n, sp):
        if isinstance(sp, CHOICE):
            for alt in (sp.a, sp.b):
                if isinstance(alt, BITS) and alt.n >= 4:
                    units.append(Unit(f"{n}/{alt.n}", alt.n, (lambda v, n=n, w=alt.n: int(v[n], 2) if len(v[n]) == w else None),
                                      (lambda v, x, n=n, w=alt.n: v.__setitem__(n, format(x, f"0{w}b")) or True), [n]))
            return
        if isinstance(sp, S):
            w = sp.w
            units.append(Unit(n, w, (lambda v, n=n, w=w: v[n] & ((1 << w) - 1)),
                              (lambda v, x, n=n, w=w: v.__setitem__(n, x - (1 << w) if x >> (w - 1) else x) or True), [n]))
        elif isinstance(sp, U) and sp.w >= 4:
            nz = isinstance(sp, UNZ)
            units.append(Unit(n, sp.w, (lambda v, n=n: v[n]), (lambda v, x, n=n, nz=nz: False if (nz and x == 0) else (v.__setitem__(n, x) or True)), [n]))
        elif isinstance(sp, E):
            ints = [x for x in sp.vals if isinstance(x, int) and not isinstance(x, bool)]
            if len(ints) == len(sp.vals) and max(ints) >= 8:
                w = max(ints).bit_length()
                units.append(Unit(n, w, (lambda v, n=n: v[n]), (lambda v, x, n=n, ok=frozenset(ints): (v.__setitem__(n, x) or True) if x in ok else False), [n],
                                  src_only=True))
        elif isinstance(sp, BITS) and sp.n >= 4:
            w = sp.n
            units.append(Unit(n, w, (lambda v, n=n: int(v[n], 2)), (lambda v, x, n=n, w=w: v.__setitem__(n, format(x, f"0{w}b")) or True), [n]))
            units[-1].long = w > 64
            words(n, w, lambda v, n=n: v[n], lambda v, s01, n=n: v.__setitem__(n, s01))
        elif isinstance(sp, BYTES) and sp.n >= 1:
            w = 8 * sp.n
            units.append(Unit(n, w, (lambda v, n=n: int(v[n], 16)), (lambda v, x, n=n, k=sp.n: v.__setitem__(n, x.to_bytes(k, "big").hex()) or True), [n]))
            units[-1].long = w > 64
            words(n, w, lambda v, n=n, w=w: format(int(v[n], 16), f"0{w}b"), lambda v, s01, n=n: v.__setitem__(n, bitarray(s01).tobytes().hex()))
        elif isinstance(sp, VBITS):
            # relation cases give the field a fixed length (REL_VBITS_LEN bits): the field and words of it
            units.append(Unit(n, REL_VBITS_LEN, (lambda v, n=n: int(v[n], 2) if len(v[n]) == REL_VBITS_LEN else None),
                              (lambda v, x, n=n: v.__setitem__(n, format(x, f"0{REL_VBITS_LEN}b")) or True), [n]))
            words(n, REL_VBITS_LEN, lambda v, n=n: v[n], lambda v, s01, n=n: v.__setitem__(n, s01))

    def words(n, w, get01, put01):
        for ww in (32, 16, 8):
            if w < 2 * ww:
                continue
            offs = list(range(0, w - ww + 1, ww))
            if (w - ww) not in offs:
                offs.append(w - ww)  # right-aligned last word of a field that is not a whole number of words
            for o in offs:
                def g(v, o=o, ww=ww):
                    s01 = get01(v)
                    return int(s01[o:o + ww], 2) if len(s01) >= o + ww else None

                def pt(v, x, o=o, ww=ww):
                    s01 = get01(v)
                    if len(s01) < o + ww:
                        return False
                    put01(v, s01[:o] + format(x, f"0{ww}b") + s01[o + ww:])
                    return True

                units.append(Unit(f"{n}[{o}:{o + ww}]", ww, g, pt, [n], rng_=(o, o + ww), word=ww))

    # runs of adjacent sub-octet fields read as one number (service options octet, flag groups)
    run = []

    def flush():
        tot = sum(w for _n, _sp, w in run)
        if len(run) >= 2 and 8 <= tot <= 32:
            parts = list(run)

            def g(v, parts=parts):
                x = 0
                for n, sp, w in parts:
                    x = (x << w) | (int(v[n], 2) if isinstance(sp, BITS) else int(v[n]))
                return x

            def pt(v, x, parts=parts):
                for n, sp, w in reversed(parts):
                    y = x & ((1 << w) - 1)
                    x >>= w
                    v[n] = format(y, f"0{w}b") if isinstance(sp, BITS) else y
                return True

            units.append(Unit(parts[0][0] + ".." + parts[-1][0], tot, g, pt, [n for n, _s, _w in parts]))
        run.clear()

    for n, sp in var.fields:
        sw = _small_width(sp)
        if sw is not None:
            run.append((n, sp, sw))
        else:
            flush()
        u_field(n, sp)
    flush()
    return units


REL_VBITS_LEN = 64
REL_BIN = ("xor", "add", "sub", "bus", "and", "or", "add-high", "sub-high")
REL_BIN_CORE = ("xor", "add", "sub", "bus", "and", "or")
REL_UN = ("eq", "rotl8", "rotr8", "rotl1", "rotr1", "rotl4", "shl8", "shr8", "shl1", "shr1", "high", "neg", "not", "bitrev", "bswap", "plus1", "minus1")
REL_POST = ("id", "rotl8", "rotr8", "bswap", "not")
REL_EQ = ("a==b!=c", "a==b==c", "a==c!=b", "a,a+1,a+2", "a,a+d,a+2d", "a,a-1,a-2")
REL_DERIVED = ("popcount", "nonzero-octets", "trailing-zero-octets", "leading-zero-octets", "first-octet", "last-octet", "sum-of-octets", "xor-of-octets",
               "sum-of-16-bit-words", "length-in-octets", "length-in-bits")
REL_REPEAT = ("all-words-equal", "period-2", "halves-equal", "palindrome", "two-words-equal", "counting", "all-equal-but-one")


def rel_derived(op, x, w):
    """a derived quantity of the w-bit value x"""
    nb = (w + 7) // 8
    octs = x.to_bytes(nb, "big")
    if op == "popcount":
        return bin(x).count("1")
    if op == "nonzero-octets":
        return sum(1 for o in octs if o)
    if op == "trailing-zero-octets":
        return len(octs) - len(octs.rstrip(b"\x00"))
    if op == "leading-zero-octets":
        return len(octs) - len(octs.lstrip(b"\x00"))
    if op == "first-octet":
        return octs[0]
    if op == "last-octet":
        return octs[-1]
    if op == "sum-of-octets":
        return sum(octs)
    if op == "xor-of-octets":
        r = 0
        for o in octs:
            r ^= o
        return r
    if op == "sum-of-16-bit-words":
        return sum(int.from_bytes(octs[i:i + 2], "big") for i in range(0, len(octs), 2)) & 0xFFFF
    if op == "length-in-octets":
        return nb
    if op == "length-in-bits":
        return w
    raise KeyError(op)


def _rot(x, w, r):
    r %= w
    x &= (1 << w) - 1
    return ((x << r) | (x >> (w - r))) & ((1 << w) - 1) if r else x


def rel_un(op, a, wa, wc):
    """value of the target (width wc) for the source value a (width wa); None = the relation does not exist for these widths"""
    M = (1 << wc) - 1
    if op in ("eq", "id"):
        return a & M
    if op == "high":
        return (a >> (wa - wc)) if wc < wa else None
    if op.startswith("rot"):
        r = int(op[4:])
        if r >= wc:
            return None
        return _rot(a & M, wc, r if op[3] == "l" else wc - r)
    if op.startswith("shl"):
        k = int(op[3:])
        return ((a << k) & M) if k < wc else None
    if op.startswith("shr"):
        k = int(op[3:])
        return ((a >> k) & M) if k < wa else None
    if op == "neg":
        return (-a) & M
    if op == "not":
        return (~a) & M
    if op == "plus1":
        return (a + 1) & M
    if op == "minus1":
        return (a - 1) & M
    if op == "bitrev":
        return int(format(a & M, f"0{wc}b")[::-1], 2)
    if op == "bswap":
        if wc % 8 or wc < 16:
            return None
        return int.from_bytes((a & M).to_bytes(wc // 8, "big")[::-1], "big")
    raise KeyError(op)


def rel_bin(op, a, b, wa, wb, wc):
    M = (1 << wc) - 1
    W = max(wa, wb)
    if op == "xor":
        return (a ^ b) & M
    if op == "add":
        return (a + b) & M
    if op == "sub":
        return (a - b) & M
    if op == "bus":
        return (b - a) & M
    if op == "and":
        return a & b & M
    if op == "or":
        return (a | b) & M
    if op == "add-high":
        return (((a + b) & ((1 << W) - 1)) >> (W - wc)) if wc < W else None
    if op == "sub-high":
        return (((a - b) & ((1 << W) - 1)) >> (W - wc)) if wc < W else None
    raise KeyError(op)


def rel_base(var, rng, mode=0):
    """field values the relations are imposed on: random (variable-length bit fields at a fixed length)"""
    vals = fill(var, rng, "random")
    for n, sp in var.fields:
        if isinstance(sp, VBITS):
            vals[n] = rand_bits(rng, REL_VBITS_LEN)
        elif isinstance(sp, CHOICE) and mode % 4 != 3:
            vals[n] = sp.a.rand(rng)
    return vals


def rel_impose(vals, rel, rng):
    """impose one relation on vals in place; rel = ("bin", op, post, a, b, c) | ("un", op, a, c) | ("eq", how, a, b, c); False if it
    cannot hold for these values (target refuses the value / widths)"""
    kind = rel[0]
    if kind == "un":
        _k, op, a, c = rel
        x = a.get(vals)
        if x is None:
            return False
        y = rel_un(op, x, a.w, c.w)
        return y is not None and bool(c.put(vals, y))
    if kind == "bin":
        _k, op, post, a, b, c = rel
        x, y = a.get(vals), b.get(vals)
        if x is None or y is None:
            return False
        z = rel_bin(op, x, y, a.w, b.w, c.w)
        if z is None:
            return False
        if post != "id":
            z = rel_un(post, z, c.w, c.w)
            if z is None:
                return False
        return bool(c.put(vals, z))
    _k, how, a, b, c = rel
    x = a.get(vals)
    if x is None:
        return False
    if how == "a==b!=c":
        if not b.put(vals, x & ((1 << b.w) - 1)):
            return False
        z = c.get(vals)
        if z is not None and z == (x & ((1 << c.w) - 1)):
            return bool(c.put(vals, (z ^ 1) & ((1 << c.w) - 1)))
        return True
    if how == "a==b==c":
        return bool(b.put(vals, x & ((1 << b.w) - 1))) and bool(c.put(vals, x & ((1 << c.w) - 1)))
    if how == "a==c!=b":
        if not c.put(vals, x & ((1 << c.w) - 1)):
            return False
        z = b.get(vals)
        if z is not None and z == (x & ((1 << b.w) - 1)):
            return bool(b.put(vals, (z ^ 1) & ((1 << b.w) - 1)))
        return True
    if how in ("a,a+1,a+2", "a,a+d,a+2d", "a,a-1,a-2"):
        d = 1 if how == "a,a+1,a+2" else -1 if how == "a,a-1,a-2" else rng.randrange(2, 1 << min(a.w, 16))
        return bool(b.put(vals, (x + d) & ((1 << b.w) - 1))) and bool(c.put(vals, (x + 2 * d) & ((1 << c.w) - 1)))
    raise KeyError(how)


def rel_name(rel):
    if rel[0] == "un":
        return f"{rel[3].name}={rel[1]}({rel[2].name})"
    if rel[0] == "bin":
        core = f"{rel[1]}({rel[3].name},{rel[4].name})"
        return f"{rel[5].name}={core if rel[2] == 'id' else rel[2] + '(' + core + ')'}"
    return f"{rel[1]}[{rel[2].name},{rel[3].name},{rel[4].name}]"


def rel_units_of(rel):
    return rel[2:] if rel[0] == "un" else rel[3:] if rel[0] == "bin" else rel[2:]


def rel_targets(rel):
    if rel[0] == "eq":
        return [rel[3], rel[4]]
    return [rel[-1]]


def rel_sources(rel):
    if rel[0] == "un":
        return [rel[2]]
    if rel[0] == "bin":
        return [rel[3], rel[4]]
    return [rel[2]]


def _disjoint(us):
    us = list(us)
    return not any(us[i].overlaps(us[j]) for i in range(len(us)) for j in range(i + 1, len(us)))


def relation_triples(units):
    """(a, b, c) unit triples (a, b unordered sources, c target): all triples of whole-field units; the sliding windows of three
    consecutive words of an opaque field in every role; two consecutive words + one whole-field unit of comparable width"""
    import itertools

    whole = [u for u in units if u.word is None and not u.long]
    out = []
    for c in whole:
        if c.src_only:
            continue
        rest = [u for u in whole if u is not c and not u.overlaps(c)]
        for a, b in itertools.combinations(rest, 2):
            if not a.overlaps(b):
                out.append((a, b, c))
    by_field = {}
    for u in units:
        if u.word is not None:
            by_field.setdefault((next(iter(u.fields)), u.word), []).append(u)
    for (_f, ww), ws in by_field.items():
        ws = sorted(ws, key=lambda u: u.range[0])
        ws = [u for i, u in enumerate(ws) if i == 0 or u.range[0] >= ws[i - 1].range[1]]  # drop the overlapping right-aligned word
        for i in range(len(ws) - 2):
            x, y, z = ws[i], ws[i + 1], ws[i + 2]
            out += [(x, y, z), (x, z, y), (y, z, x)]
        if len(ws) >= 4:
            out += [(ws[0], ws[1], ws[-1]), (ws[0], ws[-1], ws[1]), (ws[-2], ws[-1], ws[0])]
        for i in range(len(ws) - 1):
            x, y = ws[i], ws[i + 1]
            for u in whole:
                if u.overlaps(x) or u.overlaps(y) or not (ww // 2 <= u.w <= 2 * ww):
                    continue
                if not u.src_only:
                    out.append((x, y, u))
                out += [(u, x, y), (u, y, x)]
    return out


def relation_pairs_units(units):
    """(a, c) ordered unit pairs for the one-source relations: whole-field units of comparable width, neighbouring words, a word
    and a whole-field unit of comparable width"""
    whole = [u for u in units if u.word is None and not u.long]
    out = []
    for a in whole:
        for c in whole:
            if c is a or c.src_only or a.overlaps(c):
                continue
            if min(a.w, c.w) * 4 >= max(a.w, c.w):
                out.append((a, c))
    by_field = {}
    for u in units:
        if u.word is not None:
            by_field.setdefault((next(iter(u.fields)), u.word), []).append(u)
    for (_f, ww), ws in by_field.items():
        ws = sorted(ws, key=lambda u: u.range[0])
        ws = [u for i, u in enumerate(ws) if i == 0 or u.range[0] >= ws[i - 1].range[1]]
        for i in range(len(ws) - 1):
            out += [(ws[i], ws[i + 1]), (ws[i + 1], ws[i])]
        if len(ws) >= 3:
            out += [(ws[0], ws[-1]), (ws[-1], ws[0])]
        for x in (ws[:2] + ws[-1:]) if len(ws) > 3 else ws:
            for u in whole:
                if u.overlaps(x) or not (ww // 2 <= u.w <= 2 * ww):
                    continue
                out.append((u, x))
                if not u.src_only:
                    out.append((x, u))
    return out


def kind_source_changed(ctx, kind):
    """the source file of the kind's PDU class is among the files whose functions differ from the committed baseline"""
    import sys as _sys

    changed = {d.partition("::")[0] for d in (getattr(ctx, "drift", None) or [])}
    if not changed:
        return False
    for v in kind.variants:
        if v.cls is not None:
            f = getattr(_sys.modules.get(v.cls.__module__), "__file__", "") or ""
            f = f.replace("\\", "/")
            if any(f.endswith("/" + c) or f.endswith(c) for c in changed):
                return True
    return False


def relation_cases(ctx, kind, var, rng):
    """yield (desc, vals, labels): field tuples satisfying one relation / two relations at once (see the comment above)"""
    units = relation_units(var)
    if len(units) < 2:
        return
    full = ctx.thorough()
    directed = kind_source_changed(ctx, kind)
    seed = getattr(ctx, "seed", 0)
    triples = relation_triples(units)
    upairs = relation_pairs_units(units)
    # ---- single relations
    singles = [("bin", op, "id", a, b, c) for (a, b, c) in triples for op in REL_BIN]
    singles += [("eq", how, a, b, c) for (a, b, c) in triples for how in REL_EQ if (a.w == b.w or how == "a==c!=b") and not b.src_only]
    singles += [("un", op, a, c) for (a, c) in upairs for op in REL_UN]
    cap1 = ctx.budget(600, 8000) * (4 if directed else 1)
    share = max(1, -(-len(singles) // cap1))
    phase = (seed * 7 + len(var.name)) % share
    for i, rel in enumerate(singles):
        if i % share != phase:
            continue
        for attempt in range(3):
            vals = rel_base(var, rng, i + attempt)
            if rel_impose(vals, rel, rng):
                vals = {n: vals[n] for n, _s in var.fields}
                yield ("rel1", rel_name(rel)), vals, ["relation:" + (rel[1] if rel[0] != "eq" else rel[1])]
                break
    # ---- the check field = the RIGHT check value combined with another field (a parity folded with an address)
    whole = [u for u in units if u.word is None and not u.long]
    for cf in getattr(kind, "check", None) or []:
        if dict(var.fields).get(cf.field) is None:
            continue
        others = [u for u in whole if cf.field not in u.fields] + [u for u in units if u.word in (16, 32) and cf.field not in u.fields][:4]
        for ai, a in enumerate(others):
            for oi, op in enumerate(("xor", "add", "sub", "bus", "and", "or")):
                if not (full or directed) and (ai + oi + seed) % 2:
                    continue
                vals = rel_base(var, rng, 0)
                if not cf.applies(var, vals):
                    continue
                res, err = call(cf.right, var, vals)
                x = a.get(vals)
                if err or not res[1] or x is None:
                    continue
                rl, rv = res[1][(ai + oi) % len(res[1])]
                z = rel_bin(op, rv, x, cf.width, a.w, cf.width)
                vals[cf.field] = cf.to_plain(z)
                vals = {n: vals[n] for n, _s in var.fields}
                yield ("rel-check", f"{cf.field}/{cf.width}={op}(right-value:{rl},{a.name})"), vals, ["relation:check-field-mixed-with-a-field"]
    # ---- derived quantities of a payload field standing in another field; exact population counts; repeated sub-blocks
    payloads = [u for u in units if u.word is None and u.w >= 16 and any(isinstance(sp, (BYTES, BITS, VBITS)) and n in u.fields for n, sp in var.fields)
                and not any(cf.field in u.fields for cf in (getattr(kind, "check", None) or []))]
    for a in payloads:
        for c in whole:
            if c.src_only or c.overlaps(a):
                continue
            for op in REL_DERIVED:
                vals = rel_base(var, rng, 0)
                x = a.get(vals)
                if x is None:
                    continue
                if op in ("trailing-zero-octets", "leading-zero-octets", "nonzero-octets"):
                    # make the quantity non-trivial: clear a random run of octets first
                    nb = a.w // 8
                    k = rng.randrange(1, max(2, nb))
                    x = (x >> (8 * k) << (8 * k)) if op == "trailing-zero-octets" else (x & ((1 << (a.w - 8 * k)) - 1)) if op == "leading-zero-octets" \
                        else x & ~(0xFF << (8 * rng.randrange(nb)))
                    if not a.put(vals, x):
                        continue
                z = rel_derived(op, x, a.w) & ((1 << c.w) - 1)
                if c.put(vals, z):
                    vals = {n: vals[n] for n, _s in var.fields}
                    yield ("rel-derived", f"{c.name}={op}({a.name})"), vals, ["relation:derived:" + op]
        for k in range(a.w + 1):
            if not full and a.w > 64 and (k + seed) % 2 and 4 < k < a.w - 4:
                continue
            vals = rel_base(var, rng, 0)
            x = 0
            for pos in rng.sample(range(a.w), k):
                x |= 1 << pos
            if a.put(vals, x):
                vals = {n: vals[n] for n, _s in var.fields}
                yield ("popcount", a.name, k), vals, ["relation:population-count-exactly-k"]
        for ww in (8, 16, 32):
            nw = a.w // ww
            if a.w % ww or nw < 2:
                continue
            for pat in REL_REPEAT:
                vals = rel_base(var, rng, 0)
                ws = [rng.getrandbits(ww) for _ in range(nw)]
                if pat == "all-words-equal":
                    ws = [ws[0]] * nw
                elif pat == "period-2":
                    ws = [ws[i % 2] for i in range(nw)]
                elif pat == "halves-equal":
                    if nw % 2:
                        continue
                    ws = ws[: nw // 2] * 2
                elif pat == "palindrome":
                    ws = [ws[min(i, nw - 1 - i)] for i in range(nw)]
                elif pat == "two-words-equal":
                    i, j = rng.sample(range(nw), 2)
                    ws[j] = ws[i]
                elif pat == "counting":
                    ws = [(ws[0] + i) & ((1 << ww) - 1) for i in range(nw)]
                elif pat == "all-equal-but-one":
                    ws = [ws[0]] * nw
                    ws[rng.randrange(nw)] ^= 1 << rng.randrange(ww)
                x = 0
                for w_ in ws:
                    x = (x << ww) | w_
                if a.put(vals, x):
                    vals = {n: vals[n] for n, _s in var.fields}
                    yield ("repeat", a.name, ww, pat), vals, ["relation:repeated-sub-blocks:" + pat]
    # ---- two relations at once

    def both(r1, r2, tag, i):
        tg = rel_targets(r1) + rel_targets(r2)
        src = rel_sources(r1) + rel_sources(r2)
        if not _disjoint(tg) or any(t.overlaps(s_) for t in tg for s_ in src):
            return None
        for attempt in range(2):
            vals = rel_base(var, rng, i + attempt)
            if rel_impose(vals, r1, rng) and rel_impose(vals, r2, rng):
                return {n: vals[n] for n, _s in var.fields}
        return None

    import itertools

    # P1: two targets computed from the same two sources (a folded parity AND a checksum of the same two addresses)
    srcs = [u for u in whole] + [u for u in units if u.word == 32][:3]

    def p1():
        for a, b in itertools.combinations(srcs, 2):
            if a.overlaps(b):
                continue
            tgts = [u for u in whole if not u.src_only and not u.overlaps(a) and not u.overlaps(b)]
            for c1, c2 in itertools.combinations(tgts, 2):
                if c1.overlaps(c2):
                    continue
                for op1 in REL_BIN_CORE:
                    for op2 in REL_BIN_CORE:
                        yield (("bin", op1, "id", a, b, c1), ("bin", op2, "id", a, b, c2))

    # P2: two relations on disjoint unit sets; the words of one width of the payload and the whole-field units of that width form
    # a class of at most six units; in the widest class (thorough / changed source) each result is also rotated / swapped / complemented
    classes = []
    for ww in (32, 24, 16, 8):
        keep = []
        for u in units:
            if u.w == ww and u.word in (None, ww) and all(not u.overlaps(k_) for k_ in keep):
                keep.append(u)
        if len(keep) >= 5:
            # the whole-field units of the class (a CRC-32 next to 32-bit data words) and the first words
            keep = [u for u in keep if u.word is None][:3] + [u for u in keep if u.word is not None]
            classes.append(sorted(keep[:6], key=lambda u: (u.word is None, u.range or (0, 0))))
    depth2 = full or directed

    def p2():
        for ci, cl in enumerate(classes):
            posts = REL_POST if (depth2 and ci == 0) else ("id",)
            for t1 in itertools.combinations(range(len(cl)), 3):
                rest = [i for i in range(len(cl)) if i not in t1]
                for t2 in itertools.combinations(rest, 3):
                    if t1 > t2:
                        continue
                    for c1 in t1:
                        if cl[c1].src_only:
                            continue
                        a1, b1 = [cl[i] for i in t1 if i != c1]
                        for c2 in t2:
                            if cl[c2].src_only:
                                continue
                            a2, b2 = [cl[i] for i in t2 if i != c2]
                            for op1 in REL_BIN_CORE:
                                for op2 in REL_BIN_CORE:
                                    for post1 in posts:
                                        for post2 in posts:
                                            if post1 != "id" and post2 != "id":
                                                continue  # at most one of the two results is transformed
                                            yield (("bin", op1, post1, a1, b1, cl[c1]), ("bin", op2, post2, a2, b2, cl[c2]))
                for t2 in itertools.permutations(rest, 2):  # a two-source and a one-source relation: five units
                    if cl[t2[1]].src_only:
                        continue
                    for c1 in t1:
                        if cl[c1].src_only:
                            continue
                        a1, b1 = [cl[i] for i in t1 if i != c1]
                        for op1 in REL_BIN_CORE[:3]:
                            for op2 in ("eq", "rotl8", "not", "bswap", "plus1"):
                                yield (("bin", op1, "id", a1, b1, cl[c1]), ("un", op2, cl[t2[0]], cl[t2[1]]))

    # mixed-width disjoint pairs over the whole-field units (sampled)
    p3l = []
    if len(whole) >= 5:
        for _ in range(ctx.budget(60, 1500)):
            us = rng.sample(whole, 5)
            if not _disjoint(us) or us[2].src_only or us[4].src_only:
                continue
            p3l.append((("bin", rng.choice(REL_BIN), "id", us[0], us[1], us[2]), ("un", rng.choice(REL_UN), us[3], us[4])))
        if len(whole) >= 6:
            for _ in range(ctx.budget(60, 1500)):
                us = rng.sample(whole, 6)
                if not _disjoint(us) or us[2].src_only or us[5].src_only:
                    continue
                p3l.append((("bin", rng.choice(REL_BIN), "id", us[0], us[1], us[2]), ("bin", rng.choice(REL_BIN), "id", us[3], us[4], us[5])))
    for tag, fam, capq, capt in (("same-sources-two-targets", p1, 200, 20000), ("disjoint-same-width", p2, 200, 40000),
                                 ("disjoint-mixed", (lambda: iter(p3l)), 100, 3000)):
        size = sum(1 for _ in fam())
        if not size:
            continue
        cap = capt if full else capq * ctx.boost
        if directed:
            cap = max(cap, REL_DIRECTED_CAP)
        share = max(1, -(-size // cap))
        phase = (seed * 11 + len(var.name) * 3) % share
        for i, (r1, r2) in enumerate(fam()):
            if i % share != phase:
                continue
            vals = both(r1, r2, tag, i)
            if vals is None:
                continue
            yield ("rel2", tag, rel_name(r1), rel_name(r2)), vals, ["relation-pair:" + tag]
        ctx.count(f"relation-pair:{tag}:family-size", size)


REL_DIRECTED_CAP = 120000


def relation_overlay_cases(ctx, kind, rng, bases):
    """yield (desc, bitarray): decode side — over valid encodings, an octet-aligned word of 8 / 16 / 24 / 32 bits is overwritten by a
    function of one or two other (non-overlapping) words of the same string; two such relations at once on a share of the cases"""
    n_cases = ctx.budget(300, 4000)
    if not bases:
        return
    for i in range(n_cases):
        vname, base = bases[i % len(bases)]
        nb = len(base) // 8
        if nb < 4:
            return
        b = base.copy()
        # fresh random payload behind the first two octets (opcode / format selectors), so that the words are not the base's own
        if i % 3:
            b[16:8 * nb] = int2ba(rng.getrandbits(8 * nb - 16), length=8 * nb - 16)
        labels = []
        used = []
        for _r in range(2 if i % 4 == 0 else 1):
            for _attempt in range(8):
                k = rng.choice((1, 2, 3, 4, 3, 4))
                kc = k if rng.random() < 0.7 else rng.choice((1, 2, 3, 4))
                if nb < 2 * k + kc + 1:
                    continue
                oc = rng.randrange(1, nb - kc + 1)
                oa = rng.randrange(0, nb - k + 1)
                ob = rng.randrange(0, nb - k + 1)
                spans = [(oa, oa + k), (ob, ob + k), (oc, oc + kc)]
                if any(x[0] < y[1] and y[0] < x[1] for j, x in enumerate(spans) for y in spans[j + 1:]):
                    continue
                if any(oc < e and s_ < oc + kc for s_, e in used) or any((s_ < u[1] and u[0] < e) for (s_, e) in spans[:2] for u in used[2::3]):
                    continue
                a = ba2int(b[8 * oa:8 * (oa + k)])
                bb = ba2int(b[8 * ob:8 * (ob + k)])
                if rng.random() < 0.7:
                    op = rng.choice(REL_BIN)
                    z = rel_bin(op, a, bb, 8 * k, 8 * k, 8 * kc)
                    lab = op
                else:
                    op = rng.choice(REL_UN)
                    z = rel_un(op, a, 8 * k, 8 * kc)
                    lab = op
                if z is None:
                    continue
                if rng.random() < 0.25:
                    post = rng.choice(REL_POST[1:])
                    z2 = rel_un(post, z, 8 * kc, 8 * kc)
                    if z2 is not None:
                        z, lab = z2, post + "." + lab
                b[8 * oc:8 * (oc + kc)] = int2ba(z, length=8 * kc)
                used += spans
                labels.append(f"{lab}@{oa},{ob}->{oc}/{k},{kc}")
                break
        if labels:
            yield ("relation-overlay", vname, tuple(labels)), b, labels


# ---- argument provenance (round 3): the same bits handed over as another kind of object the decoder accepts
def provenance_variants(b):
    """[(label, argument)] — the bit string b as an immutable frozenbitarray, as a read-only bitarray over an imported buffer, as a
    bitarray with spare capacity that was shortened in place, as a copy made by slicing a longer one"""
    from bitarray import frozenbitarray

    out = [("frozenbitarray", frozenbitarray(b))]
    if len(b) % 8 == 0 and len(b):
        try:
            out.append(("read-only-buffer", bitarray(buffer=b.tobytes(), endian="big")))
        except BaseException:  # noqa: bitarray without buffer import
            pass
    x = bitarray(b) + bitarray("1011" * 16)
    del x[len(b):]
    out.append(("shortened-in-place", x))
    y = bitarray("110") + bitarray(b) + bitarray("0111")
    out.append(("slice-of-longer", y[3:3 + len(b)]))
    return out


def provenance_probe(ctx, k, b):
    ref_o, ref_err = call(k.from_bits, bitarray(b))
    ref = outcome(ref_o, ref_err)
    ref_e = None
    if not ref_err:
        e, err = call(ref_o.as_bits)
        ref_e = err or sbits(e)
    for label, arg in provenance_variants(b):
        ctx.count(f"provenance:{label}")
        before = arg.to01()
        o, err = call(k.from_bits, arg)
        got = outcome(o, err)
        got_e = None
        if not err:
            e, err2 = call(o.as_bits)
            got_e = err2 or sbits(e)
        if arg.to01() != before or got != ref or got_e != ref_e:
            ctx.fail("argument-provenance", {"kind": "alias", "probe": "provenance", "pdu": k.name, "bits": sbits(b), "as": label},
                     f"{k.name}: from_bits of the same bits handed over as {label} gives another result than for a plain bitarray"
                     + (" (and changes its argument)" if arg.to01() != before else ""),
                     expected=ref if got != ref else ref_e, actual=got if got != ref else got_e)


# ---- error paths (round 3): a call that RAISES must leave nothing behind that changes later valid calls
def reference_outcomes(k, rng_seed, n_bits=4):
    """canonical outcomes of a fixed sample of valid calls of the kind: per variant build / as_bits / from_bits, a few decodes"""
    import random

    rng = random.Random(f"ref:{k.name}:{rng_seed}")
    out = []
    for var in k.variants:
        for how in ("random", "zero", "max"):
            vals = fill(var, rng, how)
            p, err = call(var.build, vals)
            if err:
                out.append(err)
                continue
            bits, err = call(p.as_bits)
            out.append(err or sbits(bits))
            if not err and bits is not None:
                q, err = call(k.from_bits, bitarray(bits))
                out.append(outcome(q, err))
    for _ in range(n_bits):
        b = k.bit_seeds(rng)
        while k.name == "udp" and len(b) < 72:  # right-length strings only: shorter ones are rejected by asserts (outside the property)
            b = b + int2ba(rng.getrandbits(40), length=40)
        o, err = call(k.from_bits, bitarray(b))
        out.append(outcome(o, err))
        if not err:
            e1, err = call(o.as_bits)
            out.append(err or sbits(e1))
    return out


def failing_calls(k, rng):
    """a batch of calls that raise (or at least leave the domain of the property): wrong lengths, wrong argument types, undefined
    opcodes, out-of-range field values, attributes set to None — every exception is swallowed; returns how many calls raised"""
    raised = 0
    L = k.length or 96
    bad_inputs = [bitarray(), bitarray("1"), bitarray("1" * (L - 1)), bitarray("0" * (L + 1)), bitarray("1" * L), bitarray("0" * L),
                  None, "01" * (L // 2), b"\xff" * (L // 8), [1, 0] * (L // 2), 5, bitarray("1" * L, endian="little"), bytearray(L // 8)]
    for x in bad_inputs:
        _o, err = call(k.from_bits, x)
        raised += bool(err)
        if not err and _o is not None and hasattr(_o, "as_bits"):
            _e, err = call(_o.as_bits)
            raised += bool(err)
    # right-length strings that raise each of the documented errors (undefined / not implemented opcodes, formats, members)
    seen_err, tries = {}, 0
    while tries < 400 and (tries < 40 or any(seen_err.get(e, 0) < 3 for e in k.errors)):
        tries += 1
        _o, err = call(k.from_bits, k.bit_seeds(rng))
        if err:
            seen_err[err[4:]] = seen_err.get(err[4:], 0) + 1
            raised += 1
    for var in k.variants:
        for fname, spec in var.fields:
            vals = fill(var, rng, "random")
            sp = spec.a if isinstance(spec, CHOICE) else spec
            if isinstance(sp, S):
                vals[fname] = 1 << sp.w
            elif isinstance(sp, U):
                vals[fname] = (1 << sp.w) + rng.randrange(1 << sp.w)
            elif isinstance(sp, BITS):
                vals[fname] = "1" * (sp.n + 1)
            elif isinstance(sp, BYTES):
                vals[fname] = "ff" * (sp.n + 1)
            elif isinstance(sp, E):
                vals[fname] = max(x for x in sp.vals if isinstance(x, int)) + 1000
            else:
                continue
            p, err = call(var.build, vals)
            raised += bool(err)
            if not err:
                _b, err = call(p.as_bits)
                raised += bool(err)
        # an object whose attributes were set to None / a wrong type after construction
        p, err = call(var.build, fill(var, rng, "random"))
        if not err and hasattr(p, "__dict__"):
            for name in sorted(vars(p)):
                old = getattr(p, name)
                for junk in (None, "x", -1):
                    try:
                        setattr(p, name, junk)
                    except BaseException:  # noqa
                        continue
                    _b, err = call(p.as_bits)
                    raised += bool(err)
                setattr(p, name, old)
    return raised


def error_path_probe(ctx, spec, ks):
    k = ks.get(spec["pdu"])
    if k is None:
        return
    import random

    # the reference sample holds valid calls only (objects built from fields, decodes of their own serialisations)
    before = reference_outcomes(k, spec["seed"], n_bits=0)
    raised = failing_calls(k, random.Random(f"err:{k.name}:{spec['seed']}"))
    ctx.count("error-path:failing-calls-that-raised", raised)
    after = reference_outcomes(k, spec["seed"], n_bits=0)
    if before != after:
        bad = [i for i, (x, y) in enumerate(zip(before, after)) if x != y]
        ctx.fail("error-path-state", spec, f"{k.name}: after a batch of failing calls (wrong lengths / argument types / undefined opcodes / out-of-range "
                 f"fields; {raised} of them raised) {len(bad)} of {len(before)} valid calls give a different result than before",
                 expected=before[bad[0]] if bad else None, actual=after[bad[0]] if bad else None)


# ---- ambient interpreter / process state (round 3): the codecs are functions of their arguments whatever the process looks like
class RaisingWriter:
    def write(self, *_a):
        raise OSError("stdout is closed")

    def flush(self):
        raise OSError("stdout is closed")


def ambient_sample(ks, seed):
    """[outcomes] of a fixed small sample over every kind + every element value (deterministic from seed)"""
    out = []
    for name in sorted(ks):
        out.append(reference_outcomes(ks[name], seed, n_bits=6))
    return out


def ambient_elements():
    out = []
    for _lname, cls, w in element_classes():
        for v in range(2**w):
            out.append(element_outcome(cls, v)[1])
    return out


def digest(x):
    import hashlib

    return hashlib.blake2b(json.dumps(x, sort_keys=True, default=str).encode(), digest_size=12).hexdigest()


def ambient_probe(ctx, ks, seed):
    import io
    import logging
    import random
    import sys
    import warnings

    base = ambient_sample(ks, seed)
    base_el = ambient_elements()

    def compare(cond, got, got_el):
        ctx.case(("ambient", cond, seed), nontrivial=True)
        ctx.count(f"ambient:{cond}")
        if got != base or got_el != base_el:
            kinds_bad = [n for n, a, b in zip(sorted(ks), base, got) if a != b]
            ctx.fail("ambient-dependence", {"kind": "alias", "probe": "ambient", "condition": cond, "seed": seed},
                     f"under the ambient condition '{cond}' a fixed sample of constructor / as_bits / from_bits / element calls gives other results "
                     f"than before (kinds {kinds_bad or 'elements'})", expected=digest([base, base_el]), actual=digest([got, got_el]))

    # root logger at DEBUG with a handler that formats every record (stdout / stderr captured: the check itself prints nothing);
    # stdout / stderr that raise on every write; and both together
    root = logging.getLogger()
    for cond, debug, writer in (("root-logger-debug", True, io.StringIO), ("stdout-raises", False, RaisingWriter),
                                ("root-logger-debug+stdout-raises", True, RaisingWriter)):
        lvl = root.level
        sink = logging.StreamHandler(io.StringIO())
        sink.setFormatter(logging.Formatter("%(asctime)s %(name)s %(message)s"))
        so, se = sys.stdout, sys.stderr
        try:
            if debug:
                root.setLevel(logging.DEBUG)
                root.addHandler(sink)
            sys.stdout = sys.stderr = writer()
            got, got_el = ambient_sample(ks, seed), ambient_elements()
        finally:
            sys.stdout, sys.stderr = so, se
            root.setLevel(lvl)
            root.removeHandler(sink)
        compare(cond, got, got_el)
    # the global random generator reseeded, warnings turned into errors, a low recursion limit
    st = random.getstate()
    try:
        random.seed(0)
        got, got_el = ambient_sample(ks, seed), ambient_elements()
    finally:
        random.setstate(st)
    compare("random-reseeded", got, got_el)
    with warnings.catch_warnings():
        warnings.simplefilter("error")
        got, got_el = ambient_sample(ks, seed), ambient_elements()
    compare("warnings-are-errors", got, got_el)
    return base, base_el


def ambient_children(ctx, seed, base_digest, base_kinds=None):
    """the same sample in child interpreters: a fresh plain one (the pristine reference: the results at the END of this run must equal
    it — nothing the run did may have left state behind), `python -O` (asserts stripped), and fresh interpreters in which the FIRST
    call on every PDU class is a failing one"""
    import os
    import subprocess
    import sys

    here = os.path.abspath(__file__)
    ref = None
    for mode, flags in (("plain", []), ("python-O", ["-O"]), ("first-call-fails", []), ("python-O-first-call-fails", ["-O"])):
        ctx.case(("ambient-child", mode, seed), nontrivial=True)
        ctx.count(f"ambient:child:{mode}")
        inp = {"kind": "alias", "probe": "ambient-child", "mode": mode, "seed": seed}
        try:
            r = subprocess.run([sys.executable] + flags + [here, "--child", mode, str(seed)], capture_output=True, text=True, timeout=300)
        except Exception as e:  # noqa
            ctx.notes.append(f"ambient child {mode} could not be run: {e}")
            continue
        line = (r.stdout.strip().splitlines() or [""])[-1]
        try:
            res = json.loads(line)
        except ValueError:
            ctx.fail("ambient-child-crashed", inp, f"the sample run in a child interpreter ({mode}) ended with rc={r.returncode} and no result: "
                     + r.stderr.strip()[-300:], actual=r.returncode)
            continue
        if mode == "plain":
            ref = res
            if res.get("digest") != base_digest:
                differ = sorted(n for n, d in (res.get("kinds") or {}).items() if (base_kinds or {}).get(n) != d)
                ctx.fail("history-dependence", inp, "at the end of this run a fixed sample of constructor / as_bits / from_bits / element calls gives other "
                         f"results than in a fresh interpreter (kinds {differ or 'elements'}): earlier calls of the run left state behind",
                         expected=res.get("digest"), actual=base_digest)
            continue
        want = ref or {"digest": base_digest, "kinds": base_kinds or {}}
        if res.get("digest") != want["digest"]:
            differ = sorted(n for n, d in (res.get("kinds") or {}).items() if want["kinds"].get(n) != d)
            what = "error-path-state" if "first-call-fails" in mode and "python-O" not in mode else "ambient-dependence"
            ctx.fail(what, inp, f"in a child interpreter ({mode}) the fixed sample of constructor / as_bits / from_bits / element calls gives other results "
                     f"than in a fresh plain interpreter (kinds {differ or 'elements'})", expected=want["digest"], actual=res.get("digest"))


def child_main(argv):
    """entry of the child interpreters of ambient_children: prints one JSON line {digest, kinds}"""
    import sys

    mode, seed = argv[0], int(argv[1])
    ks = {k.name: k for k in kinds()}
    if "first-call-fails" in mode:
        import random

        for name in sorted(ks):
            k = ks[name]
            L = k.length or 96
            for x in (bitarray("1" * (L + 3)), bitarray(), None, bitarray("1" * L)):
                call(k.from_bits, x)
            failing_calls(k, random.Random(0))
    base = ambient_sample(ks, seed)
    el = ambient_elements()
    per_kind = {n: digest(o) for n, o in zip(sorted(ks), base)}
    sys.stdout.write(json.dumps({"digest": digest([base, el]), "kinds": per_kind, "optimized": not __debug__}) + "\n")
    return 0


# ------------------------------------------------------------------------------------------------
CORPUS = [
    # repaired defects (KNOWN_FINDINGS.txt, fixed: property=C03 …) — kept so a regression is re-reported
    ("csbk", "nackRsp", {"lb": 1, "pf": 0, "fid": 0, "crc": 0, "aif": 0, "st": 1, "svc": 4, "rc": 33, "src": 2623266, "tgt": 1234}),
    ("csbk", "nackRsp", {"lb": 1, "pf": 0, "fid": 0, "crc": 0, "aif": 1, "st": 0, "svc": 5, "rc": 33, "src": 1, "tgt": 16777215}),
    ("csbk", "aloha", {"lb": 0, "pf": 0, "fid": 0, "crc": 0, "tsccas": 1, "sync": 0, "dvc": 3, "off": 0, "act": 1, "mask": 21, "sf": 2,
                       "nrand": 7, "reg": 1, "backoff": 5, "sys": 48879, "tgt": 2623266}),
    ("dh", "response", {"A": 1, "crc": "0000000000000000"}),
    ("dh", "response", {"A": 0, "crc": "0000000000000000"}),
]


def run_fields_case(ctx, kind, variant, vals, enc_pairs, desc, sample=None, dec_pairs=None, opts=None, attr_pairs=None):
    ctx.case(desc, nontrivial=True, sample=sample)
    ctx.count(f"{kind.name}:fields:{variant.name}")
    r = check_fields(ctx, kind, variant, vals, opts=opts)
    if r is not None:
        line, dec, p, bits = r
        enc_pairs.append((line, kind.enc_out(p, bits)))
        if attr_pairs is not None and getattr(kind, "attrs_line", None):
            al, err = call(kind.attrs_line, p)
            if not err:
                attr_pairs.append((al, sbits(bits)))
        if dec_pairs is not None and dec is not None:
            # the decode of these bits as the model must see it (same text as check_bits), from the calls already made
            q, e1 = dec
            out = "ERR as_bits" if isinstance(e1, str) else f"ok {kind.fmt(q)} {sbits(e1)}"
            if kind.extra_check and not isinstance(e1, str):
                x = kind.extra_check(q)
                if x:
                    out += " EXTRA " + x
            dec_pairs.append((kind.dec_line(sbits(bits)), out))
        return p
    return None


# ------------------------------------------------------------------------------------------------
# history / object-identity probes (harness/histories.py): every PDU kind once as constructor and once as parser
def ENTRY_POINTS():
    import histories as H

    def view(q):
        b, e = call(q.as_bits) if hasattr(q, "as_bits") else (None, None)
        return {"as_bits": e or H.canon(b), "fields": H.canon(q)}

    ser = lambda o: o.as_bits()  # noqa: E731
    eps = []
    for k in kinds():
        if not k.variants:
            continue

        def args(rng, k=k):
            vi = rng.randrange(len(k.variants))
            v = k.variants[vi]
            vals = v.random_vals(rng)
            if v.fix:
                vals = v.fix(vals)
            return (vi, vals)

        def build(vi, vals, k=k):
            return k.variants[vi].build(vals)

        def word(rng, k=k, args=args, build=build):
            if k.bit_seeds is not None and rng.random() < 0.3:
                return (bitarray(k.bit_seeds(rng)),)
            return (bitarray(build(*args(rng)).as_bits()),)

        eps.append(H.EP(f"{k.name}.build", build, args, kind="build", serialise=ser, canon=view, group=k.name, probes=("repeat", "argument-kept", "result-edit", "twin", "interleave", "held")))
        eps.append(H.EP(f"{k.name}.from_bits", k.from_bits, word, kind="parse", serialise=ser, canon=view, group=k.name, domain=f"bits{k.length}"))
    return eps


def run_transl(ctx):
    """Differential validation of the source translator for bit-field PDU code (tools/py2lean_bits.py on top of tools/py2lean.py) and
    of its prelude (Model/PyBits.lean, Model/Py.lean), trusted base of Props/C03t: the definitions TRANSLATED from the source of
    CSBK.__init__ / as_bits / calculate_crc_ccit / from_bits (`Gen/TranslCsbk.lean`, driver operation `t.cs.dec`, CRC16.calculate
    instantiated with the driver's bitwise CRC-CCITT) against the real class: every attribute of the object `CSBK.from_bits`
    returns and its `as_bits()`, or the exception class, on structured words of all opcodes (implemented ones favoured, all
    64 opcode values x feature set ids, zeroed CRC field, single-bit neighbours) and on wrong lengths.  A difference is a
    translator or prelude bug, never a finding about /repo."""
    if ctx.search_only or not ctx.driver_ok:
        return
    from okdmr.dmrlib.etsi.layer2.pdu.csbk import CSBK as _CSBK
    from okdmr.dmrlib.etsi.layer3.elements.service_options import ServiceOptions as _SO
    rng = ctx.rng

    def bs(b):
        return b.to01() if len(b) else "-"

    def val(v):
        if v is None:
            return "None"
        if isinstance(v, bool):
            return "1" if v else "0"
        if isinstance(v, enum.Enum):
            return str(v.value)
        if isinstance(v, bitarray):
            return bs(v)
        if isinstance(v, int):
            return str(v)
        if isinstance(v, bytes):
            return v.hex() if v else "-"
        if isinstance(v, _SO):
            return "{" + ";".join(f"{k}={val(x)}" for k, x in vars(v).items()) + "}"
        return "?" + type(v).__name__

    def parse(w):
        try:
            o = _CSBK.from_bits(bitarray(w))
        except Exception as e:  # noqa
            return impl_error(e)
        try:
            enc = bs(o.as_bits())
        except Exception as e:  # noqa
            enc = impl_error(e)
        return ";".join(f"{k}={val(v)}" for k, v in vars(o).items()) + " " + enc

    def rnd(n):
        return "".join(rng.choice("01") for _ in range(n))

    implemented = [56, 4, 5, 38, 61, 7, 8, 40, 25]
    words = ["0" * 96, "1" * 96]
    for op in range(64):
        for fid in ("00000000", "00010000", rnd(8)):
            words.append(rnd(2) + format(op, "06b") + fid + rnd(80))
    for _ in range(ctx.budget(1200, 20000)):
        w = rnd(2) + format(rng.choice(implemented), "06b") + rng.choice(("00000000", "00010000", "01101000", rnd(8))) + rnd(80)
        r = rng.random()
        if r < 0.25:
            w = w[:80] + "0" * 16           # the constructor computes the CRC
        elif r < 0.35:
            i = rng.randrange(96)
            w = w[:i] + ("1" if w[i] == "0" else "0") + w[i + 1:]
        elif r < 0.40:
            w += rnd(rng.choice((1, 8, 96)))  # longer buffers are accepted
        words.append(w)
    words += [rnd(k) for k in (0, 1, 80, 95)]
    pairs = [("t.cs.dec " + (w or "-"), parse(w)) for w in words]
    ctx.count("transl:CSBK.from_bits", len(words))
    ctx.correspond("transl", pairs)


def run(ctx):
    ctx.rule = (
        "per PDU kind and variant (opcode / format): corpus of repaired defects first; then a type-directed sweep — every field in turn at "
        "0, max, each walking-one value / every enum member while the other fields are random — plus all-random field tuples; decode side: "
        "structured-random right-length bit strings (implemented opcodes favoured, inner enumerations made valid, CRC field zeroed in 15 %) "
        "and single-bit mutations of valid encodings; every value of every element. A case is non-trivial unless stated; distinct = distinct "
        "(kind, variant, field tuple) / (kind, bit string) / (element, value). Special tokens: a dictionary of byte order marks, NUL runs, "
        "CR / LF forms, 7F/80 boundaries, all-ones, surrogates / invalid UTF-8, ASCII specials and protocol constants (CRC masks, sync "
        "patterns, ports, special addresses) is written at EVERY octet offset (and right-aligned) of every opaque / text-like field of every "
        "variant (talker alias data, raw_data, broadcast_params, block data, PI data, UDP user data, short-LC addresses; check fields and "
        ">= 16-bit integers with a rotating third in quick), each placement crossed with every value of every selector field of the variant "
        "(enum members, flags, small integers, check-field width; pairwise covering, complete cross product in thorough), on random / zero / "
        "all-ones background; 7-bit tokens at every bit offset of the payload fields of at most 64 bits; decode side: the tokens over valid "
        "encodings at every octet offset and (rotating token) at every bit offset of the PDU. History: for every element instance and every "
        "PDU variant, as_bits / from_bits / as_bytes / from_bytes are called twice (results must be distinct objects), a returned bitarray / "
        "object / the argument is changed in place (13 idioms) and the call repeated, PDUs carrying the element are built and round-tripped "
        "afterwards, results are held across other calls and the whole run and re-verified. Round 3: per variant EVERY constructor argument "
        "of the class is set — the arguments of the other opcodes / formats at 0 / max / random non-zero / random, all at once and one at a time, "
        "crossed with the carried fields random / all zero / all max / each in turn at 0 and max — the carried attributes must decode back, "
        "the object must hold the values it was given, as_bits must equal the model's encoding of the given carried fields and the model's "
        "as_bits over ALL attributes of the object; every argument in the other type its signature accepts; pairs of same-typed fields "
        "equal / octets reversed / complemented / plus 1; as_bytes / from_bytes against as_bits / from_bits on every fields case; the check "
        "field of every PDU kind that has one = every systematic transform of the right value (octet / bit / nibble orders, complement, all "
        "rotations, every other data type's mask, without mask / inversion, +-1, single bit flips, other CRC-16 conventions, CRC over parts of the "
        "body; right value from the library and from an independent computation), crossed with every selector value (all feature set ids); the "
        "same on the decode side over all 256 values of the two selector octets; a CRC of one part of the PDU inside an opaque payload field; "
        "error paths (valid calls - failing calls - the same valid calls); a fixed sample under ambient conditions (root logger DEBUG, stdout "
        "raising, both, random reseeded, warnings as errors) and in child interpreters (fresh, python -O, first call on every class failing). "
        "Round 4: field tuples CONSTRUCTED to satisfy arithmetic relations among the fields / words of one PDU (units = integer, bit-string, octet-string "
        "fields of >= 4 bits, runs of adjacent sub-octet fields as one number, consecutive 32/16/8-bit words of opaque payloads): target = xor, sum, "
        "differences, and, or, high part of sum / difference of two other units (low part by truncation); one-source relations (equal across types, rotations, "
        "shifts, high part, negation, complement, bit / octet reversal, +-1); a == b != c, a == b == c, progressions; check field = right check value combined "
        "with another field; derived quantities of a payload (population count, zero-octet counts, first / last octet, octet sum / xor, length) in another "
        "field; every exact population count of every payload field; repeated sub-blocks; TWO relations at once (two targets from the same two sources; "
        "two relations on disjoint units of one width class with one result optionally rotated / swapped / complemented; mixed-width pairs) — a seed-rotated "
        "share of each family in quick, the complete families (capped) in thorough and whenever the source file of the PDU class differs from the committed "
        "baseline; decode side: an octet-aligned word of a valid encoding overwritten by a function of one or two other words"
    )
    ctx.trusted_base += [
        "Lean 4.33 kernel",
        "tools/extract_elements.py (calls every element class of /repo on all 2^w values: the element graphs are the code)",
        "hand-written models of as_bits/from_bits/__init__ (Model/Pdu*.lean) tied to the code by this run's correspondence",
        "the CRC functions are parameters of the theorems; the driver instantiates them with a plain bitwise CRC that the correspondence compares with CRC16/CRC9/CRC8 of /repo",
        "GPS Info: raw signed integers n are modelled; float step n*(360/2^25) and back is exact in IEEE double (45*n < 2^53) — cross-checked by the harness on all boundary and random raw values",
        "bitarray / enum / Python are trusted as the substrate of the implementation",
        "the Lean models are pure functions of their arguments; that as_bits / from_bits / as_bytes / from_bytes / convert of the code are too "
        "(fresh result objects, no state kept between calls, arguments left alone) is not proved but probed on the real code by the history probes "
        "of this run (every element instance and PDU variant x 13 in-place idioms, results held across the run)",
        "Model/PduArgs.lean (as_bits over the whole attribute record, projection on the carried fields) is hand-written like the other models and "
        "tied to the code by the `x.encattrs` correspondence lines of this run (all attributes of real objects built with every constructor argument set)",
        "the 'right' check values fed to the transform generator come from the library's CRC16 / CRC8 / CRC9 / ReedSolomon1294 / FiveBitChecksum and "
        "from a bitwise CRC / checksum written here (RS parity: library only); the theorems do not depend on them (the CRC functions are parameters)",
        "tools/py2lean.py + tools/py2lean_bits.py + tools/extract_transl_pdu.py (source translator: Gen/TranslCsbk.lean from inspect.getsource of CSBK.__init__ / as_bits / "
        "calculate_crc_ccit / from_bits, ServiceOptions and the element helpers they call) and lean/DmrVerif/Model/Py.lean, Model/PyBits.lean (semantics of the Python subset, "
        "bitarray primitives); validated on every run by the differential operation t.cs.dec (run_transl); Props/C03t proves the translated definitions equal to Model/PduCsbk's "
        "Csbk.dec / Csbk.enc for all bit strings and whatever CRC16.calculate computes; the call boundary (CRC16.calculate, bytes_to_bits are parameters of the translated "
        "definitions) is trusted",
    ]
    run_transl(ctx)
    ctx.assumptions += [
        "crc_ok / crc9_ok (integrity indicators, property C04) are not part of the compared field tuple",
        "in-range field values: WF predicates of Model/Pdu*.lean (e.g. bit_padding 8 bits, blocks_to_follow < 128, no CRC-32 / DBSN on block variants that do not carry them)",
        "mutable default arguments of the constructors (CSBK.broadcast_params, DataHeader.bit_padding: one object shared by every PDU that does not carry "
        "the field) are hidden state in the sense of property C19 and are left alone by the history probes",
        "constructor arguments an opcode / format does not carry are given in-range values of the opcode that does carry them; they are not expected "
        "to come back from from_bits (the decoded object has the constructor defaults there); a CRC-32 passed to a confirmed non-last rate block "
        "enters its computed CRC-9 (calculate_crc9 reads the attribute) — modelled as the code has it, an integrity matter (C04 / C07)",
        "ambient conditions: thread interleavings are out of scope (the property does not speak of concurrency)",
    ]
    check_elements(ctx)
    check_talker_alias_text(ctx)
    check_gps_floats(ctx)
    ks = {k.name: k for k in kinds()}
    used_members = implemented_members(ks, ctx.rng)
    for k in ks.values():
        unimplemented_selector_cases(ctx, k, ctx.rng, used_members)
    sig_done = set()
    for k in ks.values():
        cls = next((v.cls for v in k.variants if v.cls is not None), None)
        if cls is None or cls in sig_done:
            continue
        sig_done.add(cls)
        passed = set()
        for v in k.variants:
            if v.kwargs is not None:
                passed |= set(v.kwargs(fill(v, ctx.rng, "random")))
        for n in ctor_params(cls):
            ctx.count(f"ctor-args:{'covered' if n in passed else 'NOT-covered:' + cls.__name__ + '.' + n}")
        for n in union_params_uncovered(k):
            ctx.count(f"ctor-args:union-type-not-exercised:{cls.__name__}.{n}")
    # error paths first: these are the first calls of the run that raise (before them only valid calls were made)
    for k in ks.values():
        for j in range(ctx.budget(1, 3)):
            spec = {"kind": "alias", "probe": "error-path", "pdu": k.name, "seed": ctx.seed * 16 + j}
            ctx.case(("error-path", k.name, spec["seed"]), nontrivial=True)
            ctx.count("error-path:probe")
            error_path_probe(ctx, spec, ks)
    toks = token_dictionary()
    ctx.count("token:dictionary-size", len(toks))
    # results of the whole run are held and re-verified after every kind and at the end
    ctx.hold = Holder(every=5, cap=ctx.budget(6000, 40000))
    held_elements = alias_elements(ctx, ks)
    # ---- corpus
    for kname, vname, vals in CORPUS:
        k = ks.get(kname)
        if k is None:
            continue
        var = next(v for v in k.variants if v.name == vname)
        full = var.random_vals(ctx.rng)
        full.update(vals)
        pairs = []
        run_fields_case(ctx, k, var, full, pairs, ("corpus", kname, vname, json.dumps(full, sort_keys=True)))
        if not ctx.search_only and ctx.driver_ok and pairs:
            ctx.correspond(f"{kname}.enc", pairs)
    # ---- per kind
    for k in ks.values():
        alias_pdus(ctx, k, ks)
        enc_pairs = []
        n_random = ctx.budget(200, 2000)
        reps = ctx.budget(2, 8)
        for var in k.variants:
            first = True
            for fname, spec in var.fields:
                for sv in spec.specials(ctx.rng):
                    for _ in range(reps):
                        vals = var.random_vals(ctx.rng)
                        vals[fname] = sv
                        if var.fix:
                            vals = var.fix(vals)
                        run_fields_case(ctx, k, var, vals, enc_pairs, (k.name, var.name, json.dumps(vals, sort_keys=True)),
                                        sample={"kind": k.name, "variant": var.name, "fields": vals} if first else None)
                        first = False
            for _ in range(n_random):
                vals = var.random_vals(ctx.rng)
                run_fields_case(ctx, k, var, vals, enc_pairs, (k.name, var.name, json.dumps(vals, sort_keys=True)))
        if not ctx.search_only and ctx.driver_ok and enc_pairs:
            ctx.correspond(f"{k.name}.enc", enc_pairs)
        # special tokens at every octet offset of every opaque field x selector values
        tok_pairs, tok_dec_pairs = [], []
        for var in k.variants:
            for desc, vals, tcls in token_field_cases(ctx, var, ctx.rng, toks):
                ctx.count(f"token:{tcls}")
                ctx.count(f"token-field:{k.name}.{var.name}.{desc[0]}")
                run_fields_case(ctx, k, var, vals, tok_pairs, ("tok", k.name, var.name, desc, json.dumps(vals, sort_keys=True)),
                                sample={"kind": k.name, "variant": var.name, "token": desc[1], "bit_offset": desc[2], "fields": vals}
                                if (k.name, var.name, desc[1], desc[2], desc[3]) == ("flc", "talkerAliasHeader", "fffe", 8, 0) else None,
                                dec_pairs=tok_dec_pairs)
        if not ctx.search_only and ctx.driver_ok and tok_pairs:
            ctx.correspond(f"{k.name}.enc(tokens)", tok_pairs)
            seen_dec = set()
            tok_dec_pairs = [x for x in tok_dec_pairs if not (x[0] in seen_dec or seen_dec.add(x[0]))]
            ctx.correspond(f"{k.name}.dec(tokens)", tok_dec_pairs)
        # ---- round 3: constructor arguments the variant does not carry / the other accepted argument type / equal fields /
        # check fields that are a transform of the right value — same oracle, both directions of the correspondence
        r3_pairs, r3_dec, r3_attr = [], [], []
        kn = k.name.split(".")[0]
        import re as _re

        for var in k.variants:
            if var.cls is not None:
                for desc, vals, opts in ignored_cases(ctx, k, var, ctx.rng):
                    if zero_crc9_quirk(k, var, vals, opts):
                        ctx.count("ignored:skipped:computed-crc9-is-zero-with-crc32-on-a-non-last-block")
                        continue
                    ctx.count(f"ignored:{desc[0]}:{kn}")
                    run_fields_case(ctx, k, var, vals, r3_pairs, ("ign", k.name, var.name, json.dumps([vals, opts], sort_keys=True)),
                                    sample={"kind": k.name, "variant": var.name, "fields": vals, "options": opts}
                                    if (k.name, var.name, desc) == ("dh", "shortDataDefined", ("all", "zero", "max", 0)) else None,
                                    dec_pairs=r3_dec, opts=opts, attr_pairs=r3_attr)
                for desc, vals, opts in alt_cases(ctx, k, var, ctx.rng):
                    ctx.count(f"alt-type:{kn}")
                    run_fields_case(ctx, k, var, vals, r3_pairs, ("alt", k.name, var.name, json.dumps([vals, opts], sort_keys=True)),
                                    dec_pairs=r3_dec, opts=opts, attr_pairs=r3_attr)
            for desc, vals in equal_pair_cases(ctx, var, ctx.rng):
                ctx.count(f"equal-fields:{kn}")
                run_fields_case(ctx, k, var, vals, r3_pairs, ("eq", k.name, var.name, json.dumps(vals, sort_keys=True)), dec_pairs=r3_dec,
                                attr_pairs=r3_attr)
            if k.name == "udp":
                for nbits in (8 * 1500, 8 * ctx.budget(4096, 65507)):
                    vals = fill(var, ctx.rng, "random")
                    vals["ud"] = rand_bits(ctx.rng, nbits)
                    ctx.count("scale:udp-user-data-bits", nbits)
                    run_fields_case(ctx, k, var, vals, r3_pairs, ("scale", k.name, var.name, nbits, vals["ud"][:64]), dec_pairs=r3_dec)
            for desc, vals in embedded_crc_cases(ctx, k, var, ctx.rng):
                ctx.count(f"embedded-crc:{kn}")
                run_fields_case(ctx, k, var, vals, r3_pairs, ("emb", k.name, var.name, json.dumps(vals, sort_keys=True)), dec_pairs=r3_dec)
            # round 4: arithmetic relations among >= 3 fields / words of the PDU, one and two at a time
            for desc, vals, labels in relation_cases(ctx, k, var, ctx.rng):
                for lb in labels:
                    ctx.count(lb)
                ctx.count(f"relation-cases:{kn}")
                smp = None
                if (k.name, var.name, desc[0]) == ("flc", "unitToUnit", "rel2") and not getattr(ctx, "_rel_sampled", False):
                    ctx._rel_sampled = True
                    smp = {"kind": k.name, "variant": var.name, "relation": list(desc[1:]), "fields": vals}
                run_fields_case(ctx, k, var, vals, r3_pairs, ("rel", k.name, var.name, desc, json.dumps(vals, sort_keys=True)), sample=smp,
                                dec_pairs=r3_dec, opts={"relation": list(desc[1:])} if var.cls is not None else None)
            for cf in k.check:
                for desc, vals, tl in check_field_cases(ctx, k, var, cf, ctx.rng):
                    ctx.count("check:" + _re.sub(r"\d+", "N", tl))
                    ctx.count(f"check-field:{kn}.{var.name}")
                    run_fields_case(ctx, k, var, vals, r3_pairs, ("chk", k.name, var.name, json.dumps(vals, sort_keys=True)),
                                    sample={"kind": k.name, "variant": var.name, "check_field": desc[2], "fields": vals}
                                    if (k.name, var.name, desc[1], desc[2], desc[3]) == ("csbk", "hyteraIpscSync", "library", "octets-reversed", 0) else None,
                                    dec_pairs=r3_dec)
        if not ctx.search_only and ctx.driver_ok and r3_pairs:
            ctx.correspond(f"{k.name}.enc(round 3)", r3_pairs)
            seen_dec = set()
            r3_dec = [x for x in r3_dec if not (x[0] in seen_dec or seen_dec.add(x[0]))]
            ctx.correspond(f"{k.name}.dec(round 3)", r3_dec)
            if r3_attr:
                ctx.correspond(f"{k.name}.encattrs", r3_attr)
        # rate-coded blocks: convert(new type) — used by the burst parser's clients (C01, C07)
        if getattr(k, "rate", None) and not ctx.search_only and ctx.driver_ok:
            cname, tname, members = k.rate
            conv = []
            var = k.variants[0]
            for _ in range(ctx.budget(15, 600)):
                vals = var.random_vals(ctx.rng)
                p, err = call(var.build, vals)
                if err:
                    continue
                for t2 in RATE_TYPES + ["undefined"]:
                    q, err = call(p.convert, members[t2])
                    if err:
                        out = err
                    else:
                        e1, err = call(q.as_bits)
                        out = err or f"ok {k.fmt(q)} {sbits(e1)}"
                    conv.append((f"rate.convert {cname} {tname} {vals['data'] or '-'} {vals.get('dbsn', 0)} {vals.get('crc9', 0)} {vals.get('crc32', 0)} {t2}", out))
                    ctx.case((k.name, "convert", json.dumps(vals, sort_keys=True), t2))
                    # the property for convert: converting to the own type is the identity
                    if t2 == tname and not err:
                        d = diff_attrs(attrs(p), attrs(q))
                        if d:
                            ctx.fail("convert-own-type", {"kind": k.name, "variant": var.name, "mode": "fields", "fields": vals},
                                     f"{k.name}: convert to the block's own type changes {d}")
            ctx.correspond(f"{k.name}.convert", conv)
        # decode side
        dec_pairs = []
        n_bits = (ctx.budget(*k.n_bits) if k.n_bits else ctx.budget(3000, 100000)) if k.length is None or k.length > 8 else 256
        seen = set()
        seeds = []
        if k.length == 8:
            seeds = [int2ba(v, length=8) for v in range(256)]
        else:
            for _ in range(n_bits):
                seeds.append(k.bit_seeds(ctx.rng))
            # single-bit mutations of valid encodings
            for line, bits in enc_pairs[: ctx.budget(300, 3000)]:
                bits = bits.split(" ")[-1]
                if bits.startswith("ERR"):
                    continue
                b = bitarray(bits if bits != "-" else "")
                if len(b):
                    b.invert(ctx.rng.randrange(len(b)))
                    seeds.append(b)
        if k.length != 8:
            for desc, b, tcls in token_overlay_cases(ctx, k, ctx.rng, toks):
                ctx.count(f"token-overlay:{desc[0]}:{k.name}")
                seeds.append(b)
            for desc, b, labels in relation_overlay_cases(ctx, k, ctx.rng, variant_bases(k, ctx.rng, per_variant=2)):
                ctx.count(f"relation-overlay:{k.name}")
                seeds.append(b)
            for cf in k.check:
                bases = {}
                for vname, base in variant_bases(k, ctx.rng, per_variant=1):
                    bases.setdefault(vname, base)
                for desc, b, tl in check_field_decode_cases(ctx, k, cf, ctx.rng, list(bases.items())):
                    ctx.count(f"check-decode:{k.name}")
                    seeds.append(b)
        for b in seeds:
            s = sbits(b)
            if s in seen:
                continue
            seen.add(s)
            ctx.case((k.name, "bits", s), nontrivial=True, sample={"kind": k.name, "bits": s} if len(seen) == 1 else None)
            out = check_bits(ctx, k, b)
            dec_pairs.append((k.dec_line(s), out))
            if len(seen) % 16 == 1 and len(b):
                provenance_probe(ctx, k, bitarray(b))
        if not ctx.search_only and ctx.driver_ok and dec_pairs:
            ctx.correspond(f"{k.name}.dec", dec_pairs)
        # wrong lengths: outside the property (no oracle), the model must reject what the code rejects
        if not ctx.search_only and ctx.driver_ok:
            wl = []
            L = k.length or 96
            for n in sorted({0, 1, L - 1, L + 1, L + 8, 36, 77, 96, 144, 192} - {L}):
                if k.name == "dh" and n < 96:
                    continue  # DataHeader.from_bits has no length check: model answers 'other' (documented)
                for _ in range(2):
                    b = k.bit_seeds(ctx.rng)
                    b = (b + int2ba(ctx.rng.getrandbits(200), length=200))[:n] if n else bitarray()
                    if k.name == "udp":
                        b = int2ba(ctx.rng.getrandbits(n), length=n) if n else bitarray()
                    o, err = call(k.from_bits, bitarray(b))
                    if err:
                        out = err
                    else:
                        e1, err = call(o.as_bits)
                        out = err or f"ok {k.fmt(o)} {sbits(e1)}"
                    wl.append((k.dec_line(sbits(b)), out))
            ctx.correspond(f"{k.name}.dec(wrong length)", wl)
        ctx.hold.verify(ctx)
    ctx.hold.verify(ctx)
    alias_elements_final(ctx, held_elements)
    # ---- generic history / object-identity probes
    import histories

    histories.run(ctx, ENTRY_POINTS)
    # ---- ambient interpreter / process state
    base, base_el = ambient_probe(ctx, ks, ctx.seed)
    ambient_children(ctx, ctx.seed, digest([base, base_el]), {n: digest(o) for n, o in zip(sorted(ks), base)})


def model_says(prop, line):
    """answer of the compiled model for one line (best effort, for replay output only)"""
    import os
    import subprocess

    exe = os.path.join(os.path.dirname(os.path.abspath(__file__)), "..", "..", "lean", ".lake", "build", "bin", f"drv_{prop.lower()}")
    try:
        return subprocess.run([exe], input=line + "\n", capture_output=True, text=True, timeout=60).stdout.strip()
    except Exception as e:  # noqa
        return f"(model driver not available: {e})"


ReplayCtx = SubCtx


def mini_sweep(r, ks, n=25):
    """a fixed small sweep over every kind (the 'other calls' of a held-result replay)"""
    import random

    rng = random.Random(0)
    sub = SubCtx()
    for k in ks.values():
        for var in k.variants:
            for _ in range(n):
                check_fields(sub, k, var, var.random_vals(rng))
        for _ in range(n):
            check_bits(sub, k, k.bit_seeds(rng))


def replay_alias(r, inp, ks):
    probe = inp.get("probe")
    if probe == "element":
        probe_element(r, inp, ks)
    elif probe == "pdu":
        probe_pdu(r, inp, ks)
    elif probe == "provenance":
        k = ks.get(inp.get("pdu"))
        if k is not None:
            provenance_probe(r, k, bitarray(inp["bits"] if inp["bits"] != "-" else ""))
    elif probe == "error-path":
        error_path_probe(r, inp, ks)
    elif probe == "ambient":
        ambient_probe(r, ks, inp.get("seed", 0))
    elif probe == "ambient-child":
        base, base_el = ambient_sample(ks, inp.get("seed", 0)), ambient_elements()
        ambient_children(r, inp.get("seed", 0), digest([base, base_el]), {n: digest(o) for n, o in zip(sorted(ks), base)})
    elif probe == "element-held":
        held = alias_elements(r, ks)
        mini_sweep(r, ks)
        alias_elements_final(r, held)
    elif probe == "held":
        first = inp.get("first") or {}
        k = ks.get(first.get("kind"))
        if k is None:
            print("unknown kind", first.get("kind"))
            return
        h = Holder(1, 16)
        r.hold = h
        if first.get("mode") == "fields":
            check_fields(r, k, next(v for v in k.variants if v.name == first["variant"]), first["fields"], opts=first.get("options"))
        else:
            check_bits(r, k, bitarray(first["bits"] if first["bits"] != "-" else ""))
        r.hold = None
        mini_sweep(r, ks)
        h.verify(r)


def replay(obj):
    f = obj.get("failure") or {}
    inp = f.get("input") or {}
    print(json.dumps(obj.get("type")), f.get("what"))
    if not inp:
        print("no failing input recorded (proof / correspondence broke):", json.dumps(obj.get("no_longer_checks") or obj.get("correspondence_differences"))[:2000])
        return 1
    if str(f.get("kind", "")).startswith("history:"):
        import histories

        return histories.replay(inp, ENTRY_POINTS)
    r = ReplayCtx()
    if inp.get("kind") == "element":
        line = f"elem {inp['element']} {inp['value']}"
        if inp["element"] == "FragmentSequenceNumber":
            out = check_fsn_value(r, inp["value"])
        else:
            out = "unknown element"
            for lname, cls, w in element_classes():
                if cls.__name__ == inp["element"]:
                    out = check_element_value(r, cls, w, inp["value"])
        print("implementation:", out)
        print("model         :", model_says(PROP, line))
    elif inp.get("kind") == "alias":
        replay_alias(r, inp, {k.name: k for k in kinds()})
    elif inp.get("kind") == "talker-alias-text":
        from okdmr.dmrlib.etsi.layer3.elements.talker_alias_data_format import TalkerAliasDataFormat as T

        name, _top, ref = TA_CODECS[inp["format"]]
        s_ = "".join(chr(c) for c in inp["text"])
        raw, err = call(T(inp["format"]).encode, s_)
        back, err2 = (None, None) if err else call(T(inp["format"]).decode, raw)
        print(f"implementation: {name}.encode -> {err or bytes(raw).hex()}; decode -> {err2 or (back is not None and [ord(c) for c in back])}")
        print(f"expected      : {ref(s_).hex()}; {inp['text']}")
        if err or err2 or raw != ref(s_) or back != s_:
            r.fail("talker-alias-text", inp, "text codec of the talker alias format differs", ref(s_).hex(), err or bytes(raw).hex())
    elif inp.get("mode") == "unimplemented":
        import random as _random

        ks = {k.name: k for k in kinds()}
        if inp.get("kind") in ks:
            unimplemented_selector_cases(r, ks[inp["kind"]], _random.Random(0), implemented_members(ks, _random.Random(1)))
    elif inp.get("mode") == "gps-float":
        w, n = inp["width"], inp["raw"]
        step = 360 / 2**25 if w == 25 else 180 / 2**24
        back = int((step * n) / step)
        print(f"implementation: raw {n} -> {step * n!r} -> {back}")
        if back != n:
            r.fail("gps-float-inexact", inp, "float step inexact", n, back)
    else:
        ks = {k.name: k for k in kinds()}
        k = ks.get(inp.get("kind"))
        if k is None:
            print("unknown kind", inp.get("kind"))
            return 1
        if inp.get("mode") == "fields":
            var = next(v for v in k.variants if v.name == inp["variant"])
            res = check_fields(r, k, var, inp["fields"], opts=inp.get("options"))
            if res:
                print("implementation as_bits:", sbits(res[3]))
                print("model line            :", res[0])
                print("model                 :", model_says(PROP, res[0]))
        else:
            b = bitarray(inp["bits"] if inp["bits"] != "-" else "")
            print("implementation from_bits:", check_bits(r, k, b))
            print("model                   :", model_says(PROP, k.dec_line(inp["bits"])))
    for kind, what, exp, act in r.failures:
        print("STILL FAILS:", kind, what, "expected:", exp, "actual:", act)
    if not r.failures:
        print("the recorded input no longer fails on this tree")
    return 1 if r.failures else 0


if __name__ == "__main__":
    import os
    import sys

    sys.path.insert(0, os.path.dirname(os.path.dirname(os.path.abspath(__file__))))
    if len(sys.argv) >= 4 and sys.argv[1] == "--child":
        sys.exit(child_main(sys.argv[2:]))
