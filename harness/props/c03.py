"""C03 — layer-2/3 PDUs and information elements survive encode-decode (DESIGN §5 C03).

Oracle (on the real code, per PDU kind X):
  fields -> p = X(...);  bits = p.as_bits();  len(bits) == L;  q = X.from_bits(bits);
            every attribute of q equals the attribute of p (all attributes, not only the variant's);
            q.as_bits() == bits
  bits   -> X.from_bits(b) raises one of the documented errors, or returns o with e = o.as_bits(),
            len(e) == L, o2 = X.from_bits(e): attributes(o2) == attributes(o) and o2.as_bits() == e
  element-> E(v) for every v < 2^w: never "nothing", defined -> itself, folded -> a defined member that
            maps to itself, or ValueError
Correspondence (model vs code): `x.enc <fields>` -> bits, `x.dec <bits>` -> fields + re-encoded bits or
error kind, `elem <E> <v>`.
The attributes crc_ok / crc9_ok are integrity indicators (property C04) and are not compared here.

Hardening (after the missed seeded changes C03-C, C03-D):
  special tokens -> token_dictionary(): BOMs, NUL runs, CR / LF forms, 7F/80 boundaries, all-ones, surrogates / invalid UTF-8,
            ASCII specials, protocol constants; written at EVERY octet offset (and right-aligned) of every opaque / text-like
            field of every variant, each placement crossed with every value of every selector field (covering_rows: pairwise in
            quick, complete cross product in thorough); 7-bit characters at every bit offset of the short payload fields;
            decode side: the tokens over valid encodings at every octet offset and at every bit offset.  Every such case goes
            through the same oracle (check_fields / check_bits) and both directions of the correspondence.
            Lean: Props/C03c (the decoder returns the received bits of the field verbatim, for every selector value).
  history -> the models are pure functions; that the code behaves like one is probed on the real code: for every element
            instance and every PDU variant as_bits / from_bits / as_bytes / from_bytes / convert are called twice (results must
            be distinct objects and must not be attributes of the object or the caller's argument), every result obtained is
            changed in place (MUT_OPS: += extend append item assignment invert clear setall slice assignment del reverse insert
            pop frombytes) and the call repeated twice more, PDUs that carry the element are round-tripped before and after,
            the argument of from_bits is left alone and changing it afterwards changes nothing, results are held while other
            calls are made / until the end of the run (Holder) and re-verified.  Failures carry the history as input
            ({"kind": "alias", "probe": ...}) and replay re-executes it.
"""
import json
import math

from bitarray import bitarray
from bitarray.util import int2ba, ba2int

from common import impl_error

PROP = "C03"
MODULES = ["C03", "C03a", "C03b", "C03c"]
GEN = ["Elements"]
MATCHERS = {}

SKIP_ATTRS = ("crc_ok", "crc9_ok")


# ------------------------------------------------------------------------------------------------
# canonical forms
def canon(v):
    import enum

    if isinstance(v, bool):
        return int(v)
    if isinstance(v, enum.Enum):
        return ["E", type(v).__name__, v.value if not isinstance(v.value, tuple) else list(v.value)]
    if isinstance(v, bitarray):
        return "b" + v.to01()
    if isinstance(v, (bytes, bytearray)):
        return "x" + bytes(v).hex()
    if isinstance(v, float):
        return ["F", v.hex()]
    if isinstance(v, int) or v is None or isinstance(v, str):
        return v
    if isinstance(v, (list, tuple)):
        return [canon(x) for x in v]
    if hasattr(v, "__dict__"):
        return {k: canon(x) for k, x in sorted(vars(v).items()) if k not in SKIP_ATTRS}
    return repr(type(v))


def attrs(o):
    return {k: canon(x) for k, x in sorted(vars(o).items()) if k not in SKIP_ATTRS}


def diff_attrs(a, b):
    return sorted(k for k in set(a) | set(b) if a.get(k, "<absent>") != b.get(k, "<absent>"))


def b01(x):
    return "1" if x else "0"


def sbits(b):
    s = b.to01() if isinstance(b, bitarray) else b
    return s if s else "-"


def shex(b):
    return bytes(b).hex() if len(b) else "-"


# ------------------------------------------------------------------------------------------------
# type-directed field specs; values live in a JSON-able "plain" domain (int, '0101' strings, hex strings)
class U:
    """unsigned integer of w bits"""

    def __init__(self, w, extra=(), sel=None):
        self.w = w
        self.extra = tuple(extra)
        self.sel = sel  # values that select a branch of the codec (crossed with the token placements)

    def rand(self, rng):
        return rng.getrandbits(self.w)

    def specials(self, rng):
        return list(dict.fromkeys([0, (1 << self.w) - 1] + [1 << i for i in range(self.w)] + list(self.extra)))


class B(U):
    def __init__(self):
        super().__init__(1)


class E:
    """member value of an enum; `allowed` restricts to the members a PDU can carry"""

    def __init__(self, cls, allowed=None):
        self.cls = cls
        self.vals = [m.value for m in (allowed if allowed is not None else list(cls))]

    def rand(self, rng):
        return rng.choice(self.vals)

    def specials(self, rng):
        return list(self.vals)


class BITS:
    def __init__(self, n):
        self.n = n

    def rand(self, rng):
        return int2ba(rng.getrandbits(self.n), length=self.n).to01() if self.n else ""

    def specials(self, rng):
        n = self.n
        out = ["0" * n, "1" * n] + [("0" * i + "1" + "0" * (n - i - 1)) for i in range(n)]
        return list(dict.fromkeys(out))


class BYTES:
    def __init__(self, n):
        self.n = n

    def rand(self, rng):
        return rng.getrandbits(8 * self.n).to_bytes(self.n, "big").hex() if self.n else ""

    def specials(self, rng):
        n = self.n
        out = ["00" * n, "ff" * n]
        for i in range(0, 8 * n, max(1, (8 * n) // 16)):
            out.append((1 << i).to_bytes(n, "big").hex())
        return list(dict.fromkeys(out))


class S:
    """signed integer of w bits (two's complement range)"""

    def __init__(self, w):
        self.w = w

    def rand(self, rng):
        return rng.randrange(-(1 << (self.w - 1)), 1 << (self.w - 1))

    def specials(self, rng):
        w = self.w
        out = [0, -1, 1, (1 << (w - 1)) - 1, -(1 << (w - 1)), -(1 << (w - 1)) + 1]
        out += [1 << i for i in range(w - 1)] + [-(1 << i) for i in range(w - 1)]
        return list(dict.fromkeys(out))


class Variant:
    def __init__(self, kind, name, fields, build, length=None, fix=None):
        self.kind = kind
        self.name = name
        self.fields = fields  # [(plain field name, spec)]
        self.build = build  # plain dict -> object
        self.length = length  # plain dict -> expected serialised length (default: kind.length)
        self.fix = fix  # plain dict -> plain dict: re-establish cross-field constraints after a special value was set

    def random_vals(self, rng):
        return {n: s.rand(rng) for n, s in self.fields}


class Kind:
    """one PDU class: variants, decoder, canonical field text, documented decode errors"""

    def __init__(self, name, length, from_bits, fmt, errors, variants=None, bit_seeds=None, extra_check=None,
                 dec_line=None, enc_line=None, enc_out=None, n_bits=None):
        self.dec_line = dec_line or (lambda s: f"{name}.dec {s}")
        self.enc_line = enc_line or (lambda p, vals: f"{name}.enc {fmt(p, vals.get('crc'))}")
        self.enc_out = enc_out or (lambda p, bits: sbits(bits))
        self.n_bits = n_bits
        self.name = name
        self.length = length  # serialised length (None: variable)
        self.from_bits = from_bits
        self.fmt = fmt  # object -> canonical field text (same text the driver prints / parses)
        self.errors = set(errors)
        self.variants = variants or []
        self.bit_seeds = bit_seeds  # rng -> structured 'random' right-length bit string
        self.extra_check = extra_check  # object -> None | str   (e.g. unrelated attributes at default)


# ------------------------------------------------------------------------------------------------
# ServiceOptions + CSBK
def so_fields(prefix="so_"):
    return [
        (prefix + "e", B()),
        (prefix + "p", B()),
        (prefix + "r", BITS(2)),
        (prefix + "b", B()),
        (prefix + "o", B()),
        (prefix + "pl", U(2)),
    ]


def so_build(v, prefix="so_"):
    from okdmr.dmrlib.etsi.layer3.elements.service_options import ServiceOptions

    return ServiceOptions(
        is_emergency=v[prefix + "e"],
        is_privacy=v[prefix + "p"],
        reserved=bitarray(v[prefix + "r"]),
        is_broadcast=v[prefix + "b"],
        is_open_voice_call_mode=v[prefix + "o"],
        priority_level=v[prefix + "pl"],
    )


def so_args(s):
    return [b01(s.is_emergency), b01(s.is_privacy), sbits(s.reserved), b01(s.is_broadcast), b01(s.is_open_voice_call_mode), str(s.priority_level)]


def mk_so_kind():
    from okdmr.dmrlib.etsi.layer3.elements.service_options import ServiceOptions

    k = Kind("so", 8, ServiceOptions.from_bits, lambda s, crc=None: ",".join(so_args(s)), errors=["AssertionError"])
    k.variants = [Variant(k, "so", so_fields(), so_build)]
    k.bit_seeds = lambda rng: int2ba(rng.getrandbits(8), length=8)
    return k


def mk_csbk_kind():
    from okdmr.dmrlib.etsi.layer2.pdu.csbk import CSBK
    from okdmr.dmrlib.etsi.layer2.elements.csbk_opcodes import CsbkOpcodes as O
    from okdmr.dmrlib.etsi.layer2.elements.feature_set_ids import FeatureSetIDs
    from okdmr.dmrlib.etsi.layer3.elements.additional_information_field import AdditionalInformationField
    from okdmr.dmrlib.etsi.layer3.elements.announcement_type import AnnouncementType
    from okdmr.dmrlib.etsi.layer3.elements.answer_response import AnswerResponse
    from okdmr.dmrlib.etsi.layer3.elements.channel_timing_opcode import ChannelTimingOpcode
    from okdmr.dmrlib.etsi.layer3.elements.dynamic_identifier import DynamicIdentifier
    from okdmr.dmrlib.etsi.layer3.elements.random_access_service_function import RandomAccessServiceFunction
    from okdmr.dmrlib.etsi.layer3.elements.reason_code import ReasonCode
    from okdmr.dmrlib.etsi.layer3.elements.source_type import SourceType

    hdr = [("lb", B()), ("pf", B()), ("fid", E(FeatureSetIDs)), ("crc", U(16))]

    def common(v, op):
        return dict(
            csbko=op,
            last_block=v["lb"],
            protect_flag=v["pf"],
            manufacturers_feature_set_id=FeatureSetIDs(v["fid"]),
            crc=v["crc"],
        )

    # (variant name, opcode, fields, constructor kwargs from plain values, attribute names carried)
    table = [
        ("bsDwnAct", O.BSOutboundActivation, [("bs", U(24)), ("src", U(24))],
         lambda v: dict(bs_address=v["bs"], source_address=v["src"]),
         lambda o: [o.bs_address, o.source_address], ["bs_address", "source_address"]),
        ("uuVReq", O.UnitToUnitVoiceServiceRequest, so_fields() + [("tgt", U(24)), ("src", U(24))],
         lambda v: dict(service_options=so_build(v), target_address=v["tgt"], source_address=v["src"]),
         lambda o: so_args(o.service_options) + [o.target_address, o.source_address],
         ["service_options", "target_address", "source_address"]),
        ("uuAnsRsp", O.UnitToUnitVoiceServiceAnswerResponse,
         so_fields() + [("ar", E(AnswerResponse)), ("tgt", U(24)), ("src", U(24))],
         lambda v: dict(service_options=so_build(v), answer_response=AnswerResponse(v["ar"]), target_address=v["tgt"], source_address=v["src"]),
         lambda o: so_args(o.service_options) + [o.answer_response.value, o.target_address, o.source_address],
         ["service_options", "answer_response", "target_address", "source_address"]),
        ("nackRsp", O.NegativeAcknowledgementResponse,
         [("aif", E(AdditionalInformationField)), ("st", E(SourceType)), ("svc", E(O)), ("rc", E(ReasonCode)), ("src", U(24)), ("tgt", U(24))],
         lambda v: dict(additional_information_field=AdditionalInformationField(v["aif"]), source_type=SourceType(v["st"]),
                        service_type=O(v["svc"]), reason_code=ReasonCode(v["rc"]), source_address=v["src"], target_address=v["tgt"]),
         lambda o: [o.additional_information_field.value, o.source_type.value, o.service_type.value, o.reason_code.value, o.source_address, o.target_address],
         ["additional_information_field", "source_type", "service_type", "reason_code", "source_address", "target_address"]),
        ("preamble", O.PreambleCSBK, [("cf", B()), ("ind", B()), ("btf", U(8)), ("tgt", U(24)), ("src", U(24))],
         lambda v: dict(csbk_content_follows_preambles=v["cf"], target_address_is_individual=v["ind"], blocks_to_follow=v["btf"],
                        target_address=v["tgt"], source_address=v["src"]),
         lambda o: [b01(o.csbk_content_follows_preambles), b01(o.target_address_is_individual), o.blocks_to_follow, o.target_address, o.source_address],
         ["csbk_content_follows_preambles", "target_address_is_individual", "blocks_to_follow", "target_address", "source_address"]),
        ("channelTiming", O.ChannelTimingCSBK,
         [("age", U(11)), ("gen", U(5)), ("lid", U(20)), ("nl", U(1)), ("ldi", E(DynamicIdentifier)), ("cto", E(ChannelTimingOpcode)),
          ("sid", U(20)), ("sdi", E(DynamicIdentifier))],
         lambda v: dict(sync_age=v["age"], generation=v["gen"], leader_identifier=v["lid"], new_leader=v["nl"],
                        leader_dynamic_identifier=DynamicIdentifier(v["ldi"]), channel_timing_opcode=ChannelTimingOpcode(v["cto"]),
                        source_identifier=v["sid"], source_dynamic_identifier=DynamicIdentifier(v["sdi"])),
         lambda o: [o.sync_age, o.generation, o.leader_identifier, o.new_leader, o.leader_dynamic_identifier.value,
                    o.channel_timing_opcode.value, o.source_identifier, o.source_dynamic_identifier.value],
         ["sync_age", "generation", "leader_identifier", "new_leader", "leader_dynamic_identifier", "channel_timing_opcode",
          "source_identifier", "source_dynamic_identifier"]),
        ("hyteraIpscSync", O.HyteraIPSCSync, [("raw", BYTES(8))],
         lambda v: dict(raw_data=bytes.fromhex(v["raw"])),
         lambda o: [shex(o.raw_data)], ["raw_data"]),
        ("aloha", O.AlohaPDUsForRandomAccessProtocol,
         [("tsccas", B()), ("sync", B()), ("dvc", U(3)), ("off", B()), ("act", B()), ("mask", U(5)), ("sf", E(RandomAccessServiceFunction)),
          ("nrand", U(4)), ("reg", B()), ("backoff", U(4)), ("sys", U(16)), ("tgt", U(24))],
         lambda v: dict(tsccas_support=bool(v["tsccas"]), site_timeslot_synchronized=bool(v["sync"]), document_version_control=v["dvc"],
                        tscc_is_offset_timing=bool(v["off"]), ts_active_connection=bool(v["act"]), aloha_mask=v["mask"],
                        service_function=RandomAccessServiceFunction(v["sf"]), nrand_wait=v["nrand"], tscc_reg_required=bool(v["reg"]),
                        tscc_backoff=v["backoff"], system_identity_code=v["sys"], target_address=v["tgt"]),
         lambda o: [b01(o.tsccas_support), b01(o.site_timeslot_synchronized), o.document_version_control, b01(o.tscc_is_offset_timing),
                    b01(o.ts_active_connection), o.aloha_mask, o.service_function.value, o.nrand_wait, b01(o.tscc_reg_required),
                    o.tscc_backoff, o.system_identity_code, o.target_address],
         ["tsccas_support", "site_timeslot_synchronized", "document_version_control", "tscc_is_offset_timing", "ts_active_connection",
          "aloha_mask", "service_function", "nrand_wait", "tscc_reg_required", "tscc_backoff", "system_identity_code", "target_address"]),
        ("broadcast", O.AnnouncementPDUsWithoutResponse,
         [("at", E(AnnouncementType)), ("params", BITS(38)), ("reg", B()), ("backoff", U(4)), ("sys", U(16))],
         lambda v: dict(announcement_type=AnnouncementType(v["at"]), broadcast_params=bitarray(v["params"]), tscc_reg_required=bool(v["reg"]),
                        tscc_backoff=v["backoff"], system_identity_code=v["sys"]),
         lambda o: [o.announcement_type.value, sbits(o.broadcast_params), b01(o.tscc_reg_required), o.tscc_backoff, o.system_identity_code],
         ["announcement_type", "broadcast_params", "tscc_reg_required", "tscc_backoff", "system_identity_code"]),
    ]
    by_op = {t[1]: t for t in table}
    defaults = {}

    def fmt(o, crc=None):
        t = by_op[o.csbko]
        return " ".join([b01(o.last_block), b01(o.protect_flag), str(o.feature_set.value), str(o.crc if crc is None else crc), t[0],
                         ",".join(str(x) for x in t[4](o))])

    def extra(o):
        t = by_op.get(o.csbko)
        if t is None:
            return None
        if o.csbko not in defaults:
            defaults[o.csbko] = attrs(CSBK(csbko=o.csbko, crc=1))
        d = defaults[o.csbko]
        a = attrs(o)
        keep = set(t[5]) | {"last_block", "protect_flag", "csbko", "feature_set", "crc"}
        bad = [k for k in a if k not in keep and a[k] != d.get(k)]
        return ("non-default unrelated attributes " + ",".join(bad)) if bad else None

    k = Kind("csbk", 96, CSBK.from_bits, fmt, errors=["ValueError", "NotImplementedError"], extra_check=extra)
    for name, op, fields, kw, _a, _n in table:
        k.variants.append(
            Variant(k, name, hdr + fields, (lambda v, op=op, kw=kw: CSBK(**common(v, op), **kw(v))))
        )
    ops = [t[1].value for t in table]

    def seeds(rng):
        b = int2ba(rng.getrandbits(96), length=96)
        r = rng.random()
        if r < 0.75:
            b[2:8] = int2ba(rng.choice(ops), length=6)
        elif r < 0.85:
            b[2:8] = int2ba(rng.choice([m.value for m in O]), length=6)
        op = ba2int(b[2:8])
        if rng.random() < 0.6:
            # make the inner enumerations valid more often than 1/256
            if op == O.UnitToUnitVoiceServiceAnswerResponse.value:
                b[24:32] = int2ba(rng.choice([0x20, 0x21]), length=8)
            if op == O.NegativeAcknowledgementResponse.value:
                b[24:32] = int2ba(0x21, length=8)
                b[18:24] = int2ba(rng.choice([m.value for m in O]), length=6)
        if rng.random() < 0.15:
            b[80:96] = 0
        return b

    k.bit_seeds = seeds
    return k


class UNZ(U):
    """unsigned integer of w bits, never 0"""

    def rand(self, rng):
        return rng.randrange(1, 1 << self.w)

    def specials(self, rng):
        return [v for v in super().specials(rng) if v != 0]


class VBITS:
    """bit string of variable length 0..n"""

    def __init__(self, n):
        self.n = n

    def rand(self, rng):
        k = rng.randrange(self.n + 1)
        return int2ba(rng.getrandbits(k), length=k).to01() if k else ""

    def specials(self, rng):
        return ["", "0", "1", "0" * self.n, "1" * self.n, "1" + "0" * (self.n - 1)]


class CHOICE:
    def __init__(self, spec_a, spec_b):
        self.a, self.b = spec_a, spec_b

    def rand(self, rng):
        return (self.a if rng.random() < 0.5 else self.b).rand(rng)

    def specials(self, rng):
        return self.a.specials(rng) + self.b.specials(rng)


def cross_variant_defaults(kind, carried, rng_seed=0):
    """attribute -> value it has in an object of a variant that does not carry it (the constructor default)"""
    import random

    rng = random.Random(rng_seed)
    objs = {}
    for var in kind.variants:
        vals = var.random_vals(rng)
        if var.fix:
            vals = var.fix(vals)
        objs[var.name] = attrs(var.build(vals))
    d = {}
    for vname, a in objs.items():
        for k, v in a.items():
            if k not in carried[vname] and k not in d:
                d[k] = v
    return d


def mk_dh_kind():
    from okdmr.dmrlib.etsi.layer2.pdu.data_header import DataHeader
    from okdmr.dmrlib.etsi.layer2.elements.data_packet_formats import DataPacketFormats as D
    from okdmr.dmrlib.etsi.layer2.elements.sap_identifier import SAPIdentifier
    from okdmr.dmrlib.etsi.layer2.elements.full_message_flag import FullMessageFlag
    from okdmr.dmrlib.etsi.layer2.elements.resynchronize_flag import ResynchronizeFlag
    from okdmr.dmrlib.etsi.layer2.elements.defined_data_formats import DefinedDataFormats
    from okdmr.dmrlib.etsi.layer2.elements.sarq import SARQ
    from okdmr.dmrlib.etsi.layer2.elements.udt_format import UDTFormat
    from okdmr.dmrlib.etsi.layer2.elements.supplementary_flag import SupplementaryFlag
    from okdmr.dmrlib.etsi.layer2.elements.csbk_opcodes import CsbkOpcodes
    from okdmr.dmrlib.etsi.layer3.elements.udt_option_flag import UDTOptionFlag

    hdr = [("crc", BITS(16))]
    common_attrs = {"data_packet_format", "crc"}
    table = [
        ("confirmed", D.DataPacketConfirmed,
         [("G", B()), ("A", B()), ("poc", U(5)), ("sap", E(SAPIdentifier)), ("dst", U(24)), ("src", U(24)), ("fmf", E(FullMessageFlag)),
          ("btf", U(7)), ("rsf", E(ResynchronizeFlag)), ("ns", U(3)), ("fsn", U(4))],
         lambda v: dict(is_group=v["G"], is_response_requested=v["A"], pad_octet_count=v["poc"], sap_identifier=SAPIdentifier(v["sap"]),
                        llid_destination=v["dst"], llid_source=v["src"], full_message_flag=FullMessageFlag(v["fmf"]), blocks_to_follow=v["btf"],
                        resynchronize_flag=ResynchronizeFlag(v["rsf"]), send_sequence_number=v["ns"], fragment_sequence_number=v["fsn"]),
         lambda o: [b01(o.is_group), b01(o.is_response_requested), o.pad_octet_count, o.sap_identifier.value, o.llid_destination, o.llid_source,
                    o.full_message_flag.value, o.blocks_to_follow, o.resynchronize_flag.value, o.send_sequence_number, o.fragment_sequence_number.value],
         ["is_group", "is_response_requested", "pad_octet_count", "sap_identifier", "llid_destination", "llid_source", "full_message_flag",
          "blocks_to_follow", "resynchronize_flag", "send_sequence_number", "fragment_sequence_number"]),
        ("unconfirmed", D.DataPacketUnconfirmed,
         [("G", B()), ("A", B()), ("poc", U(5)), ("sap", E(SAPIdentifier)), ("dst", U(24)), ("src", U(24)), ("fmf", E(FullMessageFlag)),
          ("btf", U(7)), ("fsn", U(4))],
         lambda v: dict(is_group=v["G"], is_response_requested=v["A"], pad_octet_count=v["poc"], sap_identifier=SAPIdentifier(v["sap"]),
                        llid_destination=v["dst"], llid_source=v["src"], full_message_flag=FullMessageFlag(v["fmf"]), blocks_to_follow=v["btf"],
                        fragment_sequence_number=v["fsn"]),
         lambda o: [b01(o.is_group), b01(o.is_response_requested), o.pad_octet_count, o.sap_identifier.value, o.llid_destination, o.llid_source,
                    o.full_message_flag.value, o.blocks_to_follow, o.fragment_sequence_number.value],
         ["is_group", "is_response_requested", "pad_octet_count", "sap_identifier", "llid_destination", "llid_source", "full_message_flag",
          "blocks_to_follow", "fragment_sequence_number"]),
        ("response", D.ResponsePacket,
         [("A", B()), ("sap", E(SAPIdentifier)), ("dst", U(24)), ("src", U(24)), ("fmf", E(FullMessageFlag)), ("btf", U(7)),
          ("cls", U(2)), ("typ", U(3)), ("status", U(3))],
         lambda v: dict(is_response_requested=v["A"], sap_identifier=SAPIdentifier(v["sap"]), llid_destination=v["dst"], llid_source=v["src"],
                        full_message_flag=FullMessageFlag(v["fmf"]), blocks_to_follow=v["btf"], response_class=v["cls"], response_type=v["typ"],
                        response_status=v["status"]),
         lambda o: [b01(o.is_response_requested), o.sap_identifier.value, o.llid_destination, o.llid_source, o.full_message_flag.value,
                    o.blocks_to_follow, o.response_class, o.response_type, o.response_status],
         ["is_response_requested", "sap_identifier", "llid_destination", "llid_source", "full_message_flag", "blocks_to_follow",
          "response_class", "response_type", "response_status"]),
        ("shortDataDefined", D.ShortDataDefined,
         [("G", B()), ("A", B()), ("ab", U(6)), ("sap", E(SAPIdentifier)), ("dst", U(24)), ("src", U(24)), ("ddf", E(DefinedDataFormats)),
          ("sarq", E(SARQ)), ("fmf", E(FullMessageFlag)), ("pad", BITS(8))],
         lambda v: dict(is_group=v["G"], is_response_requested=v["A"], appended_blocks=v["ab"], sap_identifier=SAPIdentifier(v["sap"]),
                        llid_destination=v["dst"], llid_source=v["src"], defined_data_format=DefinedDataFormats(v["ddf"]), sarq=SARQ(v["sarq"]),
                        full_message_flag=FullMessageFlag(v["fmf"]), bit_padding=bitarray(v["pad"])),
         lambda o: [b01(o.is_group), b01(o.is_response_requested), o.appended_blocks, o.sap_identifier.value, o.llid_destination, o.llid_source,
                    o.defined_data_format.value, o.sarq.value, o.full_message_flag.value, sbits(o.bit_padding)],
         ["is_group", "is_response_requested", "appended_blocks", "sap_identifier", "llid_destination", "llid_source", "defined_data_format",
          "sarq", "full_message_flag", "bit_padding"]),
        ("udt", D.UnifiedDataTransport,
         [("G", B()), ("A", B()), ("Em", B()), ("of", E(UDTOptionFlag)), ("sap", E(SAPIdentifier)), ("fmt", E(UDTFormat)), ("dst", U(24)),
          ("src", U(24)), ("pn", U(5)), ("ab", U(2)), ("sf", E(SupplementaryFlag)), ("op", E(CsbkOpcodes))],
         lambda v: dict(is_group=v["G"], is_response_requested=v["A"], is_emergency=v["Em"], udt_option_flag=UDTOptionFlag(v["of"]),
                        sap_identifier=SAPIdentifier(v["sap"]), udt_format=UDTFormat(v["fmt"]), llid_destination=v["dst"], llid_source=v["src"],
                        pad_nibbles_count=v["pn"], appended_blocks=v["ab"], supplementary_flag=SupplementaryFlag(v["sf"]),
                        udt_opcode=CsbkOpcodes(v["op"])),
         lambda o: [b01(o.is_group), b01(o.is_response_requested), b01(o.is_emergency), o.udt_option_flag.value, o.sap_identifier.value,
                    o.udt_format.value, o.llid_destination, o.llid_source, o.pad_nibbles_count, o.appended_blocks, o.supplementary_flag.value,
                    o.udt_opcode.value],
         ["is_group", "is_response_requested", "is_emergency", "udt_option_flag", "sap_identifier", "udt_format", "llid_destination",
          "llid_source", "pad_nibbles_count", "appended_blocks", "supplementary_flag", "udt_opcode"]),
    ]
    by_dpf = {t[1]: t for t in table}

    def fmt(o, crc=None):
        t = by_dpf[o.data_packet_format]
        c = sbits(o.crc) if crc is None else sbits(crc)
        return " ".join([c, t[0], ",".join(str(x) for x in t[4](o))])

    k = Kind("dh", 96, DataHeader.from_bits, fmt, errors=["ValueError", "NotImplementedError"])
    for name, dpf, fields, kw, _a, _n in table:
        k.variants.append(Variant(k, name, hdr + fields, (lambda v, dpf=dpf, kw=kw: DataHeader(dpf=dpf, crc=bitarray(v["crc"]), **kw(v)))))
    carried = {t[0]: set(t[5]) | common_attrs for t in table}
    defaults = cross_variant_defaults(k, carried)

    def extra(o):
        t = by_dpf.get(o.data_packet_format)
        if t is None:
            return None
        a = attrs(o)
        bad = [x for x in a if x not in carried[t[0]] and x in defaults and a[x] != defaults[x]]
        return ("non-default unrelated attributes " + ",".join(bad)) if bad else None

    k.extra_check = extra
    dpfs = [t[1].value for t in table]

    def seeds(rng):
        b = int2ba(rng.getrandbits(96), length=96)
        if rng.random() < 0.85:
            b[4:8] = int2ba(rng.choice(dpfs), length=4)
        if ba2int(b[4:8]) == 0 and rng.random() < 0.7:
            b[74:80] = int2ba(rng.choice([m.value for m in CsbkOpcodes]), length=6)
        if rng.random() < 0.15:
            b[80:96] = 0
        return b

    k.bit_seeds = seeds
    return k


GPS_LON = 360 / 2**25
GPS_LAT = 180 / 2**24


def gps_raw(x, step):
    r = x / step
    return int(r) if r == int(r) else repr(r)


def mk_flc_kind():
    from okdmr.dmrlib.etsi.layer2.pdu.full_link_control import FullLinkControl
    from okdmr.dmrlib.etsi.layer2.elements.flcos import FLCOs
    from okdmr.dmrlib.etsi.layer2.elements.feature_set_ids import FeatureSetIDs
    from okdmr.dmrlib.etsi.layer3.elements.position_error import PositionError
    from okdmr.dmrlib.etsi.layer3.elements.talker_alias_data_format import TalkerAliasDataFormat

    hdr = [("pf", B()), ("fid", E(FeatureSetIDs)), ("crc", CHOICE(BITS(24), BITS(5)))]
    table = [
        ("unitToUnit", [FLCOs.UnitToUnitVoiceChannelUser], so_fields() + [("tgt", U(24)), ("src", U(24))],
         lambda v: dict(service_options=so_build(v), target_address=v["tgt"], source_address=v["src"]),
         lambda o: so_args(o.service_options) + [o.target_address, o.source_address],
         ["service_options", "target_address", "source_address"]),
        ("group", [FLCOs.GroupVoiceChannelUser], so_fields() + [("grp", U(24)), ("src", U(24))],
         lambda v: dict(service_options=so_build(v), group_address=v["grp"], source_address=v["src"]),
         lambda o: so_args(o.service_options) + [o.group_address, o.source_address],
         ["service_options", "group_address", "source_address"]),
        ("gpsInfo", [FLCOs.GPSInfo], [("pe", E(PositionError)), ("lon", S(25)), ("lat", S(24))],
         lambda v: dict(position_error=PositionError(v["pe"]), longitude=v["lon"] * GPS_LON, latitude=v["lat"] * GPS_LAT),
         lambda o: [o.position_error.value, gps_raw(o.longitude, GPS_LON), gps_raw(o.latitude, GPS_LAT)],
         ["position_error", "longitude", "latitude"]),
        ("talkerAliasHeader", [FLCOs.TalkerAliasHeader], [("fmt", E(TalkerAliasDataFormat)), ("len", U(5)), ("msb", B()), ("data", BYTES(6))],
         lambda v: dict(talker_alias_data_format=TalkerAliasDataFormat(v["fmt"]), talker_alias_data_length=v["len"],
                        talker_alias_data_msb=v["msb"], talker_alias_data=bytes.fromhex(v["data"])),
         lambda o: [o.talker_alias_data_format.value, o.talker_alias_data_length, b01(o.talker_alias_data_msb), shex(o.talker_alias_data)],
         ["talker_alias_data_format", "talker_alias_data_length", "talker_alias_data_msb", "talker_alias_data"]),
        ("talkerAliasBlock", [FLCOs.TalkerAliasBlock1, FLCOs.TalkerAliasBlock2, FLCOs.TalkerAliasBlock3],
         [("flco", E(FLCOs, [FLCOs.TalkerAliasBlock1, FLCOs.TalkerAliasBlock2, FLCOs.TalkerAliasBlock3])), ("data", BYTES(7))],
         lambda v: dict(talker_alias_data=bytes.fromhex(v["data"])),
         lambda o: [o.full_link_control_opcode.value, shex(o.talker_alias_data)],
         ["talker_alias_data"]),
    ]
    by_op = {}
    for t in table:
        for op in t[1]:
            by_op[op] = t

    def fmt(o, crc=None):
        t = by_op[o.full_link_control_opcode]
        return " ".join([b01(o.protect_flag), str(o.feature_set_id.value), sbits(o.crc), t[0], ",".join(str(x) for x in t[4](o))])

    def extra(o):
        t = by_op.get(o.full_link_control_opcode)
        if t is None:
            return None
        d = attrs(FullLinkControl(protect_flag=0, flco=o.full_link_control_opcode, fid=o.feature_set_id, crc=o.crc))
        a = attrs(o)
        keep = set(t[5]) | {"protect_flag", "full_link_control_opcode", "feature_set_id", "crc"}
        bad = [x for x in a if x not in keep and a[x] != d.get(x)]
        return ("non-default unrelated attributes " + ",".join(bad)) if bad else None

    k = Kind("flc", None, FullLinkControl.from_bits, fmt, errors=["ValueError", "KeyError"], extra_check=extra)
    for name, ops, fields, kw, _a, _n in table:
        def build(v, ops=ops, kw=kw):
            flco = FLCOs(v["flco"]) if "flco" in v else ops[0]
            return FullLinkControl(protect_flag=v["pf"], flco=flco, fid=FeatureSetIDs(v["fid"]), crc=bitarray(v["crc"]), **kw(v))

        k.variants.append(Variant(k, name, hdr + fields, build, length=lambda v: 72 + len(v["crc"])))
    ops = [op.value for op in by_op]

    def seeds(rng):
        n = 96 if rng.random() < 0.6 else 77
        b = int2ba(rng.getrandbits(n), length=n)
        r = rng.random()
        if r < 0.8:
            b[2:8] = int2ba(rng.choice(ops), length=6)
        elif r < 0.9:
            b[2:8] = int2ba(rng.choice([m.value for m in FLCOs]), length=6)
        return b

    k.bit_seeds = seeds
    return k


def mk_slc_kind():
    from okdmr.dmrlib.etsi.layer2.pdu.short_link_control import ShortLinkControl
    from okdmr.dmrlib.etsi.layer2.elements.slcos import SLCOs
    from okdmr.dmrlib.etsi.layer3.elements.activity_id import ActivityID

    def fmt(o, crc=None):
        c = sbits(o.crc_8bit) if crc is None else sbits(crc)
        if o.slco == SLCOs.NullMessage:
            return f"{c} null -"
        return f"{c} activity {o.ts1_activity_id.value},{o.ts2_activity_id.value},{sbits(o.ts1_address)},{sbits(o.ts2_address)}"

    def extra(o):
        if o.slco == SLCOs.NullMessage:
            d = attrs(ShortLinkControl(slco=SLCOs.NullMessage, crc_8bit=1))
            a = attrs(o)
            bad = [x for x in a if x not in ("slco", "crc_8bit") and a[x] != d.get(x)]
            return ("non-default unrelated attributes " + ",".join(bad)) if bad else None
        return None

    k = Kind("slc", 36, ShortLinkControl.from_bits, fmt, errors=["KeyError", "ValueError"], extra_check=extra)
    k.variants = [
        Variant(k, "null", [("crc", BITS(8))], lambda v: ShortLinkControl(slco=SLCOs.NullMessage, crc_8bit=bitarray(v["crc"]))),
        Variant(k, "activity", [("crc", BITS(8)), ("t1", E(ActivityID)), ("t2", E(ActivityID)), ("a1", BITS(8)), ("a2", BITS(8))],
                lambda v: ShortLinkControl(slco=SLCOs.ActivityUpdate, crc_8bit=bitarray(v["crc"]), ts1_activity_id=ActivityID(v["t1"]),
                                           ts2_activity_id=ActivityID(v["t2"]), ts1_address=bitarray(v["a1"]), ts2_address=bitarray(v["a2"]))),
    ]

    def seeds(rng):
        b = int2ba(rng.getrandbits(36), length=36)
        if rng.random() < 0.8:
            b[0:4] = int2ba(rng.choice([0, 1]), length=4)
        if rng.random() < 0.2:
            b[28:36] = 0
        return b

    k.bit_seeds = seeds
    k.n_bits = (1200, 30000)
    return k


def mk_pi_kind():
    from okdmr.dmrlib.etsi.layer2.pdu.pi_header import PIHeader

    k = Kind("pi", 96, PIHeader.from_bits, lambda o, crc=None: f"{shex(o.data)} {o.crc}", errors=[])
    k.variants = [Variant(k, "pi", [("data", BYTES(10)), ("crc", U(16))], lambda v: PIHeader(data=bytes.fromhex(v["data"]), crc=v["crc"]))]
    k.bit_seeds = lambda rng: int2ba(rng.getrandbits(96), length=96)
    k.n_bits = (800, 20000)
    return k


RATE_TYPES = ["unconfirmed", "confirmed", "unconfirmedLast", "confirmedLast"]


def mk_rate_kinds():
    from okdmr.dmrlib.etsi.layer2.pdu.rate12_data import Rate12Data, Rate12DataTypes
    from okdmr.dmrlib.etsi.layer2.pdu.rate34_data import Rate34Data, Rate34DataTypes
    from okdmr.dmrlib.etsi.layer2.pdu.rate1_data import Rate1Data, Rate1DataTypes

    out = []
    for cname, cls, T, total in (("12", Rate12Data, Rate12DataTypes, 12), ("34", Rate34Data, Rate34DataTypes, 18), ("1", Rate1Data, Rate1DataTypes, 24)):
        members = {"unconfirmed": T.Unconfirmed, "confirmed": T.Confirmed, "unconfirmedLast": T.UnconfirmedLastBlock,
                   "confirmedLast": T.ConfirmedLastBlock, "undefined": T.Undefined}
        for tname in RATE_TYPES + ["undefined"]:
            member = members[tname]
            fmt = lambda o, crc=None: f"{shex(o.data)} {o.dbsn} {o.crc9} {o.crc32}"
            k = Kind(f"rate{cname}.{tname}", 8 * total, (lambda b, cls=cls, member=member: cls.from_bits_typed(b, member)), fmt, errors=[],
                     dec_line=(lambda s, cname=cname, tname=tname: f"rate.dec {cname} {tname} {s}"))
            k.bit_seeds = lambda rng, total=total: (
                (lambda b: (b.__setitem__(slice(7, 16), 0), b)[1] if rng.random() < 0.15 else b)(int2ba(rng.getrandbits(8 * total), length=8 * total)))
            k.n_bits = (250, 6000)
            if tname != "undefined":
                dl = member.value
                fields = [("data", BYTES(dl))]
                if tname in ("confirmed", "confirmedLast"):
                    fields += [("dbsn", U(7)), ("crc9", U(9))]
                if tname in ("unconfirmedLast", "confirmedLast"):
                    fields += [("crc32", U(32))]

                def build(v, cls=cls, member=member):
                    return cls(data=bytes.fromhex(v["data"]), packet_type=member, dbsn=v.get("dbsn", 0), crc9=v.get("crc9", 0), crc32=v.get("crc32", 0))

                k.variants = [Variant(k, tname, fields, build)]
                k.enc_line = (lambda p, v, cname=cname, tname=tname:
                              f"rate.enc {cname} {tname} {v['data'] or '-'} {v.get('dbsn', 0)} {v.get('crc9', 0)} {v.get('crc32', 0)}")
                k.enc_out = lambda p, bits: f"{p.crc9} {sbits(bits)}"
                k.rate = (cname, tname, members)
            out.append(k)
    return out


def mk_udp_kind():
    from okdmr.dmrlib.etsi.layer3.pdu.udp_ipv4_compressed_header import UDPIPv4CompressedHeader as H
    from okdmr.dmrlib.etsi.layer3.elements.ip_address_identifier import IPAddressIdentifier
    from okdmr.dmrlib.etsi.layer3.elements.udp_port_identifier import UDPPortIdentifier

    port_members = {m.value: m for m in UDPPortIdentifier}
    PORT_SEL = [1, 2, 3, 95]  # text message, LIP, reserved, manufacturer specific

    def fmt(o, crc=None):
        e = lambda x: "-" if x is None else str(x)
        return " ".join(str(x) for x in [o.ipv4_identification, o.source_ip_address_id.value, o.destination_ip_address_id.value,
                                         o.udp_source_port_original, o.udp_source_port_id.value, o.udp_destination_port_original,
                                         o.udp_destination_port_id.value, e(o.extended_header_1), e(o.extended_header_2), sbits(o.user_data)])

    k = Kind("udp", None, H.from_bits, fmt, errors=["AssertionError"])
    base = [("id", U(16)), ("sip", E(IPAddressIdentifier)), ("dip", E(IPAddressIdentifier)), ("ud", VBITS(80)), ("as_member", B())]

    def build(v):
        sp, dp = v.get("sp", 0), v.get("dp", 0)
        if v["as_member"]:
            sp = port_members.get(sp, sp)
            dp = port_members.get(dp, dp)
        return H(ipv4_identification=v["id"], source_ip_address_id=IPAddressIdentifier(v["sip"]), destination_ip_address_id=IPAddressIdentifier(v["dip"]),
                 udp_source_port_id=sp, udp_destination_port_id=dp, user_data=bitarray(v["ud"]),
                 extended_header_1=v.get("e1"), extended_header_2=v.get("e2"))

    ln = lambda v: 40 + 16 * (("e1" in v) + ("e2" in v)) + len(v["ud"])
    k.variants = [
        Variant(k, "ext0", base + [("sp", UNZ(7, sel=PORT_SEL)), ("dp", UNZ(7, sel=PORT_SEL))], build, length=ln),
        Variant(k, "ext1s", base + [("dp", UNZ(7, sel=PORT_SEL)), ("e1", U(16))], build, length=ln),
        Variant(k, "ext1d", base + [("sp", UNZ(7, sel=PORT_SEL)), ("e1", U(16))], build, length=ln),
        Variant(k, "ext2", base + [("e1", U(16)), ("e2", U(16))], build, length=ln),
    ]

    def seeds(rng):
        n = rng.choice([40, 41, 47, 55, 56, 57, 64, 71, 72, 73, 96, 120, rng.randrange(0, 130)])
        b = int2ba(rng.getrandbits(n), length=n) if n else bitarray()
        if n >= 40:
            if rng.random() < 0.5:
                b[25:32] = 0
            if rng.random() < 0.5:
                b[33:40] = 0
        return b

    k.bit_seeds = seeds
    k.n_bits = (3000, 60000)
    return k


def kinds():
    return [mk_so_kind(), mk_csbk_kind(), mk_dh_kind(), mk_flc_kind(), mk_slc_kind(), mk_pi_kind()] + mk_rate_kinds() + [mk_udp_kind()]


# ------------------------------------------------------------------------------------------------
# the oracle
def call(fn, *a):
    try:
        return fn(*a), None
    except BaseException as e:  # noqa
        return None, impl_error(e)


def check_fields(ctx, kind, variant, vals, record=True):
    """property on the real code for one PDU built from fields; returns (enc line pair or None)"""
    inp = {"kind": kind.name, "variant": variant.name, "mode": "fields", "fields": vals}
    p, err = call(variant.build, vals)
    if err:
        ctx.fail("constructor-raises", inp, f"{kind.name}/{variant.name}: building the PDU from in-range fields raised {err}", actual=err)
        return None
    bits, err = call(p.as_bits)
    if err or bits is None:
        ctx.fail("as_bits-raises", inp, f"{kind.name}/{variant.name}: as_bits raised {err}", actual=err)
        return None
    hold = getattr(ctx, "hold", None)
    if hold is not None:
        hold.keep(f"{kind.name}.as_bits", inp, bits)
    pa = attrs(p)
    want = variant.length(vals) if variant.length else kind.length
    if want is not None and len(bits) != want:
        ctx.fail("wrong-length", inp, f"{kind.name}/{variant.name}: serialised length {len(bits)} != {want}", expected=want, actual=len(bits))
    q, err = call(kind.from_bits, bitarray(bits))
    if err:
        ctx.fail("decode-of-encoded-raises", inp, f"{kind.name}/{variant.name}: from_bits(as_bits(p)) raised {err}", actual=err)
        return (kind.enc_line(p, vals), None, p, bits)
    qa = attrs(q)
    if hold is not None:
        hold.keep(f"{kind.name}.from_bits", inp, q, qa)
    d = diff_attrs(pa, qa)
    if d:
        ctx.fail("field-lost", inp, f"{kind.name}/{variant.name}: from_bits(as_bits(p)) differs from p in {d}",
                 expected={k: pa.get(k) for k in d}, actual={k: qa.get(k) for k in d})
    b2, err = call(q.as_bits)
    if err or b2 != bits:
        ctx.fail("bits-not-stable", inp, f"{kind.name}/{variant.name}: as_bits(from_bits(as_bits(p))) != as_bits(p)",
                 expected=sbits(bits), actual=err or sbits(b2))
    return (kind.enc_line(p, vals), (q, err or b2), p, bits)


def check_bits(ctx, kind, b):
    """property on the real code for one right-length bit string; returns the impl's dec output text"""
    s = sbits(b)
    inp = {"kind": kind.name, "mode": "bits", "bits": s}
    o, err = call(kind.from_bits, bitarray(b))
    if err:
        if err[4:] not in kind.errors:
            ctx.fail("undocumented-error", inp, f"{kind.name}: from_bits raised {err}, not one of {sorted(kind.errors)}", expected=sorted(kind.errors), actual=err)
        ctx.count(f"{kind.name}:dec:{err[4:]}")
        return err
    e1, err = call(o.as_bits)
    if err or e1 is None:
        ctx.fail("as_bits-raises", inp, f"{kind.name}: as_bits of a decoded object raised {err}", actual=err)
        return "ERR as_bits"
    hold = getattr(ctx, "hold", None)
    if hold is not None:
        hold.keep(f"{kind.name}.from_bits", inp, o)
        hold.keep(f"{kind.name}.as_bits", inp, e1)
    if len(e1) != len(b):
        ctx.fail("wrong-length", inp, f"{kind.name}: decoded object serialises to {len(e1)} bits, not {len(b)}", expected=len(b), actual=len(e1))
    o2, err = call(kind.from_bits, bitarray(e1))
    if err:
        ctx.fail("not-a-fixed-point", inp, f"{kind.name}: from_bits(as_bits(from_bits(b))) raised {err}", actual=err)
    else:
        a1, a2 = attrs(o), attrs(o2)
        d = diff_attrs(a1, a2)
        if d:
            ctx.fail("not-a-fixed-point", inp, f"{kind.name}: decode-encode-decode changes {d}",
                     expected={k: a1.get(k) for k in d}, actual={k: a2.get(k) for k in d})
        e2, err = call(o2.as_bits)
        if err or e2 != e1:
            ctx.fail("not-a-fixed-point", inp, f"{kind.name}: encode-decode-encode changes the bits", expected=sbits(e1), actual=err or sbits(e2))
    out = f"ok {kind.fmt(o)} {sbits(e1)}"
    if kind.extra_check:
        x = kind.extra_check(o)
        if x:
            out += " EXTRA " + x
    ctx.count(f"{kind.name}:dec:ok")
    return out


# ------------------------------------------------------------------------------------------------
# elements
def element_classes():
    import importlib.util
    import os

    here = os.path.dirname(os.path.abspath(__file__))
    path = os.path.join(here, "..", "..", "tools", "extract_elements.py")
    spec = importlib.util.spec_from_file_location("extract_elements_for_c03", path)
    mod = importlib.util.module_from_spec(spec)
    mod.register = lambda name: (lambda f: f)
    mod.HEADER = ""
    spec.loader.exec_module(mod)
    done, skipped = mod.elements()
    return done


def element_outcome(cls, v):
    """canonical outcome of cls(v): 'M <value>' | 'ERR <Class>' | 'NOTHING'"""
    try:
        r = cls(v)
    except ValueError:
        hook_none = False
        try:
            hook_none = cls._missing_(v) is None
        except BaseException:
            pass
        return None, ("NOTHING" if hook_none else "ERR ValueError")
    except BaseException as e:  # noqa
        return None, impl_error(e)
    if r is None or not isinstance(r, cls):
        return None, "NOTHING"
    return r, f"M {r.value}"


def check_element_value(ctx, cls, w, v):
    """the property for one element value on the real code; returns the canonical outcome"""
    members = {m.value: m for m in cls}
    inp = {"kind": "element", "element": cls.__name__, "value": v}
    r, out = element_outcome(cls, v)
    if out == "NOTHING":
        ctx.fail("element-nothing", inp, f"{cls.__name__}({v}) yields nothing (the _missing_ hook returns None)")
    elif out.startswith("ERR") and out != "ERR ValueError":
        ctx.fail("element-error", inp, f"{cls.__name__}({v}) raises {out}, not the documented ValueError", actual=out)
    elif v in members and out != f"M {v}":
        ctx.fail("element-defined-not-self", inp, f"{cls.__name__}({v}) is defined but maps to {out}", expected=f"M {v}", actual=out)
    elif out.startswith("M"):
        m = int(out[2:])
        if m not in members or m >= 2**w:
            ctx.fail("element-fold-target", inp, f"{cls.__name__}({v}) maps to {m} which is not a defined {w}-bit member", actual=out)
        else:
            again, err = call(cls, m)
            if err or again is not r:
                ctx.fail("element-fold-not-idempotent", inp, f"{cls.__name__}({v}) = {m} but {cls.__name__}({m}) is {err or again}")
        if "from_bits" in vars(cls):
            fb, err = call(cls.from_bits, int2ba(v, length=w))
            if err or fb is not r:
                ctx.fail("element-from_bits", inp, f"{cls.__name__}.from_bits({v}) = {err or fb} differs from the constructor ({r})")
        if "as_bits" in vars(cls) and v in members:
            ab, err = call(members[v].as_bits)
            if err or ab != int2ba(v, length=w):
                ctx.fail("element-as_bits", inp, f"{cls.__name__}({v}).as_bits() = {err or ab.to01()}", expected=int2ba(v, length=w).to01())
    return out


def check_fsn_value(ctx, v):
    from okdmr.dmrlib.etsi.layer2.elements.fragment_sequence_number import FragmentSequenceNumber as F

    inp = {"kind": "element", "element": "FragmentSequenceNumber", "value": v}
    o, err = call(F.from_bits, int2ba(v, length=4))
    out = err or f"M {o.value}"
    if err or o.value != v or o.as_bits() != int2ba(v, length=4):
        ctx.fail("element-fsn", inp, f"FragmentSequenceNumber {v} does not survive from_bits/as_bits", expected=f"M {v}", actual=out)
    return out


def check_elements(ctx):
    pairs = []
    for lname, cls, w in element_classes():
        for v in range(2**w):
            ctx.case(("elem", cls.__name__, v), nontrivial=True,
                     sample={"element": cls.__name__, "value": v} if (cls.__name__, v) == ("FeatureSetIDs", 3) else None)
            out = check_element_value(ctx, cls, w, v)
            pairs.append((f"elem {cls.__name__} {v}", out))
            ctx.count(f"elem:{'member' if out.startswith('M') else out}")
    # FragmentSequenceNumber (plain class around a 4-bit value)
    for v in range(16):
        ctx.case(("elem", "FSN", v))
        pairs.append((f"elem FragmentSequenceNumber {v}", check_fsn_value(ctx, v)))
    if not ctx.search_only and ctx.driver_ok:
        ctx.correspond("elements", pairs)


def check_gps_floats(ctx):
    """trusted-base cross-check: the float step of GPS Info is exact on every raw value tried (the
    expressions are the ones of full_link_control.py), and a sample goes through the real PDU"""
    from okdmr.dmrlib.etsi.layer2.pdu.full_link_control import FullLinkControl
    from okdmr.dmrlib.etsi.layer2.elements.flcos import FLCOs
    from okdmr.dmrlib.etsi.layer2.elements.feature_set_ids import FeatureSetIDs
    from okdmr.dmrlib.etsi.layer3.elements.position_error import PositionError

    for w, step_expr in ((25, 360 / 2**25), (24, 180 / 2**24)):
        lo, hi = -(1 << (w - 1)), (1 << (w - 1)) - 1
        ns = {0, 1, -1, lo, lo + 1, hi, hi - 1} | {1 << i for i in range(w - 1)} | {-(1 << i) for i in range(w - 1)}
        ns |= {(1 << i) - 1 for i in range(w)} | {-(1 << i) + 1 for i in range(w)}
        ns = {n for n in ns if lo <= n <= hi}
        ns |= {ctx.rng.randrange(lo, hi + 1) for _ in range(ctx.budget(20000, 1 << 18))}
        bad = None
        for n in ns:
            x = step_expr * n  # from_bits
            back = int(x / step_expr)  # as_bits
            if back != n:
                bad = (n, back)
                break
        ctx.case(("gps-float", w, len(ns)))
        ctx.count(f"gps-float:{w}", len(ns))
        if bad:
            ctx.fail("gps-float-inexact", {"kind": "flc", "mode": "gps-float", "width": w, "raw": bad[0]},
                     f"GPS Info {w}-bit raw value {bad[0]} comes back as {bad[1]} through the float step", expected=bad[0], actual=bad[1])
    for _ in range(ctx.budget(300, 20000)):
        lon = ctx.rng.randrange(-(1 << 24), 1 << 24)
        lat = ctx.rng.randrange(-(1 << 23), 1 << 23)
        p = FullLinkControl(protect_flag=0, flco=FLCOs.GPSInfo, fid=FeatureSetIDs.StandardizedFID, crc=bitarray("0" * 24),
                            position_error=PositionError(lon % 8), longitude=lon * (360 / 2**25), latitude=lat * (180 / 2**24))
        bits = p.as_bits()
        q = FullLinkControl.from_bits(bits)
        ctx.case(("gps-pdu", lon, lat))
        if ba2int(bits[23:48], signed=True) != lon or ba2int(bits[48:72], signed=True) != lat or q.longitude != p.longitude or q.latitude != p.latitude:
            ctx.fail("gps-roundtrip", {"kind": "flc", "variant": "gpsInfo", "mode": "fields",
                                       "fields": {"pf": 0, "fid": 0, "crc": "0" * 24, "pe": lon % 8, "lon": lon, "lat": lat}},
                     "GPS Info coordinates do not survive as_bits / from_bits", expected=[lon, lat],
                     actual=[ba2int(bits[23:48], signed=True), ba2int(bits[48:72], signed=True)])


# ------------------------------------------------------------------------------------------------
# special-token dictionary for opaque / text-like payload fields (talker alias data, raw_data, broadcast_params,
# user data of rate blocks, UDP payload, PI data, check fields kept verbatim, 16+ bit integers)
def token_dictionary():
    """[(class, bytes)] — deterministic order, no duplicates.  Classes are recorded in the evidence."""
    toks, seen = [], set()

    def add(cls_, *hexes):
        for h in hexes:
            b = h if isinstance(h, bytes) else bytes.fromhex(h)
            if b and b not in seen:
                seen.add(b)
                toks.append((cls_, b))

    # byte order marks: UTF-16 LE / BE, UTF-8, UTF-32 LE / BE, UTF-7
    add("bom", "fffe", "feff", "efbbbf", "fffe0000", "0000feff", "2b2f76")
    # NUL runs
    add("nul", "00", "0000", "000000", "00000000")
    # line ends: 8-bit, UTF-16 BE / LE
    add("crlf", "0d0a", "0a0d", "0d", "0a", "000d000a", "0d000a00", "000a", "0a00", "000d", "0d00")
    # 7F / 80 boundaries, sign boundaries
    add("boundary", "7f", "80", "7f80", "807f", "7fff", "8000", "ff7f", "80000000", "7fffffff", "0080", "8080")
    # all ones
    add("ones", "ff", "ffff", "ffffff", "ffffffff")
    # UTF-16 surrogates (BE / LE), non-characters, combining mark, invalid / overlong UTF-8
    add("unicode", "d800", "00d8", "dc00", "00dc", "dfff", "d83dde00", "3dd800de", "0301", "0103", "c080", "c0af", "eda080",
        "f4908080", "fe", "f8")
    # ASCII specials: space(s), ESC, DEL neighbours, quote / escape / separator characters, digits
    add("ascii", "20", "2020", "1b", "7e", "24", "2c", "5c", "22", "25", "30", "09", "0020", "2000")
    # protocol constants: text-message UDP header / ports, feature set ids, ETSI special addresses, alternating bits
    add("const", "0fa7", "0fa1", "0fa5", "1398", "10", "68", "fffec0", "fffecf", "fffffe", "fffffd", "aaaa", "5555", "a5", "5a")
    try:
        from okdmr.dmrlib.etsi.layer2.elements.crc_masks import CrcMasks
        from okdmr.dmrlib.etsi.layer2.elements.sync_patterns import SyncPatterns

        for m in CrcMasks:
            if isinstance(m.value, int) and m.value > 0:
                add("const", m.value.to_bytes(max(1, (m.value.bit_length() + 7) // 8), "big"))
        for m in list(SyncPatterns)[:4]:
            if isinstance(m.value, int) and m.value > 0:
                add("const", m.value.to_bytes(6, "big"))
    except BaseException:  # noqa: the dictionary must not depend on these modules being importable
        pass
    return toks


def bits_of(b):
    x = bitarray(endian="big")
    x.frombytes(bytes(b))
    return x.to01()


def rand_bits(rng, n):
    return int2ba(rng.getrandbits(n), length=n).to01() if n else ""


def background(rng, n, mode):
    """n background bits: random / zeros / random / ones"""
    mode %= 4
    if mode == 1:
        return "0" * n
    if mode == 3:
        return "1" * n
    return rand_bits(rng, n)


def overlay01(bg, tok01, o):
    """bit string bg with tok01 written at bit offset o (truncated at the end of bg)"""
    t = tok01[: max(0, len(bg) - o)]
    return bg[:o] + t + bg[o + len(t):]


def opaque_info(spec):
    """(class, width in bits) of a field that carries octets / bits the codec must pass through untouched;
    'payload' = opaque or text-like payload, 'number' = check field kept verbatim or integer of >= 16 bits"""
    if isinstance(spec, BYTES) and spec.n >= 1:
        return ("payload", 8 * spec.n)
    if isinstance(spec, VBITS):
        return ("payload", None)
    if isinstance(spec, CHOICE):
        return opaque_info(spec.a)
    if isinstance(spec, BITS) and spec.n >= 8:
        return ("payload" if spec.n not in (16, 24) else "number", spec.n)
    if isinstance(spec, U) and not isinstance(spec, UNZ) and spec.w >= 16:
        return ("number", spec.w)
    return None


def opaque_offsets(spec, tok, full=False):
    """bit offsets (relative to the field) at which the token is placed: every octet offset, and right-aligned"""
    cls_, n = opaque_info(spec)
    if n is None:  # variable length: the token ends the field, or is followed by a tail
        return [8 * i for i in range(0, 11)] + ([8 * 24, 8 * 60, 8 * 140] if full else [])
    offs = list(range(0, n, 8))
    r = n - 8 * len(tok)
    if r > 0 and r not in offs:
        offs.append(r)
    return offs


def opaque_value(spec, tok, o, rng, mode, tail=0):
    """plain-domain field value with the token at bit offset o"""
    if isinstance(spec, CHOICE):
        spec = spec.a
    t01 = bits_of(tok)
    if isinstance(spec, VBITS):
        n = o + len(t01) + tail
        return overlay01(background(rng, n, mode), t01, o)
    if isinstance(spec, BYTES):
        s = overlay01(background(rng, 8 * spec.n, mode), t01, o)
        return bitarray(s).tobytes().hex()
    if isinstance(spec, BITS):
        return overlay01(background(rng, spec.n, mode), t01, o)
    s = overlay01(background(rng, spec.w, mode), t01, o)  # U
    return int(s, 2)


SEPTETS = [("nul", "0000000"), ("del", "1111111"), ("cr", "0001101"), ("lf", "0001010"), ("space", "0100000"), ("esc", "0011011")]
SEL_CAP = 16  # selector fields with at most this many values are crossed completely with every token placement


def selector_domain(spec):
    """values of a field that may select a branch of the codec: enum members, flags, small integers, check-field width"""
    if isinstance(spec, E):
        return [("v", x) for x in spec.vals]
    if isinstance(spec, CHOICE):
        return [("g", spec.a), ("g", spec.b)]
    if isinstance(spec, U):
        if getattr(spec, "sel", None):
            return [("v", x) for x in spec.sel]
        if spec.w <= 3:
            return [("v", x) for x in range(1 << spec.w)]
    return None


def covering_rows(var, target, counter, rng, full=False):
    """field assignments (without the target field) such that, for this token placement, EVERY value of every selector
    field with <= SEL_CAP values occurs (pairwise covering: placement x selector value); selectors with more values rotate
    with the placement counter, so that all their values are met over the placements; the other fields are random.
    full=True (thorough): the complete cross product of the small selectors when it has at most 96 rows."""
    sels = [(n, selector_domain(s)) for n, s in var.fields if n != target and selector_domain(s)]
    small = [(n, d) for n, d in sels if len(d) <= SEL_CAP]
    rows = max([len(d) for _, d in small] + [1])
    combos = None
    if full and small:
        total = 1
        for _, d in small:
            total *= len(d)
        if total <= 96:
            import itertools

            combos = list(itertools.product(*[range(len(d)) for _, d in small]))
            rows = len(combos)
    out = []
    for r in range(rows):
        vals = {}
        for n, s in var.fields:
            if n != target:
                vals[n] = s.rand(rng)
        for i, (n, d) in enumerate(sels):
            if combos is not None and (n, d) in small:
                idx = combos[r][small.index((n, d))]
            elif len(d) <= rows:
                idx = (r + counter * (i + 1)) % len(d)
            else:
                idx = (r + counter * rows) % len(d)
            how, x = d[idx]
            vals[n] = x if how == "v" else x.rand(rng)
        out.append(vals)
    return out


def token_field_cases(ctx, var, rng, toks):
    """yield (desc, vals, token class) — every token at every octet offset of every opaque field of the variant, crossed with
    the selector values (covering_rows)"""
    counter = 0
    full = ctx.thorough()
    for fname, spec in var.fields:
        info = opaque_info(spec)
        if info is None:
            continue
        kind_, _n = info
        for ti, (tcls, tok) in enumerate(toks):
            for o in opaque_offsets(spec, tok, full):
                counter += 1
                if kind_ == "number" and not full and (counter + ti) % 3:
                    continue  # quick: check fields / integers get a rotating third of the dictionary
                rows = covering_rows(var, fname, counter, rng, full=full and kind_ == "payload")
                if kind_ == "number" and not full:
                    rows = rows[counter % len(rows):][:1]
                for r, vals in enumerate(rows):
                    tail = (0, 3, 16)[(counter + r) % 3]
                    vals = dict(vals)
                    vals[fname] = opaque_value(spec, tok, o, rng, r + counter, tail=tail)
                    # keep the order of the variant's field list (canonical descriptions)
                    vals = {n: vals[n] for n, _s in var.fields}
                    if var.fix:
                        vals = var.fix(vals)
                    yield (fname, tok.hex(), o, r), vals, tcls
        # 7-bit packed text (talker alias 7-bit format and the like): 7-bit characters at every BIT offset of the payload
        if kind_ == "payload" and _n is not None and (_n <= 64 or full):
            base_spec = spec.a if isinstance(spec, CHOICE) else spec
            for s7name, s7 in SEPTETS:
                for o in range(_n):
                    counter += 1
                    for r, vals in enumerate(covering_rows(var, fname, counter, rng)):
                        vals = dict(vals)
                        s01 = overlay01(background(rng, _n, r + counter), s7, o)
                        vals[fname] = bitarray(s01).tobytes().hex() if isinstance(base_spec, BYTES) else (s01 if isinstance(base_spec, BITS) else int(s01, 2))
                        vals = {n: vals[n] for n, _s in var.fields}
                        if var.fix:
                            vals = var.fix(vals)
                        yield (fname, "7bit-" + s7name, o, r), vals, "septet"


def variant_bases(k, rng, per_variant=4):
    """valid encodings of the kind: per variant a few objects whose selector fields follow the covering rows"""
    bases = []
    for vi, var in enumerate(k.variants):
        rows = covering_rows(var, None, vi, rng)
        step = max(1, len(rows) // per_variant)
        for vals in rows[::step][:per_variant]:
            vals = {n: vals[n] for n, _s in var.fields}
            p, err = call(var.build, vals)
            if err:
                continue
            bits, err = call(p.as_bits)
            if err or bits is None or not len(bits):
                continue
            bases.append((var.name, bitarray(bits)))
    return bases


def token_overlay_cases(ctx, k, rng, toks):
    """yield (desc, bitarray): valid encodings (and, for kinds without field variants, random right-length strings) with a token
    written over the PDU at every octet offset — reaches tokens that straddle field boundaries — and, with a rotating
    multi-octet token, at every BIT offset (7-bit packed text, fields that are not octet aligned)"""
    bases = variant_bases(k, rng)
    if not bases:
        bases = [("-", k.bit_seeds(rng)) for _ in range(4)]
    full = ctx.thorough()
    stride = 1 if full else (4 if k.name.startswith("rate") else 2)
    phase = rng.randrange(stride)
    counter = 0
    for ti, (tcls, tok) in enumerate(toks):
        t = bitarray(bits_of(tok))
        maxlen = max(len(b) for _, b in bases)
        for off in range(0, maxlen, 8):
            counter += 1
            if (counter + ti) % stride != phase:
                continue
            for j in range(len(bases) if full else 1):  # thorough: every base (variant x selector row)
                vname, base = bases[(counter + j) % len(bases)]
                if off >= len(base):
                    continue
                b = base.copy()
                n = min(len(t), len(b) - off)
                b[off:off + n] = t[:n]
                yield ("octet", vname, tok.hex(), off), b, tcls
    multi = [(c, t) for c, t in toks if len(t) >= 2]
    per = {}
    for vname, base in bases:
        if vname in per and not full:
            continue  # quick: one base per variant
        per[vname] = True
        for o in range(len(base)):
            counter += 1
            tcls, tok = multi[counter % len(multi)]
            t = bitarray(bits_of(tok))
            b = base.copy()
            n = min(len(t), len(b) - o)
            b[o:o + n] = t[:n]
            yield ("bit", vname, tok.hex(), o), b, tcls


# ------------------------------------------------------------------------------------------------
# result aliasing / history dependence: every as_bits / from_bits / as_bytes / from_bytes of every element and PDU must behave
# like a function of its argument — results are fresh objects, mutating a returned object (or the argument, afterwards)
# changes nothing that a later call returns, results held across other calls keep their value
MUT_OPS = ["+=", "extend", "append", "setitem", "invert", "clear", "setall", "slice=", "del", "reverse", "insert", "pop", "frombytes"]


def is_enum(x):
    import enum

    return isinstance(x, enum.Enum)


def is_container(x):
    return isinstance(x, (bitarray, bytearray, list, dict, set))


def mutate_in_place(x, op):
    """one of the ordinary in-place idioms on a returned mutable container; returns False if nothing applicable"""
    try:
        if isinstance(x, bitarray):
            if op == "+=":
                x += bitarray("1011001110001111" * 4)
            elif op == "extend":
                x.extend([1, 0, 1])
            elif op == "append":
                x.append(1)
            elif op == "setitem":
                if not len(x):
                    return False
                x[0] = not x[0]
                x[-1] = not x[-1]
            elif op == "invert":
                if not len(x):
                    return False
                x.invert()
            elif op == "clear":
                if not len(x):
                    return False
                x.clear()
            elif op == "setall":
                if not len(x) or x.all():
                    x.extend([0])
                x.setall(1)
            elif op == "slice=":
                x[0:len(x) // 2] = bitarray("10" * 9)
            elif op == "del":
                if not len(x):
                    return False
                del x[0]
            elif op == "reverse":
                x.reverse()
                x.append(0)
            elif op == "insert":
                x.insert(0, 1)
            elif op == "pop":
                if not len(x):
                    return False
                x.pop()
            elif op == "frombytes":
                x.frombytes(b"\xff\xfe")
            else:
                return False
            return True
        if isinstance(x, bytearray):
            if op in ("clear", "del", "pop") and len(x):
                del x[0]
            elif op in ("setitem", "invert", "setall") and len(x):
                x[0] ^= 0xFF
            else:
                x += b"\xff\xfe"
            return True
        if isinstance(x, list):
            if op in ("clear", "del", "pop") and x:
                x.pop()
            else:
                x.append(None)
            return True
        if isinstance(x, dict):
            x["<mutated>"] = 1
            return True
        if isinstance(x, set):
            x.add("<mutated>")
            return True
    except BaseException:  # noqa: an operation the container refuses leaves it as it is
        return False
    return False


_DEFAULT_IDS = {}


def constructor_default_ids(cls):
    """ids of the mutable default arguments of cls.__init__ (shared between objects by Python itself: the subject of
    property C19, not of this probe)"""
    import inspect

    if cls not in _DEFAULT_IDS:
        ids = set()
        try:
            for p in inspect.signature(cls.__init__).parameters.values():
                if p.default is not inspect.Parameter.empty and (is_container(p.default) or hasattr(p.default, "__dict__")) and not is_enum(p.default):
                    ids.add(id(p.default))
        except BaseException:  # noqa
            pass
        _DEFAULT_IDS[cls] = ids
    return _DEFAULT_IDS[cls]


def mutable_parts(o, path="", out=None, depth=0):
    """[(path, owner, attribute, object)]: mutable containers / nested objects reachable through the attributes of o
    (enum members are shared by design and not entered; constructor defaults are left out)"""
    if out is None:
        out = []
    if depth > 3 or not hasattr(o, "__dict__") or is_enum(o):
        return out
    skip = constructor_default_ids(type(o))
    for name, v in sorted(vars(o).items()):
        if is_enum(v) or id(v) in skip:
            continue
        if is_container(v):
            out.append((path + name, o, name, v))
        elif hasattr(v, "__dict__") and not isinstance(v, type):
            out.append((path + name, o, name, v))
            mutable_parts(v, path + name + ".", out, depth + 1)
    return out


def scramble(o, op):
    """change every attribute of a returned object: containers in place (op), everything else by rebinding"""
    for path, owner, name, v in mutable_parts(o):
        if is_container(v):
            mutate_in_place(v, op)
    stack = [o]
    while stack:
        x = stack.pop()
        if not hasattr(x, "__dict__") or is_enum(x):
            continue
        for name, v in sorted(vars(x).items()):
            if isinstance(v, bool):
                setattr(x, name, not v)
            elif isinstance(v, int):
                setattr(x, name, v ^ 1)
            elif isinstance(v, float):
                setattr(x, name, v + 1.0)
            elif isinstance(v, bytes):
                setattr(x, name, b"\xff\xfe" + v[:1])
            elif is_enum(v):
                ms = list(type(v))
                setattr(x, name, ms[(ms.index(v) + 1) % len(ms)])
            elif v is None:
                setattr(x, name, 0)
            elif hasattr(v, "__dict__") and not isinstance(v, type):
                stack.append(v)


def outcome(r, err):
    """canonical outcome of a call, for comparing two calls with each other"""
    if err:
        return err
    if hasattr(r, "__dict__") and not is_enum(r):
        return attrs(r)
    return canon(r)


class SubCtx:
    """collects the failures of a nested check (follow-up of a history, replay)"""

    def __init__(self):
        self.failures = []
        self.hist = {}
        self.hold = None

    def fail(self, kind, input, what, expected=None, actual=None):
        self.failures.append((kind, what, expected, actual))

    def count(self, *a, **k):
        pass

    def case(self, *a, **k):
        pass


def alias_element_classes():
    """name -> class, for every class of the element packages that defines as_bits or from_bits (enums and plain classes)"""
    import importlib
    import pkgutil

    out = {}
    for pkg_name in ("okdmr.dmrlib.etsi.layer2.elements", "okdmr.dmrlib.etsi.layer3.elements"):
        pkg = importlib.import_module(pkg_name)
        for mi in sorted(pkgutil.iter_modules(pkg.__path__), key=lambda m: m.name):
            mod = importlib.import_module(f"{pkg_name}.{mi.name}")
            for name, obj in sorted(vars(mod).items()):
                if isinstance(obj, type) and obj.__module__ == mod.__name__ and ("as_bits" in vars(obj) or "from_bits" in vars(obj)):
                    out[name] = obj
    return out


def element_instances(cls):
    """[(key, instance)] of an element class: the members of an enum; FragmentSequenceNumber(0..15); ServiceOptions is a PDU kind"""
    import enum

    if issubclass(cls, enum.Enum):
        return [(m.name, m) for m in cls]
    if cls.__name__ == "FragmentSequenceNumber":
        return [(v, cls(v)) for v in range(16)]
    return []


def element_instance(cls, key):
    import enum

    return cls[key] if issubclass(cls, enum.Enum) else cls(key)


_CARRIERS = {}


def element_carriers(ks):
    """element class name -> [(kind, variant, field name | None, fixed member | None)]: the PDU variants that serialise a member
    of the class, through a field of the variant (E spec) or as the variant's own opcode / format (found on a sample object)"""
    import random

    key = id(ks)
    if key in _CARRIERS:
        return _CARRIERS[key]
    rng = random.Random(3)
    idx = {}
    for k in ks.values():
        for var in k.variants:
            spec_classes = set()
            for fname, spec in var.fields:
                if isinstance(spec, E):
                    spec_classes.add(spec.cls)
                    idx.setdefault(spec.cls.__name__, []).append((k, var, fname, None))
            p, err = call(var.build, var.random_vals(rng))
            if err:
                continue
            for name, v in sorted(vars(p).items()):
                if is_enum(v) and type(v) not in spec_classes:
                    idx.setdefault(type(v).__name__, []).append((k, var, None, v))
    _CARRIERS[key] = idx
    return idx


def probe_element(ctx, spec, ks, ref=None):
    """history on one element instance: as_bits twice; mutate the first result in place (spec['op']); as_bits again; from_bits of
    the value; then build / serialise / decode PDUs that carry the instance.  Deterministic from spec."""
    import random

    cls = alias_element_classes().get(spec["element"])
    if cls is None:
        return
    m = element_instance(cls, spec["member"])
    op = spec["op"]
    tag = f"{cls.__name__}.{spec['member']}"
    if "as_bits" not in vars(cls):
        return
    a, err = call(m.as_bits)
    if err or not isinstance(a, bitarray):
        b, err2 = call(m.as_bits)
        if outcome(a, err) != outcome(b, err2):
            ctx.fail("alias-unstable", spec, f"{tag}.as_bits(): two calls give {outcome(a, err)} and {outcome(b, err2)}")
        return
    value = getattr(m, "value", None)
    # reference value: the integer value on the width of the first result of the run (taken before any history)
    w = len(ref) if ref is not None else len(a)
    if isinstance(value, int) and not isinstance(value, bool) and 0 <= value < (1 << w):
        want = int2ba(value, length=w).to01()
    else:
        want = ref if ref is not None else a.to01()
    if a.to01() != want:
        ctx.fail("alias-element-value", spec, f"{tag}.as_bits() is {sbits(a)} ({len(a)} bits), not {want}", expected=want, actual=sbits(a))
    b, err = call(m.as_bits)
    if b is a:
        ctx.fail("alias-same-object", spec, f"{tag}.as_bits() returns the same mutable bitarray object on every call: a caller that extends "
                 "or edits its copy changes what every later call (and every PDU carrying the element) serialises")
    # PDUs that carry the instance: checked once BEFORE the history (a failure there is an ordinary round-trip failure and is reported
    # as such) and again after it (a failure that appears only then is caused by the history)
    plan = plan_element_pdus(ks, cls, m, tag, op) if is_enum(m) else []
    sound = []
    for k, var, vals in plan:
        n0 = len(ctx.failures)
        check_fields(ctx, k, var, vals)
        if len(ctx.failures) == n0:
            sound.append((k, var, vals))
    if not mutate_in_place(a, op):
        return
    if isinstance(b, bitarray) and b is not a:
        mutate_in_place(b, op)  # a cache may be filled by the first call and served from the second on
    for nth in ("next", "next but one"):
        c, err = call(m.as_bits)
        if err or not isinstance(c, bitarray) or c.to01() != want:
            ctx.fail("alias-mutation-visible", spec, f"after `x = {tag}.as_bits(); x {op} …` the {nth} {tag}.as_bits() is "
                     f"{err or (str(len(c)) + ' bits ' + sbits(c))}", expected=want, actual=err or sbits(c))
            break
        mutate_in_place(c, op)
    if "from_bits" in vars(cls):
        inb = bitarray(want)
        r, err = call(cls.from_bits, inb)
        if inb.to01() != want:
            ctx.fail("alias-argument-modified", spec, f"{cls.__name__}.from_bits modifies its argument", expected=want, actual=sbits(inb))
        if is_enum(m) and (err or r is not m):
            ctx.fail("alias-element-from_bits", spec, f"{cls.__name__}.from_bits({want}) is {err or r}, not the member {tag}")
        if not err and not is_enum(m):
            r2, err2 = call(cls.from_bits, bitarray(want))
            if r2 is r:
                ctx.fail("alias-same-object", spec, f"{cls.__name__}.from_bits returns the same mutable object on every call")
            snap = outcome(r, None)
            scramble(r, op)
            r3, err3 = call(cls.from_bits, bitarray(want))
            if outcome(r3, err3) != snap:
                ctx.fail("alias-mutation-visible", spec, f"after changing the object returned by {cls.__name__}.from_bits({want}) the next call "
                         f"returns {outcome(r3, err3)}", expected=snap, actual=outcome(r3, err3))
    for k, var, vals in sound:
        sub = SubCtx()
        check_fields(sub, k, var, vals)
        ctx.count("alias:element-then-pdu")
        for kind_, what, exp, act in sub.failures[:1]:
            ctx.fail("alias-poisons-pdu", dict(spec, then={"kind": k.name, "variant": var.name, "fields": vals}),
                     f"after `x = {tag}.as_bits(); x {op} …` (the same PDU round-trips before): {what}", expected=exp, actual=act)
    # a shared object that was changed is put back (in place) after it was reported, so that the rest of the run is evaluated on an
    # unpoisoned library and further findings are not drowned
    c, err = call(m.as_bits)
    if not err and isinstance(c, bitarray) and c.to01() != want:
        c.clear()
        c.extend(bitarray(want))
        ctx.count("alias:restored-shared-object")


def plan_element_pdus(ks, cls, m, tag, op):
    """[(kind, variant, field values)]: up to two PDU variants that serialise the member m (deterministic from the probe's name)"""
    import random

    cands = [c for c in element_carriers(ks).get(cls.__name__, []) if c[3] is None or c[3] is m]
    if not cands:
        return []
    rng = random.Random(f"{tag}:{op}")
    start = rng.randrange(len(cands))
    out = []
    for j in range(min(2, len(cands))):
        k, var, fname, _fixed = cands[(start + j) % len(cands)]
        vals = var.random_vals(rng)
        if fname is not None:
            if m.value not in dict(var.fields)[fname].vals:
                continue
            vals[fname] = m.value
        out.append((k, var, vals))
    return out


def probe_pdu(ctx, spec, ks):
    """history on one PDU built from fields: as_bits twice, mutate the first result in place, as_bits again (same object and a fresh
    object with equal fields), as_bytes before / after; from_bits twice on the same bits, the argument left alone, the two objects
    share nothing mutable, changing one object (and, afterwards, the argument) does not change the other or a third decode;
    results held while other PDUs are built, serialised and decoded keep their value.  Deterministic from spec."""
    import random

    k = ks.get(spec["pdu"])
    if k is None:
        return
    var = next((v for v in k.variants if v.name == spec["variant"]), None)
    if var is None:
        return
    vals, op = spec["fields"], spec["op"]
    tag = f"{k.name}/{var.name}"
    p, err = call(var.build, vals)
    if err:
        return  # reported by the field sweep
    before = attrs(p)
    a, err = call(p.as_bits)
    if err or not isinstance(a, bitarray):
        return
    if attrs(p) != before:
        ctx.fail("alias-as_bits-changes-object", spec, f"{tag}: as_bits() changes attributes {diff_attrs(before, attrs(p))} of the object it serialises")
        before = attrs(p)
    s0 = a.to01()
    b, err = call(p.as_bits)
    if b is a:
        ctx.fail("alias-same-object", spec, f"{tag}: as_bits() returns the same mutable bitarray object on every call")
    for path, _owner, _name, v in mutable_parts(p):
        if v is a:
            ctx.fail("alias-internal-field", spec, f"{tag}: as_bits() returns the object's own attribute {path}, not a copy")
    y0 = None
    if hasattr(p, "as_bytes"):
        y, yerr = call(p.as_bytes)
        y0 = outcome(y, yerr)
        if isinstance(y, bytearray):
            mutate_in_place(y, op)
    rng = random.Random(f"{tag}:{op}:{s0}")
    if op == "other-calls":
        # hold the results while other objects of the same kind are built, serialised and decoded
        o, oerr = call(k.from_bits, bitarray(s0))
        osnap = outcome(o, oerr)
        for _ in range(6):
            v2 = rng.choice(k.variants)
            p2, e2 = call(v2.build, v2.random_vals(rng))
            if e2:
                continue
            b2, e2 = call(p2.as_bits)
            if not e2 and isinstance(b2, bitarray):
                call(k.from_bits, bitarray(b2))
            call(k.from_bits, k.bit_seeds(rng))
        if a.to01() != s0:
            ctx.fail("alias-held-result-changed", spec, f"{tag}: a bitarray returned by as_bits() changed while other PDUs were serialised / decoded "
                     "(shared output buffer)", expected=s0, actual=sbits(a))
        if outcome(o, oerr) != osnap:
            ctx.fail("alias-held-result-changed", spec, f"{tag}: an object returned by from_bits() changed while other PDUs were serialised / decoded",
                     expected=osnap, actual=outcome(o, oerr))
    elif mutate_in_place(a, op):
        if attrs(p) != before:
            ctx.fail("alias-internal-field", spec, f"{tag}: changing the bitarray returned by as_bits() ({op}) changes attributes "
                     f"{diff_attrs(before, attrs(p))} of the object", expected={x: before.get(x) for x in diff_attrs(before, attrs(p))})
            return
        if isinstance(b, bitarray) and b is not a:
            mutate_in_place(b, op)  # a cache may be filled by the first call and served from the second on
        for nth in ("next", "next but one"):
            c, err = call(p.as_bits)
            if err or not isinstance(c, bitarray) or c.to01() != s0:
                ctx.fail("alias-mutation-visible", spec, f"{tag}: after `x = p.as_bits(); x {op} …` the {nth} p.as_bits() differs", expected=s0, actual=err or sbits(c))
                break
            mutate_in_place(c, op)
        p2, err = call(var.build, vals)
        if not err:
            c2, err = call(p2.as_bits)
            if err or not isinstance(c2, bitarray) or c2.to01() != s0:
                ctx.fail("alias-mutation-visible", spec, f"{tag}: after `x = p.as_bits(); x {op} …` an equal object built from the same fields serialises differently",
                         expected=s0, actual=err or sbits(c2))
    if y0 is not None:
        y, yerr = call(p.as_bytes)
        if outcome(y, yerr) != y0:
            ctx.fail("alias-mutation-visible", spec, f"{tag}: as_bytes() differs after the history", expected=y0, actual=outcome(y, yerr))
    # ---- decode side
    inb = bitarray(s0)
    o1, err = call(k.from_bits, inb)
    if err or o1 is None or not hasattr(o1, "__dict__"):
        return
    if inb.to01() != s0:
        ctx.fail("alias-argument-modified", spec, f"{tag}: from_bits modifies its argument", expected=s0, actual=sbits(inb))
        inb = bitarray(s0)
    o2, err = call(k.from_bits, inb)
    if err:
        ctx.fail("alias-unstable", spec, f"{tag}: the second from_bits of the same bits raised {err}")
        return
    if o2 is o1:
        ctx.fail("alias-same-object", spec, f"{tag}: from_bits returns the same mutable object for the same bits")
        return
    snap = attrs(o1)
    if attrs(o2) != snap:
        ctx.fail("alias-unstable", spec, f"{tag}: two from_bits of the same bits differ in {diff_attrs(snap, attrs(o2))}")
        return
    ids1 = {id(v): path for path, _o, _n, v in mutable_parts(o1)}
    for path, _o, _n, v in mutable_parts(o2):
        if id(v) in ids1:
            ctx.fail("alias-shared-attribute", spec, f"{tag}: two decoded objects share the mutable attribute {path}")
            return
    for path, _o, _n, v in mutable_parts(o1):
        if v is inb:
            ctx.fail("alias-shared-attribute", spec, f"{tag}: the decoded object keeps the caller's bitarray as attribute {path}")
            return
    e0, err = call(o1.as_bits)
    e0 = err or sbits(e0)
    if op != "other-calls":
        scramble(o1, op)
        if attrs(o2) != snap:
            ctx.fail("alias-mutation-visible", spec, f"{tag}: changing one decoded object changes another one in {diff_attrs(snap, attrs(o2))}")
            return
        mutate_in_place(inb, op)
        if attrs(o2) != snap:
            ctx.fail("alias-shared-attribute", spec, f"{tag}: changing the argument after from_bits changes the decoded object in {diff_attrs(snap, attrs(o2))}")
            return
        scramble(o2, op)  # every object obtained so far is changed: a cache may be served from the second call on
        for nth in ("next", "next but one"):
            o3, err = call(k.from_bits, bitarray(s0))
            if err or attrs(o3) != snap:
                ctx.fail("alias-mutation-visible", spec, f"{tag}: after changing the decoded objects, the {nth} from_bits of the same bits returns something else",
                         expected=snap, actual=err or attrs(o3))
                return
            e3, err = call(o3.as_bits)
            if (err or sbits(e3)) != e0:
                ctx.fail("alias-mutation-visible", spec, f"{tag}: after changing the decoded objects, a new decode serialises differently", expected=e0, actual=err or sbits(e3))
                return
            scramble(o3, op)
    # rate blocks: convert(type) returns a new object each time and leaves the block alone
    if getattr(k, "rate", None) and op != "other-calls":
        members = k.rate[2]
        for t2 in RATE_TYPES:
            c1, e1 = call(p.convert, members[t2])
            c2, e2 = call(p.convert, members[t2])
            if outcome(c1, e1) != outcome(c2, e2):
                ctx.fail("alias-unstable", spec, f"{tag}: two convert({t2}) of the same block differ")
            elif not e1 and c1 is not None and (c1 is c2 or c1 is p):
                ctx.fail("alias-same-object", spec, f"{tag}: convert({t2}) returns {'the block itself' if c1 is p else 'the same object on every call'}")
            elif not e1 and c1 is not None:
                s1 = outcome(c1, None)
                scramble(c1, op)
                scramble(c2, op)
                c3, e3 = call(p.convert, members[t2])
                if attrs(p) != before or outcome(c3, e3) != s1:
                    ctx.fail("alias-mutation-visible", spec, f"{tag}: changing the object returned by convert({t2}) changes the block or the next convert",
                             expected=s1, actual=outcome(c3, e3))
    fb = getattr(type(p), "from_bytes", None)
    if fb is not None and hasattr(p, "as_bytes"):
        y, yerr = call(build_again_bytes, var, vals)
        if not yerr and isinstance(y, (bytes, bytearray)):
            q1, e1 = call(fb, bytes(y))
            q2, e2 = call(fb, bytes(y))
            s1 = outcome(q1, e1)
            if outcome(q2, e2) != s1:
                ctx.fail("alias-unstable", spec, f"{tag}: two from_bytes of the same octets differ")
            elif q1 is not None and q1 is q2 and hasattr(q1, "__dict__"):
                ctx.fail("alias-same-object", spec, f"{tag}: from_bytes returns the same mutable object for the same octets")
            elif q1 is not None and hasattr(q1, "__dict__") and op != "other-calls":
                scramble(q1, op)
                q3, e3 = call(fb, bytes(y))
                if outcome(q3, e3) != s1:
                    ctx.fail("alias-mutation-visible", spec, f"{tag}: after changing an object returned by from_bytes, the next from_bytes differs",
                             expected=s1, actual=outcome(q3, e3))


def build_again_bytes(var, vals):
    return var.build(vals).as_bytes()


class Holder:
    """results kept across the whole run and re-verified later: a bitarray returned by as_bits, an object returned by from_bits —
    with the value they had when they were returned"""

    def __init__(self, every, cap):
        self.every, self.cap = every, cap
        self.items = []
        self.n = 0
        self.reported = 0

    def keep(self, entry, inp, obj, snap=None):
        self.n += 1
        if self.n % self.every or len(self.items) >= self.cap:
            return
        if isinstance(obj, bitarray):
            snap = obj.to01()
        elif snap is None:
            snap = attrs(obj)
        self.items.append((entry, inp, obj, snap, self.n))

    def verify(self, ctx):
        keep = []
        for entry, inp, obj, snap, n in self.items:
            now = obj.to01() if isinstance(obj, bitarray) else attrs(obj)
            if now != snap:
                self.reported += 1
                if self.reported <= 10:
                    ctx.fail("alias-held-result-changed", {"kind": "alias", "probe": "held", "entry": entry, "first": inp, "calls_since": self.n - n},
                             f"the result of {entry} changed after it was returned, while {self.n - n} later cases ran (shared buffer / cached object)",
                             expected=snap if isinstance(snap, str) else {x: snap.get(x) for x in diff_attrs(snap, now)},
                             actual=now if isinstance(now, str) else {x: now.get(x) for x in diff_attrs(snap, now)})
            else:
                keep.append((entry, inp, obj, snap, n))
        ctx.count("alias:held-verified", len(self.items))
        self.items = keep


def alias_elements(ctx, ks):
    """every element instance x every in-place operation; the first results of every instance are held until the end of the run"""
    held = []
    classes = alias_element_classes()
    for cname, cls in classes.items():
        for key, m in element_instances(cls):
            if "as_bits" not in vars(cls):
                continue
            r, err = call(m.as_bits)
            held.append((cname, key, r, outcome(r, err)))
    refs = {(c, key): (r.to01() if isinstance(r, bitarray) else None) for c, key, r, _s in held}
    for cname, cls in classes.items():
        for key, m in element_instances(cls):
            for op in MUT_OPS:
                spec = {"kind": "alias", "probe": "element", "element": cname, "member": key, "op": op}
                ctx.case(("alias", "element", cname, key, op), nontrivial=True,
                         sample=spec if (cname, key, op) == ("FeatureSetIDs", "StandardizedFID", "+=") else None)
                ctx.count("alias:element")
                probe_element(ctx, spec, ks, ref=refs.get((cname, key)))
    return held


def alias_elements_final(ctx, held):
    for cname, key, r, snap in held:
        now = outcome(r, None) if isinstance(r, bitarray) else snap
        if now != snap:
            ctx.fail("alias-held-result-changed", {"kind": "alias", "probe": "element-held", "element": cname, "member": key},
                     f"the bitarray returned by the first {cname}.{key}.as_bits() of the run changed while the run went on", expected=snap, actual=now)
        cls = alias_element_classes()[cname]
        r2, err = call(element_instance(cls, key).as_bits)
        if outcome(r2, err) != snap:
            ctx.fail("alias-mutation-visible", {"kind": "alias", "probe": "element-held", "element": cname, "member": key},
                     f"{cname}.{key}.as_bits() at the end of the run differs from the first call of the run", expected=snap, actual=outcome(r2, err))
    ctx.count("alias:element-held", len(held))


def alias_pdus(ctx, k, ks):
    """every variant of the kind x every in-place operation (+ 'other-calls') on a few field tuples"""
    n = ctx.budget(1, 6)
    for var in k.variants:
        for i in range(n):
            for op in MUT_OPS + ["other-calls"]:
                vals = var.random_vals(ctx.rng)
                if var.fix:
                    vals = var.fix(vals)
                spec = {"kind": "alias", "probe": "pdu", "pdu": k.name, "variant": var.name, "fields": vals, "op": op}
                ctx.case(("alias", "pdu", k.name, var.name, json.dumps(vals, sort_keys=True), op), nontrivial=True,
                         sample=spec if (i == 0 and op == "+=" and var is k.variants[0] and k.name == "csbk") else None)
                ctx.count(f"alias:pdu:{k.name}")
                probe_pdu(ctx, spec, ks)


# ------------------------------------------------------------------------------------------------
CORPUS = [
    # repaired defects (KNOWN_FINDINGS.txt, fixed: property=C03 …) — kept so a regression is re-reported
    ("csbk", "nackRsp", {"lb": 1, "pf": 0, "fid": 0, "crc": 0, "aif": 0, "st": 1, "svc": 4, "rc": 33, "src": 2623266, "tgt": 1234}),
    ("csbk", "nackRsp", {"lb": 1, "pf": 0, "fid": 0, "crc": 0, "aif": 1, "st": 0, "svc": 5, "rc": 33, "src": 1, "tgt": 16777215}),
    ("csbk", "aloha", {"lb": 0, "pf": 0, "fid": 0, "crc": 0, "tsccas": 1, "sync": 0, "dvc": 3, "off": 0, "act": 1, "mask": 21, "sf": 2,
                       "nrand": 7, "reg": 1, "backoff": 5, "sys": 48879, "tgt": 2623266}),
    ("dh", "response", {"A": 1, "crc": "0000000000000000"}),
    ("dh", "response", {"A": 0, "crc": "0000000000000000"}),
]


def run_fields_case(ctx, kind, variant, vals, enc_pairs, desc, sample=None, dec_pairs=None):
    ctx.case(desc, nontrivial=True, sample=sample)
    ctx.count(f"{kind.name}:fields:{variant.name}")
    r = check_fields(ctx, kind, variant, vals)
    if r is not None:
        line, dec, p, bits = r
        enc_pairs.append((line, kind.enc_out(p, bits)))
        if dec_pairs is not None and dec is not None:
            # the decode of these bits as the model must see it (same text as check_bits), from the calls already made
            q, e1 = dec
            out = "ERR as_bits" if isinstance(e1, str) else f"ok {kind.fmt(q)} {sbits(e1)}"
            if kind.extra_check and not isinstance(e1, str):
                x = kind.extra_check(q)
                if x:
                    out += " EXTRA " + x
            dec_pairs.append((kind.dec_line(sbits(bits)), out))
        return p
    return None


def run(ctx):
    ctx.rule = (
        "per PDU kind and variant (opcode / format): corpus of repaired defects first; then a type-directed sweep — every field in turn at "
        "0, max, each walking-one value / every enum member while the other fields are random — plus all-random field tuples; decode side: "
        "structured-random right-length bit strings (implemented opcodes favoured, inner enumerations made valid, CRC field zeroed in 15 %) "
        "and single-bit mutations of valid encodings; every value of every element. A case is non-trivial unless stated; distinct = distinct "
        "(kind, variant, field tuple) / (kind, bit string) / (element, value). Special tokens: a dictionary of byte order marks, NUL runs, "
        "CR / LF forms, 7F/80 boundaries, all-ones, surrogates / invalid UTF-8, ASCII specials and protocol constants (CRC masks, sync "
        "patterns, ports, special addresses) is written at EVERY octet offset (and right-aligned) of every opaque / text-like field of every "
        "variant (talker alias data, raw_data, broadcast_params, block data, PI data, UDP user data, short-LC addresses; check fields and "
        ">= 16-bit integers with a rotating third in quick), each placement crossed with every value of every selector field of the variant "
        "(enum members, flags, small integers, check-field width; pairwise covering, complete cross product in thorough), on random / zero / "
        "all-ones background; 7-bit tokens at every bit offset of the payload fields of at most 64 bits; decode side: the tokens over valid "
        "encodings at every octet offset and (rotating token) at every bit offset of the PDU. History: for every element instance and every "
        "PDU variant, as_bits / from_bits / as_bytes / from_bytes are called twice (results must be distinct objects), a returned bitarray / "
        "object / the argument is changed in place (13 idioms) and the call repeated, PDUs carrying the element are built and round-tripped "
        "afterwards, results are held across other calls and the whole run and re-verified"
    )
    ctx.trusted_base += [
        "Lean 4.33 kernel",
        "tools/extract_elements.py (calls every element class of /repo on all 2^w values: the element graphs are the code)",
        "hand-written models of as_bits/from_bits/__init__ (Model/Pdu*.lean) tied to the code by this run's correspondence",
        "the CRC functions are parameters of the theorems; the driver instantiates them with a plain bitwise CRC that the correspondence compares with CRC16/CRC9/CRC8 of /repo",
        "GPS Info: raw signed integers n are modelled; float step n*(360/2^25) and back is exact in IEEE double (45*n < 2^53) — cross-checked by the harness on all boundary and random raw values",
        "bitarray / enum / Python are trusted as the substrate of the implementation",
        "the Lean models are pure functions of their arguments; that as_bits / from_bits / as_bytes / from_bytes / convert of the code are too "
        "(fresh result objects, no state kept between calls, arguments left alone) is not proved but probed on the real code by the history probes "
        "of this run (every element instance and PDU variant x 13 in-place idioms, results held across the run)",
    ]
    ctx.assumptions += [
        "crc_ok / crc9_ok (integrity indicators, property C04) are not part of the compared field tuple",
        "in-range field values: WF predicates of Model/Pdu*.lean (e.g. bit_padding 8 bits, blocks_to_follow < 128, no CRC-32 / DBSN on block variants that do not carry them)",
        "mutable default arguments of the constructors (CSBK.broadcast_params, DataHeader.bit_padding: one object shared by every PDU that does not carry "
        "the field) are hidden state in the sense of property C19 and are left alone by the history probes",
    ]
    check_elements(ctx)
    check_gps_floats(ctx)
    ks = {k.name: k for k in kinds()}
    toks = token_dictionary()
    ctx.count("token:dictionary-size", len(toks))
    # results of the whole run are held and re-verified after every kind and at the end
    ctx.hold = Holder(every=5, cap=ctx.budget(6000, 40000))
    held_elements = alias_elements(ctx, ks)
    # ---- corpus
    for kname, vname, vals in CORPUS:
        k = ks.get(kname)
        if k is None:
            continue
        var = next(v for v in k.variants if v.name == vname)
        full = var.random_vals(ctx.rng)
        full.update(vals)
        pairs = []
        run_fields_case(ctx, k, var, full, pairs, ("corpus", kname, vname, json.dumps(full, sort_keys=True)))
        if not ctx.search_only and ctx.driver_ok and pairs:
            ctx.correspond(f"{kname}.enc", pairs)
    # ---- per kind
    for k in ks.values():
        alias_pdus(ctx, k, ks)
        enc_pairs = []
        n_random = ctx.budget(200, 2000)
        reps = ctx.budget(2, 8)
        for var in k.variants:
            first = True
            for fname, spec in var.fields:
                for sv in spec.specials(ctx.rng):
                    for _ in range(reps):
                        vals = var.random_vals(ctx.rng)
                        vals[fname] = sv
                        if var.fix:
                            vals = var.fix(vals)
                        run_fields_case(ctx, k, var, vals, enc_pairs, (k.name, var.name, json.dumps(vals, sort_keys=True)),
                                        sample={"kind": k.name, "variant": var.name, "fields": vals} if first else None)
                        first = False
            for _ in range(n_random):
                vals = var.random_vals(ctx.rng)
                run_fields_case(ctx, k, var, vals, enc_pairs, (k.name, var.name, json.dumps(vals, sort_keys=True)))
        if not ctx.search_only and ctx.driver_ok and enc_pairs:
            ctx.correspond(f"{k.name}.enc", enc_pairs)
        # special tokens at every octet offset of every opaque field x selector values
        tok_pairs, tok_dec_pairs = [], []
        for var in k.variants:
            for desc, vals, tcls in token_field_cases(ctx, var, ctx.rng, toks):
                ctx.count(f"token:{tcls}")
                ctx.count(f"token-field:{k.name}.{var.name}.{desc[0]}")
                run_fields_case(ctx, k, var, vals, tok_pairs, ("tok", k.name, var.name, desc, json.dumps(vals, sort_keys=True)),
                                sample={"kind": k.name, "variant": var.name, "token": desc[1], "bit_offset": desc[2], "fields": vals}
                                if (k.name, var.name, desc[1], desc[2], desc[3]) == ("flc", "talkerAliasHeader", "fffe", 8, 0) else None,
                                dec_pairs=tok_dec_pairs)
        if not ctx.search_only and ctx.driver_ok and tok_pairs:
            ctx.correspond(f"{k.name}.enc(tokens)", tok_pairs)
            seen_dec = set()
            tok_dec_pairs = [x for x in tok_dec_pairs if not (x[0] in seen_dec or seen_dec.add(x[0]))]
            ctx.correspond(f"{k.name}.dec(tokens)", tok_dec_pairs)
        # rate-coded blocks: convert(new type) — used by the burst parser's clients (C01, C07)
        if getattr(k, "rate", None) and not ctx.search_only and ctx.driver_ok:
            cname, tname, members = k.rate
            conv = []
            var = k.variants[0]
            for _ in range(ctx.budget(15, 600)):
                vals = var.random_vals(ctx.rng)
                p, err = call(var.build, vals)
                if err:
                    continue
                for t2 in RATE_TYPES + ["undefined"]:
                    q, err = call(p.convert, members[t2])
                    if err:
                        out = err
                    else:
                        e1, err = call(q.as_bits)
                        out = err or f"ok {k.fmt(q)} {sbits(e1)}"
                    conv.append((f"rate.convert {cname} {tname} {vals['data'] or '-'} {vals.get('dbsn', 0)} {vals.get('crc9', 0)} {vals.get('crc32', 0)} {t2}", out))
                    ctx.case((k.name, "convert", json.dumps(vals, sort_keys=True), t2))
                    # the property for convert: converting to the own type is the identity
                    if t2 == tname and not err:
                        d = diff_attrs(attrs(p), attrs(q))
                        if d:
                            ctx.fail("convert-own-type", {"kind": k.name, "variant": var.name, "mode": "fields", "fields": vals},
                                     f"{k.name}: convert to the block's own type changes {d}")
            ctx.correspond(f"{k.name}.convert", conv)
        # decode side
        dec_pairs = []
        n_bits = (ctx.budget(*k.n_bits) if k.n_bits else ctx.budget(3000, 100000)) if k.length is None or k.length > 8 else 256
        seen = set()
        seeds = []
        if k.length == 8:
            seeds = [int2ba(v, length=8) for v in range(256)]
        else:
            for _ in range(n_bits):
                seeds.append(k.bit_seeds(ctx.rng))
            # single-bit mutations of valid encodings
            for line, bits in enc_pairs[: ctx.budget(300, 3000)]:
                bits = bits.split(" ")[-1]
                if bits.startswith("ERR"):
                    continue
                b = bitarray(bits if bits != "-" else "")
                if len(b):
                    b.invert(ctx.rng.randrange(len(b)))
                    seeds.append(b)
        if k.length != 8:
            for desc, b, tcls in token_overlay_cases(ctx, k, ctx.rng, toks):
                ctx.count(f"token-overlay:{desc[0]}:{k.name}")
                seeds.append(b)
        for b in seeds:
            s = sbits(b)
            if s in seen:
                continue
            seen.add(s)
            ctx.case((k.name, "bits", s), nontrivial=True, sample={"kind": k.name, "bits": s} if len(seen) == 1 else None)
            out = check_bits(ctx, k, b)
            dec_pairs.append((k.dec_line(s), out))
        if not ctx.search_only and ctx.driver_ok and dec_pairs:
            ctx.correspond(f"{k.name}.dec", dec_pairs)
        # wrong lengths: outside the property (no oracle), the model must reject what the code rejects
        if not ctx.search_only and ctx.driver_ok:
            wl = []
            L = k.length or 96
            for n in sorted({0, 1, L - 1, L + 1, L + 8, 36, 77, 96, 144, 192} - {L}):
                if k.name == "dh" and n < 96:
                    continue  # DataHeader.from_bits has no length check: model answers 'other' (documented)
                for _ in range(2):
                    b = k.bit_seeds(ctx.rng)
                    b = (b + int2ba(ctx.rng.getrandbits(200), length=200))[:n] if n else bitarray()
                    if k.name == "udp":
                        b = int2ba(ctx.rng.getrandbits(n), length=n) if n else bitarray()
                    o, err = call(k.from_bits, bitarray(b))
                    if err:
                        out = err
                    else:
                        e1, err = call(o.as_bits)
                        out = err or f"ok {k.fmt(o)} {sbits(e1)}"
                    wl.append((k.dec_line(sbits(b)), out))
            ctx.correspond(f"{k.name}.dec(wrong length)", wl)
        ctx.hold.verify(ctx)
    ctx.hold.verify(ctx)
    alias_elements_final(ctx, held_elements)


def model_says(prop, line):
    """answer of the compiled model for one line (best effort, for replay output only)"""
    import os
    import subprocess

    exe = os.path.join(os.path.dirname(os.path.abspath(__file__)), "..", "..", "lean", ".lake", "build", "bin", f"drv_{prop.lower()}")
    try:
        return subprocess.run([exe], input=line + "\n", capture_output=True, text=True, timeout=60).stdout.strip()
    except Exception as e:  # noqa
        return f"(model driver not available: {e})"


ReplayCtx = SubCtx


def mini_sweep(r, ks, n=25):
    """a fixed small sweep over every kind (the 'other calls' of a held-result replay)"""
    import random

    rng = random.Random(0)
    sub = SubCtx()
    for k in ks.values():
        for var in k.variants:
            for _ in range(n):
                check_fields(sub, k, var, var.random_vals(rng))
        for _ in range(n):
            check_bits(sub, k, k.bit_seeds(rng))


def replay_alias(r, inp, ks):
    probe = inp.get("probe")
    if probe == "element":
        probe_element(r, inp, ks)
    elif probe == "pdu":
        probe_pdu(r, inp, ks)
    elif probe == "element-held":
        held = alias_elements(r, ks)
        mini_sweep(r, ks)
        alias_elements_final(r, held)
    elif probe == "held":
        first = inp.get("first") or {}
        k = ks.get(first.get("kind"))
        if k is None:
            print("unknown kind", first.get("kind"))
            return
        h = Holder(1, 16)
        r.hold = h
        if first.get("mode") == "fields":
            check_fields(r, k, next(v for v in k.variants if v.name == first["variant"]), first["fields"])
        else:
            check_bits(r, k, bitarray(first["bits"] if first["bits"] != "-" else ""))
        r.hold = None
        mini_sweep(r, ks)
        h.verify(r)


def replay(obj):
    f = obj.get("failure") or {}
    inp = f.get("input") or {}
    print(json.dumps(obj.get("type")), f.get("what"))
    if not inp:
        print("no failing input recorded (proof / correspondence broke):", json.dumps(obj.get("no_longer_checks") or obj.get("correspondence_differences"))[:2000])
        return 1
    r = ReplayCtx()
    if inp.get("kind") == "element":
        line = f"elem {inp['element']} {inp['value']}"
        if inp["element"] == "FragmentSequenceNumber":
            out = check_fsn_value(r, inp["value"])
        else:
            out = "unknown element"
            for lname, cls, w in element_classes():
                if cls.__name__ == inp["element"]:
                    out = check_element_value(r, cls, w, inp["value"])
        print("implementation:", out)
        print("model         :", model_says(PROP, line))
    elif inp.get("kind") == "alias":
        replay_alias(r, inp, {k.name: k for k in kinds()})
    elif inp.get("mode") == "gps-float":
        w, n = inp["width"], inp["raw"]
        step = 360 / 2**25 if w == 25 else 180 / 2**24
        back = int((step * n) / step)
        print(f"implementation: raw {n} -> {step * n!r} -> {back}")
        if back != n:
            r.fail("gps-float-inexact", inp, "float step inexact", n, back)
    else:
        ks = {k.name: k for k in kinds()}
        k = ks.get(inp.get("kind"))
        if k is None:
            print("unknown kind", inp.get("kind"))
            return 1
        if inp.get("mode") == "fields":
            var = next(v for v in k.variants if v.name == inp["variant"])
            res = check_fields(r, k, var, inp["fields"])
            if res:
                print("implementation as_bits:", sbits(res[3]))
                print("model line            :", res[0])
                print("model                 :", model_says(PROP, res[0]))
        else:
            b = bitarray(inp["bits"] if inp["bits"] != "-" else "")
            print("implementation from_bits:", check_bits(r, k, b))
            print("model                   :", model_says(PROP, k.dec_line(inp["bits"])))
    for kind, what, exp, act in r.failures:
        print("STILL FAILS:", kind, what, "expected:", exp, "actual:", act)
    if not r.failures:
        print("the recorded input no longer fails on this tree")
    return 1 if r.failures else 0
