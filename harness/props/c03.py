"""C03 — layer-2/3 PDUs and information elements survive encode-decode (DESIGN §5 C03).

Oracle (on the real code, per PDU kind X):
  fields -> p = X(...);  bits = p.as_bits();  len(bits) == L;  q = X.from_bits(bits);
            every attribute of q equals the attribute of p (all attributes, not only the variant's);
            q.as_bits() == bits
  bits   -> X.from_bits(b) raises one of the documented errors, or returns o with e = o.as_bits(),
            len(e) == L, o2 = X.from_bits(e): attributes(o2) == attributes(o) and o2.as_bits() == e
  element-> E(v) for every v < 2^w: never "nothing", defined -> itself, folded -> a defined member that
            maps to itself, or ValueError
Correspondence (model vs code): `x.enc <fields>` -> bits, `x.dec <bits>` -> fields + re-encoded bits or
error kind, `elem <E> <v>`.
The attributes crc_ok / crc9_ok are integrity indicators (property C04) and are not compared here.
"""
import json
import math

from bitarray import bitarray
from bitarray.util import int2ba, ba2int

from common import impl_error

PROP = "C03"
MODULES = ["C03", "C03a", "C03b"]
GEN = ["Elements"]
MATCHERS = {}

SKIP_ATTRS = ("crc_ok", "crc9_ok")


# ------------------------------------------------------------------------------------------------
# canonical forms
def canon(v):
    import enum

    if isinstance(v, bool):
        return int(v)
    if isinstance(v, enum.Enum):
        return ["E", type(v).__name__, v.value if not isinstance(v.value, tuple) else list(v.value)]
    if isinstance(v, bitarray):
        return "b" + v.to01()
    if isinstance(v, (bytes, bytearray)):
        return "x" + bytes(v).hex()
    if isinstance(v, float):
        return ["F", v.hex()]
    if isinstance(v, int) or v is None or isinstance(v, str):
        return v
    if isinstance(v, (list, tuple)):
        return [canon(x) for x in v]
    if hasattr(v, "__dict__"):
        return {k: canon(x) for k, x in sorted(vars(v).items()) if k not in SKIP_ATTRS}
    return repr(type(v))


def attrs(o):
    return {k: canon(x) for k, x in sorted(vars(o).items()) if k not in SKIP_ATTRS}


def diff_attrs(a, b):
    return sorted(k for k in set(a) | set(b) if a.get(k, "<absent>") != b.get(k, "<absent>"))


def b01(x):
    return "1" if x else "0"


def sbits(b):
    s = b.to01() if isinstance(b, bitarray) else b
    return s if s else "-"


def shex(b):
    return bytes(b).hex() if len(b) else "-"


# ------------------------------------------------------------------------------------------------
# type-directed field specs; values live in a JSON-able "plain" domain (int, '0101' strings, hex strings)
class U:
    """unsigned integer of w bits"""

    def __init__(self, w, extra=()):
        self.w = w
        self.extra = tuple(extra)

    def rand(self, rng):
        return rng.getrandbits(self.w)

    def specials(self, rng):
        return list(dict.fromkeys([0, (1 << self.w) - 1] + [1 << i for i in range(self.w)] + list(self.extra)))


class B(U):
    def __init__(self):
        super().__init__(1)


class E:
    """member value of an enum; `allowed` restricts to the members a PDU can carry"""

    def __init__(self, cls, allowed=None):
        self.cls = cls
        self.vals = [m.value for m in (allowed if allowed is not None else list(cls))]

    def rand(self, rng):
        return rng.choice(self.vals)

    def specials(self, rng):
        return list(self.vals)


class BITS:
    def __init__(self, n):
        self.n = n

    def rand(self, rng):
        return int2ba(rng.getrandbits(self.n), length=self.n).to01() if self.n else ""

    def specials(self, rng):
        n = self.n
        out = ["0" * n, "1" * n] + [("0" * i + "1" + "0" * (n - i - 1)) for i in range(n)]
        return list(dict.fromkeys(out))


class BYTES:
    def __init__(self, n):
        self.n = n

    def rand(self, rng):
        return rng.getrandbits(8 * self.n).to_bytes(self.n, "big").hex() if self.n else ""

    def specials(self, rng):
        n = self.n
        out = ["00" * n, "ff" * n]
        for i in range(0, 8 * n, max(1, (8 * n) // 16)):
            out.append((1 << i).to_bytes(n, "big").hex())
        return list(dict.fromkeys(out))


class S:
    """signed integer of w bits (two's complement range)"""

    def __init__(self, w):
        self.w = w

    def rand(self, rng):
        return rng.randrange(-(1 << (self.w - 1)), 1 << (self.w - 1))

    def specials(self, rng):
        w = self.w
        out = [0, -1, 1, (1 << (w - 1)) - 1, -(1 << (w - 1)), -(1 << (w - 1)) + 1]
        out += [1 << i for i in range(w - 1)] + [-(1 << i) for i in range(w - 1)]
        return list(dict.fromkeys(out))


class Variant:
    def __init__(self, kind, name, fields, build, length=None, fix=None):
        self.kind = kind
        self.name = name
        self.fields = fields  # [(plain field name, spec)]
        self.build = build  # plain dict -> object
        self.length = length  # plain dict -> expected serialised length (default: kind.length)
        self.fix = fix  # plain dict -> plain dict: re-establish cross-field constraints after a special value was set

    def random_vals(self, rng):
        return {n: s.rand(rng) for n, s in self.fields}


class Kind:
    """one PDU class: variants, decoder, canonical field text, documented decode errors"""

    def __init__(self, name, length, from_bits, fmt, errors, variants=None, bit_seeds=None, extra_check=None,
                 dec_line=None, enc_line=None, enc_out=None, n_bits=None):
        self.dec_line = dec_line or (lambda s: f"{name}.dec {s}")
        self.enc_line = enc_line or (lambda p, vals: f"{name}.enc {fmt(p, vals.get('crc'))}")
        self.enc_out = enc_out or (lambda p, bits: sbits(bits))
        self.n_bits = n_bits
        self.name = name
        self.length = length  # serialised length (None: variable)
        self.from_bits = from_bits
        self.fmt = fmt  # object -> canonical field text (same text the driver prints / parses)
        self.errors = set(errors)
        self.variants = variants or []
        self.bit_seeds = bit_seeds  # rng -> structured 'random' right-length bit string
        self.extra_check = extra_check  # object -> None | str   (e.g. unrelated attributes at default)


# ------------------------------------------------------------------------------------------------
# ServiceOptions + CSBK
def so_fields(prefix="so_"):
    return [
        (prefix + "e", B()),
        (prefix + "p", B()),
        (prefix + "r", BITS(2)),
        (prefix + "b", B()),
        (prefix + "o", B()),
        (prefix + "pl", U(2)),
    ]


def so_build(v, prefix="so_"):
    from okdmr.dmrlib.etsi.layer3.elements.service_options import ServiceOptions

    return ServiceOptions(
        is_emergency=v[prefix + "e"],
        is_privacy=v[prefix + "p"],
        reserved=bitarray(v[prefix + "r"]),
        is_broadcast=v[prefix + "b"],
        is_open_voice_call_mode=v[prefix + "o"],
        priority_level=v[prefix + "pl"],
    )


def so_args(s):
    return [b01(s.is_emergency), b01(s.is_privacy), sbits(s.reserved), b01(s.is_broadcast), b01(s.is_open_voice_call_mode), str(s.priority_level)]


def mk_so_kind():
    from okdmr.dmrlib.etsi.layer3.elements.service_options import ServiceOptions

    k = Kind("so", 8, ServiceOptions.from_bits, lambda s, crc=None: ",".join(so_args(s)), errors=["AssertionError"])
    k.variants = [Variant(k, "so", so_fields(), so_build)]
    k.bit_seeds = lambda rng: int2ba(rng.getrandbits(8), length=8)
    return k


def mk_csbk_kind():
    from okdmr.dmrlib.etsi.layer2.pdu.csbk import CSBK
    from okdmr.dmrlib.etsi.layer2.elements.csbk_opcodes import CsbkOpcodes as O
    from okdmr.dmrlib.etsi.layer2.elements.feature_set_ids import FeatureSetIDs
    from okdmr.dmrlib.etsi.layer3.elements.additional_information_field import AdditionalInformationField
    from okdmr.dmrlib.etsi.layer3.elements.announcement_type import AnnouncementType
    from okdmr.dmrlib.etsi.layer3.elements.answer_response import AnswerResponse
    from okdmr.dmrlib.etsi.layer3.elements.channel_timing_opcode import ChannelTimingOpcode
    from okdmr.dmrlib.etsi.layer3.elements.dynamic_identifier import DynamicIdentifier
    from okdmr.dmrlib.etsi.layer3.elements.random_access_service_function import RandomAccessServiceFunction
    from okdmr.dmrlib.etsi.layer3.elements.reason_code import ReasonCode
    from okdmr.dmrlib.etsi.layer3.elements.source_type import SourceType

    hdr = [("lb", B()), ("pf", B()), ("fid", E(FeatureSetIDs)), ("crc", U(16))]

    def common(v, op):
        return dict(
            csbko=op,
            last_block=v["lb"],
            protect_flag=v["pf"],
            manufacturers_feature_set_id=FeatureSetIDs(v["fid"]),
            crc=v["crc"],
        )

    # (variant name, opcode, fields, constructor kwargs from plain values, attribute names carried)
    table = [
        ("bsDwnAct", O.BSOutboundActivation, [("bs", U(24)), ("src", U(24))],
         lambda v: dict(bs_address=v["bs"], source_address=v["src"]),
         lambda o: [o.bs_address, o.source_address], ["bs_address", "source_address"]),
        ("uuVReq", O.UnitToUnitVoiceServiceRequest, so_fields() + [("tgt", U(24)), ("src", U(24))],
         lambda v: dict(service_options=so_build(v), target_address=v["tgt"], source_address=v["src"]),
         lambda o: so_args(o.service_options) + [o.target_address, o.source_address],
         ["service_options", "target_address", "source_address"]),
        ("uuAnsRsp", O.UnitToUnitVoiceServiceAnswerResponse,
         so_fields() + [("ar", E(AnswerResponse)), ("tgt", U(24)), ("src", U(24))],
         lambda v: dict(service_options=so_build(v), answer_response=AnswerResponse(v["ar"]), target_address=v["tgt"], source_address=v["src"]),
         lambda o: so_args(o.service_options) + [o.answer_response.value, o.target_address, o.source_address],
         ["service_options", "answer_response", "target_address", "source_address"]),
        ("nackRsp", O.NegativeAcknowledgementResponse,
         [("aif", E(AdditionalInformationField)), ("st", E(SourceType)), ("svc", E(O)), ("rc", E(ReasonCode)), ("src", U(24)), ("tgt", U(24))],
         lambda v: dict(additional_information_field=AdditionalInformationField(v["aif"]), source_type=SourceType(v["st"]),
                        service_type=O(v["svc"]), reason_code=ReasonCode(v["rc"]), source_address=v["src"], target_address=v["tgt"]),
         lambda o: [o.additional_information_field.value, o.source_type.value, o.service_type.value, o.reason_code.value, o.source_address, o.target_address],
         ["additional_information_field", "source_type", "service_type", "reason_code", "source_address", "target_address"]),
        ("preamble", O.PreambleCSBK, [("cf", B()), ("ind", B()), ("btf", U(8)), ("tgt", U(24)), ("src", U(24))],
         lambda v: dict(csbk_content_follows_preambles=v["cf"], target_address_is_individual=v["ind"], blocks_to_follow=v["btf"],
                        target_address=v["tgt"], source_address=v["src"]),
         lambda o: [b01(o.csbk_content_follows_preambles), b01(o.target_address_is_individual), o.blocks_to_follow, o.target_address, o.source_address],
         ["csbk_content_follows_preambles", "target_address_is_individual", "blocks_to_follow", "target_address", "source_address"]),
        ("channelTiming", O.ChannelTimingCSBK,
         [("age", U(11)), ("gen", U(5)), ("lid", U(20)), ("nl", U(1)), ("ldi", E(DynamicIdentifier)), ("cto", E(ChannelTimingOpcode)),
          ("sid", U(20)), ("sdi", E(DynamicIdentifier))],
         lambda v: dict(sync_age=v["age"], generation=v["gen"], leader_identifier=v["lid"], new_leader=v["nl"],
                        leader_dynamic_identifier=DynamicIdentifier(v["ldi"]), channel_timing_opcode=ChannelTimingOpcode(v["cto"]),
                        source_identifier=v["sid"], source_dynamic_identifier=DynamicIdentifier(v["sdi"])),
         lambda o: [o.sync_age, o.generation, o.leader_identifier, o.new_leader, o.leader_dynamic_identifier.value,
                    o.channel_timing_opcode.value, o.source_identifier, o.source_dynamic_identifier.value],
         ["sync_age", "generation", "leader_identifier", "new_leader", "leader_dynamic_identifier", "channel_timing_opcode",
          "source_identifier", "source_dynamic_identifier"]),
        ("hyteraIpscSync", O.HyteraIPSCSync, [("raw", BYTES(8))],
         lambda v: dict(raw_data=bytes.fromhex(v["raw"])),
         lambda o: [shex(o.raw_data)], ["raw_data"]),
        ("aloha", O.AlohaPDUsForRandomAccessProtocol,
         [("tsccas", B()), ("sync", B()), ("dvc", U(3)), ("off", B()), ("act", B()), ("mask", U(5)), ("sf", E(RandomAccessServiceFunction)),
          ("nrand", U(4)), ("reg", B()), ("backoff", U(4)), ("sys", U(16)), ("tgt", U(24))],
         lambda v: dict(tsccas_support=bool(v["tsccas"]), site_timeslot_synchronized=bool(v["sync"]), document_version_control=v["dvc"],
                        tscc_is_offset_timing=bool(v["off"]), ts_active_connection=bool(v["act"]), aloha_mask=v["mask"],
                        service_function=RandomAccessServiceFunction(v["sf"]), nrand_wait=v["nrand"], tscc_reg_required=bool(v["reg"]),
                        tscc_backoff=v["backoff"], system_identity_code=v["sys"], target_address=v["tgt"]),
         lambda o: [b01(o.tsccas_support), b01(o.site_timeslot_synchronized), o.document_version_control, b01(o.tscc_is_offset_timing),
                    b01(o.ts_active_connection), o.aloha_mask, o.service_function.value, o.nrand_wait, b01(o.tscc_reg_required),
                    o.tscc_backoff, o.system_identity_code, o.target_address],
         ["tsccas_support", "site_timeslot_synchronized", "document_version_control", "tscc_is_offset_timing", "ts_active_connection",
          "aloha_mask", "service_function", "nrand_wait", "tscc_reg_required", "tscc_backoff", "system_identity_code", "target_address"]),
        ("broadcast", O.AnnouncementPDUsWithoutResponse,
         [("at", E(AnnouncementType)), ("params", BITS(38)), ("reg", B()), ("backoff", U(4)), ("sys", U(16))],
         lambda v: dict(announcement_type=AnnouncementType(v["at"]), broadcast_params=bitarray(v["params"]), tscc_reg_required=bool(v["reg"]),
                        tscc_backoff=v["backoff"], system_identity_code=v["sys"]),
         lambda o: [o.announcement_type.value, sbits(o.broadcast_params), b01(o.tscc_reg_required), o.tscc_backoff, o.system_identity_code],
         ["announcement_type", "broadcast_params", "tscc_reg_required", "tscc_backoff", "system_identity_code"]),
    ]
    by_op = {t[1]: t for t in table}
    defaults = {}

    def fmt(o, crc=None):
        t = by_op[o.csbko]
        return " ".join([b01(o.last_block), b01(o.protect_flag), str(o.feature_set.value), str(o.crc if crc is None else crc), t[0],
                         ",".join(str(x) for x in t[4](o))])

    def extra(o):
        t = by_op.get(o.csbko)
        if t is None:
            return None
        if o.csbko not in defaults:
            defaults[o.csbko] = attrs(CSBK(csbko=o.csbko, crc=1))
        d = defaults[o.csbko]
        a = attrs(o)
        keep = set(t[5]) | {"last_block", "protect_flag", "csbko", "feature_set", "crc"}
        bad = [k for k in a if k not in keep and a[k] != d.get(k)]
        return ("non-default unrelated attributes " + ",".join(bad)) if bad else None

    k = Kind("csbk", 96, CSBK.from_bits, fmt, errors=["ValueError", "NotImplementedError"], extra_check=extra)
    for name, op, fields, kw, _a, _n in table:
        k.variants.append(
            Variant(k, name, hdr + fields, (lambda v, op=op, kw=kw: CSBK(**common(v, op), **kw(v))))
        )
    ops = [t[1].value for t in table]

    def seeds(rng):
        b = int2ba(rng.getrandbits(96), length=96)
        r = rng.random()
        if r < 0.75:
            b[2:8] = int2ba(rng.choice(ops), length=6)
        elif r < 0.85:
            b[2:8] = int2ba(rng.choice([m.value for m in O]), length=6)
        op = ba2int(b[2:8])
        if rng.random() < 0.6:
            # make the inner enumerations valid more often than 1/256
            if op == O.UnitToUnitVoiceServiceAnswerResponse.value:
                b[24:32] = int2ba(rng.choice([0x20, 0x21]), length=8)
            if op == O.NegativeAcknowledgementResponse.value:
                b[24:32] = int2ba(0x21, length=8)
                b[18:24] = int2ba(rng.choice([m.value for m in O]), length=6)
        if rng.random() < 0.15:
            b[80:96] = 0
        return b

    k.bit_seeds = seeds
    return k


class UNZ(U):
    """unsigned integer of w bits, never 0"""

    def rand(self, rng):
        return rng.randrange(1, 1 << self.w)

    def specials(self, rng):
        return [v for v in super().specials(rng) if v != 0]


class VBITS:
    """bit string of variable length 0..n"""

    def __init__(self, n):
        self.n = n

    def rand(self, rng):
        k = rng.randrange(self.n + 1)
        return int2ba(rng.getrandbits(k), length=k).to01() if k else ""

    def specials(self, rng):
        return ["", "0", "1", "0" * self.n, "1" * self.n, "1" + "0" * (self.n - 1)]


class CHOICE:
    def __init__(self, spec_a, spec_b):
        self.a, self.b = spec_a, spec_b

    def rand(self, rng):
        return (self.a if rng.random() < 0.5 else self.b).rand(rng)

    def specials(self, rng):
        return self.a.specials(rng) + self.b.specials(rng)


def cross_variant_defaults(kind, carried, rng_seed=0):
    """attribute -> value it has in an object of a variant that does not carry it (the constructor default)"""
    import random

    rng = random.Random(rng_seed)
    objs = {}
    for var in kind.variants:
        vals = var.random_vals(rng)
        if var.fix:
            vals = var.fix(vals)
        objs[var.name] = attrs(var.build(vals))
    d = {}
    for vname, a in objs.items():
        for k, v in a.items():
            if k not in carried[vname] and k not in d:
                d[k] = v
    return d


def mk_dh_kind():
    from okdmr.dmrlib.etsi.layer2.pdu.data_header import DataHeader
    from okdmr.dmrlib.etsi.layer2.elements.data_packet_formats import DataPacketFormats as D
    from okdmr.dmrlib.etsi.layer2.elements.sap_identifier import SAPIdentifier
    from okdmr.dmrlib.etsi.layer2.elements.full_message_flag import FullMessageFlag
    from okdmr.dmrlib.etsi.layer2.elements.resynchronize_flag import ResynchronizeFlag
    from okdmr.dmrlib.etsi.layer2.elements.defined_data_formats import DefinedDataFormats
    from okdmr.dmrlib.etsi.layer2.elements.sarq import SARQ
    from okdmr.dmrlib.etsi.layer2.elements.udt_format import UDTFormat
    from okdmr.dmrlib.etsi.layer2.elements.supplementary_flag import SupplementaryFlag
    from okdmr.dmrlib.etsi.layer2.elements.csbk_opcodes import CsbkOpcodes
    from okdmr.dmrlib.etsi.layer3.elements.udt_option_flag import UDTOptionFlag

    hdr = [("crc", BITS(16))]
    common_attrs = {"data_packet_format", "crc"}
    table = [
        ("confirmed", D.DataPacketConfirmed,
         [("G", B()), ("A", B()), ("poc", U(5)), ("sap", E(SAPIdentifier)), ("dst", U(24)), ("src", U(24)), ("fmf", E(FullMessageFlag)),
          ("btf", U(7)), ("rsf", E(ResynchronizeFlag)), ("ns", U(3)), ("fsn", U(4))],
         lambda v: dict(is_group=v["G"], is_response_requested=v["A"], pad_octet_count=v["poc"], sap_identifier=SAPIdentifier(v["sap"]),
                        llid_destination=v["dst"], llid_source=v["src"], full_message_flag=FullMessageFlag(v["fmf"]), blocks_to_follow=v["btf"],
                        resynchronize_flag=ResynchronizeFlag(v["rsf"]), send_sequence_number=v["ns"], fragment_sequence_number=v["fsn"]),
         lambda o: [b01(o.is_group), b01(o.is_response_requested), o.pad_octet_count, o.sap_identifier.value, o.llid_destination, o.llid_source,
                    o.full_message_flag.value, o.blocks_to_follow, o.resynchronize_flag.value, o.send_sequence_number, o.fragment_sequence_number.value],
         ["is_group", "is_response_requested", "pad_octet_count", "sap_identifier", "llid_destination", "llid_source", "full_message_flag",
          "blocks_to_follow", "resynchronize_flag", "send_sequence_number", "fragment_sequence_number"]),
        ("unconfirmed", D.DataPacketUnconfirmed,
         [("G", B()), ("A", B()), ("poc", U(5)), ("sap", E(SAPIdentifier)), ("dst", U(24)), ("src", U(24)), ("fmf", E(FullMessageFlag)),
          ("btf", U(7)), ("fsn", U(4))],
         lambda v: dict(is_group=v["G"], is_response_requested=v["A"], pad_octet_count=v["poc"], sap_identifier=SAPIdentifier(v["sap"]),
                        llid_destination=v["dst"], llid_source=v["src"], full_message_flag=FullMessageFlag(v["fmf"]), blocks_to_follow=v["btf"],
                        fragment_sequence_number=v["fsn"]),
         lambda o: [b01(o.is_group), b01(o.is_response_requested), o.pad_octet_count, o.sap_identifier.value, o.llid_destination, o.llid_source,
                    o.full_message_flag.value, o.blocks_to_follow, o.fragment_sequence_number.value],
         ["is_group", "is_response_requested", "pad_octet_count", "sap_identifier", "llid_destination", "llid_source", "full_message_flag",
          "blocks_to_follow", "fragment_sequence_number"]),
        ("response", D.ResponsePacket,
         [("A", B()), ("sap", E(SAPIdentifier)), ("dst", U(24)), ("src", U(24)), ("fmf", E(FullMessageFlag)), ("btf", U(7)),
          ("cls", U(2)), ("typ", U(3)), ("status", U(3))],
         lambda v: dict(is_response_requested=v["A"], sap_identifier=SAPIdentifier(v["sap"]), llid_destination=v["dst"], llid_source=v["src"],
                        full_message_flag=FullMessageFlag(v["fmf"]), blocks_to_follow=v["btf"], response_class=v["cls"], response_type=v["typ"],
                        response_status=v["status"]),
         lambda o: [b01(o.is_response_requested), o.sap_identifier.value, o.llid_destination, o.llid_source, o.full_message_flag.value,
                    o.blocks_to_follow, o.response_class, o.response_type, o.response_status],
         ["is_response_requested", "sap_identifier", "llid_destination", "llid_source", "full_message_flag", "blocks_to_follow",
          "response_class", "response_type", "response_status"]),
        ("shortDataDefined", D.ShortDataDefined,
         [("G", B()), ("A", B()), ("ab", U(6)), ("sap", E(SAPIdentifier)), ("dst", U(24)), ("src", U(24)), ("ddf", E(DefinedDataFormats)),
          ("sarq", E(SARQ)), ("fmf", E(FullMessageFlag)), ("pad", BITS(8))],
         lambda v: dict(is_group=v["G"], is_response_requested=v["A"], appended_blocks=v["ab"], sap_identifier=SAPIdentifier(v["sap"]),
                        llid_destination=v["dst"], llid_source=v["src"], defined_data_format=DefinedDataFormats(v["ddf"]), sarq=SARQ(v["sarq"]),
                        full_message_flag=FullMessageFlag(v["fmf"]), bit_padding=bitarray(v["pad"])),
         lambda o: [b01(o.is_group), b01(o.is_response_requested), o.appended_blocks, o.sap_identifier.value, o.llid_destination, o.llid_source,
                    o.defined_data_format.value, o.sarq.value, o.full_message_flag.value, sbits(o.bit_padding)],
         ["is_group", "is_response_requested", "appended_blocks", "sap_identifier", "llid_destination", "llid_source", "defined_data_format",
          "sarq", "full_message_flag", "bit_padding"]),
        ("udt", D.UnifiedDataTransport,
         [("G", B()), ("A", B()), ("Em", B()), ("of", E(UDTOptionFlag)), ("sap", E(SAPIdentifier)), ("fmt", E(UDTFormat)), ("dst", U(24)),
          ("src", U(24)), ("pn", U(5)), ("ab", U(2)), ("sf", E(SupplementaryFlag)), ("op", E(CsbkOpcodes))],
         lambda v: dict(is_group=v["G"], is_response_requested=v["A"], is_emergency=v["Em"], udt_option_flag=UDTOptionFlag(v["of"]),
                        sap_identifier=SAPIdentifier(v["sap"]), udt_format=UDTFormat(v["fmt"]), llid_destination=v["dst"], llid_source=v["src"],
                        pad_nibbles_count=v["pn"], appended_blocks=v["ab"], supplementary_flag=SupplementaryFlag(v["sf"]),
                        udt_opcode=CsbkOpcodes(v["op"])),
         lambda o: [b01(o.is_group), b01(o.is_response_requested), b01(o.is_emergency), o.udt_option_flag.value, o.sap_identifier.value,
                    o.udt_format.value, o.llid_destination, o.llid_source, o.pad_nibbles_count, o.appended_blocks, o.supplementary_flag.value,
                    o.udt_opcode.value],
         ["is_group", "is_response_requested", "is_emergency", "udt_option_flag", "sap_identifier", "udt_format", "llid_destination",
          "llid_source", "pad_nibbles_count", "appended_blocks", "supplementary_flag", "udt_opcode"]),
    ]
    by_dpf = {t[1]: t for t in table}

    def fmt(o, crc=None):
        t = by_dpf[o.data_packet_format]
        c = sbits(o.crc) if crc is None else sbits(crc)
        return " ".join([c, t[0], ",".join(str(x) for x in t[4](o))])

    k = Kind("dh", 96, DataHeader.from_bits, fmt, errors=["ValueError", "NotImplementedError"])
    for name, dpf, fields, kw, _a, _n in table:
        k.variants.append(Variant(k, name, hdr + fields, (lambda v, dpf=dpf, kw=kw: DataHeader(dpf=dpf, crc=bitarray(v["crc"]), **kw(v)))))
    carried = {t[0]: set(t[5]) | common_attrs for t in table}
    defaults = cross_variant_defaults(k, carried)

    def extra(o):
        t = by_dpf.get(o.data_packet_format)
        if t is None:
            return None
        a = attrs(o)
        bad = [x for x in a if x not in carried[t[0]] and x in defaults and a[x] != defaults[x]]
        return ("non-default unrelated attributes " + ",".join(bad)) if bad else None

    k.extra_check = extra
    dpfs = [t[1].value for t in table]

    def seeds(rng):
        b = int2ba(rng.getrandbits(96), length=96)
        if rng.random() < 0.85:
            b[4:8] = int2ba(rng.choice(dpfs), length=4)
        if ba2int(b[4:8]) == 0 and rng.random() < 0.7:
            b[74:80] = int2ba(rng.choice([m.value for m in CsbkOpcodes]), length=6)
        if rng.random() < 0.15:
            b[80:96] = 0
        return b

    k.bit_seeds = seeds
    return k


GPS_LON = 360 / 2**25
GPS_LAT = 180 / 2**24


def gps_raw(x, step):
    r = x / step
    return int(r) if r == int(r) else repr(r)


def mk_flc_kind():
    from okdmr.dmrlib.etsi.layer2.pdu.full_link_control import FullLinkControl
    from okdmr.dmrlib.etsi.layer2.elements.flcos import FLCOs
    from okdmr.dmrlib.etsi.layer2.elements.feature_set_ids import FeatureSetIDs
    from okdmr.dmrlib.etsi.layer3.elements.position_error import PositionError
    from okdmr.dmrlib.etsi.layer3.elements.talker_alias_data_format import TalkerAliasDataFormat

    hdr = [("pf", B()), ("fid", E(FeatureSetIDs)), ("crc", CHOICE(BITS(24), BITS(5)))]
    table = [
        ("unitToUnit", [FLCOs.UnitToUnitVoiceChannelUser], so_fields() + [("tgt", U(24)), ("src", U(24))],
         lambda v: dict(service_options=so_build(v), target_address=v["tgt"], source_address=v["src"]),
         lambda o: so_args(o.service_options) + [o.target_address, o.source_address],
         ["service_options", "target_address", "source_address"]),
        ("group", [FLCOs.GroupVoiceChannelUser], so_fields() + [("grp", U(24)), ("src", U(24))],
         lambda v: dict(service_options=so_build(v), group_address=v["grp"], source_address=v["src"]),
         lambda o: so_args(o.service_options) + [o.group_address, o.source_address],
         ["service_options", "group_address", "source_address"]),
        ("gpsInfo", [FLCOs.GPSInfo], [("pe", E(PositionError)), ("lon", S(25)), ("lat", S(24))],
         lambda v: dict(position_error=PositionError(v["pe"]), longitude=v["lon"] * GPS_LON, latitude=v["lat"] * GPS_LAT),
         lambda o: [o.position_error.value, gps_raw(o.longitude, GPS_LON), gps_raw(o.latitude, GPS_LAT)],
         ["position_error", "longitude", "latitude"]),
        ("talkerAliasHeader", [FLCOs.TalkerAliasHeader], [("fmt", E(TalkerAliasDataFormat)), ("len", U(5)), ("msb", B()), ("data", BYTES(6))],
         lambda v: dict(talker_alias_data_format=TalkerAliasDataFormat(v["fmt"]), talker_alias_data_length=v["len"],
                        talker_alias_data_msb=v["msb"], talker_alias_data=bytes.fromhex(v["data"])),
         lambda o: [o.talker_alias_data_format.value, o.talker_alias_data_length, b01(o.talker_alias_data_msb), shex(o.talker_alias_data)],
         ["talker_alias_data_format", "talker_alias_data_length", "talker_alias_data_msb", "talker_alias_data"]),
        ("talkerAliasBlock", [FLCOs.TalkerAliasBlock1, FLCOs.TalkerAliasBlock2, FLCOs.TalkerAliasBlock3],
         [("flco", E(FLCOs, [FLCOs.TalkerAliasBlock1, FLCOs.TalkerAliasBlock2, FLCOs.TalkerAliasBlock3])), ("data", BYTES(7))],
         lambda v: dict(talker_alias_data=bytes.fromhex(v["data"])),
         lambda o: [o.full_link_control_opcode.value, shex(o.talker_alias_data)],
         ["talker_alias_data"]),
    ]
    by_op = {}
    for t in table:
        for op in t[1]:
            by_op[op] = t

    def fmt(o, crc=None):
        t = by_op[o.full_link_control_opcode]
        return " ".join([b01(o.protect_flag), str(o.feature_set_id.value), sbits(o.crc), t[0], ",".join(str(x) for x in t[4](o))])

    def extra(o):
        t = by_op.get(o.full_link_control_opcode)
        if t is None:
            return None
        d = attrs(FullLinkControl(protect_flag=0, flco=o.full_link_control_opcode, fid=o.feature_set_id, crc=o.crc))
        a = attrs(o)
        keep = set(t[5]) | {"protect_flag", "full_link_control_opcode", "feature_set_id", "crc"}
        bad = [x for x in a if x not in keep and a[x] != d.get(x)]
        return ("non-default unrelated attributes " + ",".join(bad)) if bad else None

    k = Kind("flc", None, FullLinkControl.from_bits, fmt, errors=["ValueError", "KeyError"], extra_check=extra)
    for name, ops, fields, kw, _a, _n in table:
        def build(v, ops=ops, kw=kw):
            flco = FLCOs(v["flco"]) if "flco" in v else ops[0]
            return FullLinkControl(protect_flag=v["pf"], flco=flco, fid=FeatureSetIDs(v["fid"]), crc=bitarray(v["crc"]), **kw(v))

        k.variants.append(Variant(k, name, hdr + fields, build, length=lambda v: 72 + len(v["crc"])))
    ops = [op.value for op in by_op]

    def seeds(rng):
        n = 96 if rng.random() < 0.6 else 77
        b = int2ba(rng.getrandbits(n), length=n)
        r = rng.random()
        if r < 0.8:
            b[2:8] = int2ba(rng.choice(ops), length=6)
        elif r < 0.9:
            b[2:8] = int2ba(rng.choice([m.value for m in FLCOs]), length=6)
        return b

    k.bit_seeds = seeds
    return k


def mk_slc_kind():
    from okdmr.dmrlib.etsi.layer2.pdu.short_link_control import ShortLinkControl
    from okdmr.dmrlib.etsi.layer2.elements.slcos import SLCOs
    from okdmr.dmrlib.etsi.layer3.elements.activity_id import ActivityID

    def fmt(o, crc=None):
        c = sbits(o.crc_8bit) if crc is None else sbits(crc)
        if o.slco == SLCOs.NullMessage:
            return f"{c} null -"
        return f"{c} activity {o.ts1_activity_id.value},{o.ts2_activity_id.value},{sbits(o.ts1_address)},{sbits(o.ts2_address)}"

    def extra(o):
        if o.slco == SLCOs.NullMessage:
            d = attrs(ShortLinkControl(slco=SLCOs.NullMessage, crc_8bit=1))
            a = attrs(o)
            bad = [x for x in a if x not in ("slco", "crc_8bit") and a[x] != d.get(x)]
            return ("non-default unrelated attributes " + ",".join(bad)) if bad else None
        return None

    k = Kind("slc", 36, ShortLinkControl.from_bits, fmt, errors=["KeyError", "ValueError"], extra_check=extra)
    k.variants = [
        Variant(k, "null", [("crc", BITS(8))], lambda v: ShortLinkControl(slco=SLCOs.NullMessage, crc_8bit=bitarray(v["crc"]))),
        Variant(k, "activity", [("crc", BITS(8)), ("t1", E(ActivityID)), ("t2", E(ActivityID)), ("a1", BITS(8)), ("a2", BITS(8))],
                lambda v: ShortLinkControl(slco=SLCOs.ActivityUpdate, crc_8bit=bitarray(v["crc"]), ts1_activity_id=ActivityID(v["t1"]),
                                           ts2_activity_id=ActivityID(v["t2"]), ts1_address=bitarray(v["a1"]), ts2_address=bitarray(v["a2"]))),
    ]

    def seeds(rng):
        b = int2ba(rng.getrandbits(36), length=36)
        if rng.random() < 0.8:
            b[0:4] = int2ba(rng.choice([0, 1]), length=4)
        if rng.random() < 0.2:
            b[28:36] = 0
        return b

    k.bit_seeds = seeds
    k.n_bits = (1200, 30000)
    return k


def mk_pi_kind():
    from okdmr.dmrlib.etsi.layer2.pdu.pi_header import PIHeader

    k = Kind("pi", 96, PIHeader.from_bits, lambda o, crc=None: f"{shex(o.data)} {o.crc}", errors=[])
    k.variants = [Variant(k, "pi", [("data", BYTES(10)), ("crc", U(16))], lambda v: PIHeader(data=bytes.fromhex(v["data"]), crc=v["crc"]))]
    k.bit_seeds = lambda rng: int2ba(rng.getrandbits(96), length=96)
    k.n_bits = (800, 20000)
    return k


RATE_TYPES = ["unconfirmed", "confirmed", "unconfirmedLast", "confirmedLast"]


def mk_rate_kinds():
    from okdmr.dmrlib.etsi.layer2.pdu.rate12_data import Rate12Data, Rate12DataTypes
    from okdmr.dmrlib.etsi.layer2.pdu.rate34_data import Rate34Data, Rate34DataTypes
    from okdmr.dmrlib.etsi.layer2.pdu.rate1_data import Rate1Data, Rate1DataTypes

    out = []
    for cname, cls, T, total in (("12", Rate12Data, Rate12DataTypes, 12), ("34", Rate34Data, Rate34DataTypes, 18), ("1", Rate1Data, Rate1DataTypes, 24)):
        members = {"unconfirmed": T.Unconfirmed, "confirmed": T.Confirmed, "unconfirmedLast": T.UnconfirmedLastBlock,
                   "confirmedLast": T.ConfirmedLastBlock, "undefined": T.Undefined}
        for tname in RATE_TYPES + ["undefined"]:
            member = members[tname]
            fmt = lambda o, crc=None: f"{shex(o.data)} {o.dbsn} {o.crc9} {o.crc32}"
            k = Kind(f"rate{cname}.{tname}", 8 * total, (lambda b, cls=cls, member=member: cls.from_bits_typed(b, member)), fmt, errors=[],
                     dec_line=(lambda s, cname=cname, tname=tname: f"rate.dec {cname} {tname} {s}"))
            k.bit_seeds = lambda rng, total=total: (
                (lambda b: (b.__setitem__(slice(7, 16), 0), b)[1] if rng.random() < 0.15 else b)(int2ba(rng.getrandbits(8 * total), length=8 * total)))
            k.n_bits = (250, 6000)
            if tname != "undefined":
                dl = member.value
                fields = [("data", BYTES(dl))]
                if tname in ("confirmed", "confirmedLast"):
                    fields += [("dbsn", U(7)), ("crc9", U(9))]
                if tname in ("unconfirmedLast", "confirmedLast"):
                    fields += [("crc32", U(32))]

                def build(v, cls=cls, member=member):
                    return cls(data=bytes.fromhex(v["data"]), packet_type=member, dbsn=v.get("dbsn", 0), crc9=v.get("crc9", 0), crc32=v.get("crc32", 0))

                k.variants = [Variant(k, tname, fields, build)]
                k.enc_line = (lambda p, v, cname=cname, tname=tname:
                              f"rate.enc {cname} {tname} {v['data'] or '-'} {v.get('dbsn', 0)} {v.get('crc9', 0)} {v.get('crc32', 0)}")
                k.enc_out = lambda p, bits: f"{p.crc9} {sbits(bits)}"
                k.rate = (cname, tname, members)
            out.append(k)
    return out


def mk_udp_kind():
    from okdmr.dmrlib.etsi.layer3.pdu.udp_ipv4_compressed_header import UDPIPv4CompressedHeader as H
    from okdmr.dmrlib.etsi.layer3.elements.ip_address_identifier import IPAddressIdentifier
    from okdmr.dmrlib.etsi.layer3.elements.udp_port_identifier import UDPPortIdentifier

    port_members = {m.value: m for m in UDPPortIdentifier}

    def fmt(o, crc=None):
        e = lambda x: "-" if x is None else str(x)
        return " ".join(str(x) for x in [o.ipv4_identification, o.source_ip_address_id.value, o.destination_ip_address_id.value,
                                         o.udp_source_port_original, o.udp_source_port_id.value, o.udp_destination_port_original,
                                         o.udp_destination_port_id.value, e(o.extended_header_1), e(o.extended_header_2), sbits(o.user_data)])

    k = Kind("udp", None, H.from_bits, fmt, errors=["AssertionError"])
    base = [("id", U(16)), ("sip", E(IPAddressIdentifier)), ("dip", E(IPAddressIdentifier)), ("ud", VBITS(80)), ("as_member", B())]

    def build(v):
        sp, dp = v.get("sp", 0), v.get("dp", 0)
        if v["as_member"]:
            sp = port_members.get(sp, sp)
            dp = port_members.get(dp, dp)
        return H(ipv4_identification=v["id"], source_ip_address_id=IPAddressIdentifier(v["sip"]), destination_ip_address_id=IPAddressIdentifier(v["dip"]),
                 udp_source_port_id=sp, udp_destination_port_id=dp, user_data=bitarray(v["ud"]),
                 extended_header_1=v.get("e1"), extended_header_2=v.get("e2"))

    ln = lambda v: 40 + 16 * (("e1" in v) + ("e2" in v)) + len(v["ud"])
    k.variants = [
        Variant(k, "ext0", base + [("sp", UNZ(7)), ("dp", UNZ(7))], build, length=ln),
        Variant(k, "ext1s", base + [("dp", UNZ(7)), ("e1", U(16))], build, length=ln),
        Variant(k, "ext1d", base + [("sp", UNZ(7)), ("e1", U(16))], build, length=ln),
        Variant(k, "ext2", base + [("e1", U(16)), ("e2", U(16))], build, length=ln),
    ]

    def seeds(rng):
        n = rng.choice([40, 41, 47, 55, 56, 57, 64, 71, 72, 73, 96, 120, rng.randrange(0, 130)])
        b = int2ba(rng.getrandbits(n), length=n) if n else bitarray()
        if n >= 40:
            if rng.random() < 0.5:
                b[25:32] = 0
            if rng.random() < 0.5:
                b[33:40] = 0
        return b

    k.bit_seeds = seeds
    k.n_bits = (3000, 60000)
    return k


def kinds():
    return [mk_so_kind(), mk_csbk_kind(), mk_dh_kind(), mk_flc_kind(), mk_slc_kind(), mk_pi_kind()] + mk_rate_kinds() + [mk_udp_kind()]


# ------------------------------------------------------------------------------------------------
# the oracle
def call(fn, *a):
    try:
        return fn(*a), None
    except BaseException as e:  # noqa
        return None, impl_error(e)


def check_fields(ctx, kind, variant, vals, record=True):
    """property on the real code for one PDU built from fields; returns (enc line pair or None)"""
    inp = {"kind": kind.name, "variant": variant.name, "mode": "fields", "fields": vals}
    p, err = call(variant.build, vals)
    if err:
        ctx.fail("constructor-raises", inp, f"{kind.name}/{variant.name}: building the PDU from in-range fields raised {err}", actual=err)
        return None
    bits, err = call(p.as_bits)
    if err or bits is None:
        ctx.fail("as_bits-raises", inp, f"{kind.name}/{variant.name}: as_bits raised {err}", actual=err)
        return None
    pa = attrs(p)
    want = variant.length(vals) if variant.length else kind.length
    if want is not None and len(bits) != want:
        ctx.fail("wrong-length", inp, f"{kind.name}/{variant.name}: serialised length {len(bits)} != {want}", expected=want, actual=len(bits))
    q, err = call(kind.from_bits, bitarray(bits))
    if err:
        ctx.fail("decode-of-encoded-raises", inp, f"{kind.name}/{variant.name}: from_bits(as_bits(p)) raised {err}", actual=err)
        return (kind.enc_line(p, vals), None, p, bits)
    qa = attrs(q)
    d = diff_attrs(pa, qa)
    if d:
        ctx.fail("field-lost", inp, f"{kind.name}/{variant.name}: from_bits(as_bits(p)) differs from p in {d}",
                 expected={k: pa.get(k) for k in d}, actual={k: qa.get(k) for k in d})
    b2, err = call(q.as_bits)
    if err or b2 != bits:
        ctx.fail("bits-not-stable", inp, f"{kind.name}/{variant.name}: as_bits(from_bits(as_bits(p))) != as_bits(p)",
                 expected=sbits(bits), actual=err or sbits(b2))
    return (kind.enc_line(p, vals), None, p, bits)


def check_bits(ctx, kind, b):
    """property on the real code for one right-length bit string; returns the impl's dec output text"""
    s = sbits(b)
    inp = {"kind": kind.name, "mode": "bits", "bits": s}
    o, err = call(kind.from_bits, bitarray(b))
    if err:
        if err[4:] not in kind.errors:
            ctx.fail("undocumented-error", inp, f"{kind.name}: from_bits raised {err}, not one of {sorted(kind.errors)}", expected=sorted(kind.errors), actual=err)
        ctx.count(f"{kind.name}:dec:{err[4:]}")
        return err
    e1, err = call(o.as_bits)
    if err or e1 is None:
        ctx.fail("as_bits-raises", inp, f"{kind.name}: as_bits of a decoded object raised {err}", actual=err)
        return "ERR as_bits"
    if len(e1) != len(b):
        ctx.fail("wrong-length", inp, f"{kind.name}: decoded object serialises to {len(e1)} bits, not {len(b)}", expected=len(b), actual=len(e1))
    o2, err = call(kind.from_bits, bitarray(e1))
    if err:
        ctx.fail("not-a-fixed-point", inp, f"{kind.name}: from_bits(as_bits(from_bits(b))) raised {err}", actual=err)
    else:
        a1, a2 = attrs(o), attrs(o2)
        d = diff_attrs(a1, a2)
        if d:
            ctx.fail("not-a-fixed-point", inp, f"{kind.name}: decode-encode-decode changes {d}",
                     expected={k: a1.get(k) for k in d}, actual={k: a2.get(k) for k in d})
        e2, err = call(o2.as_bits)
        if err or e2 != e1:
            ctx.fail("not-a-fixed-point", inp, f"{kind.name}: encode-decode-encode changes the bits", expected=sbits(e1), actual=err or sbits(e2))
    out = f"ok {kind.fmt(o)} {sbits(e1)}"
    if kind.extra_check:
        x = kind.extra_check(o)
        if x:
            out += " EXTRA " + x
    ctx.count(f"{kind.name}:dec:ok")
    return out


# ------------------------------------------------------------------------------------------------
# elements
def element_classes():
    import importlib.util
    import os

    here = os.path.dirname(os.path.abspath(__file__))
    path = os.path.join(here, "..", "..", "tools", "extract_elements.py")
    spec = importlib.util.spec_from_file_location("extract_elements_for_c03", path)
    mod = importlib.util.module_from_spec(spec)
    mod.register = lambda name: (lambda f: f)
    mod.HEADER = ""
    spec.loader.exec_module(mod)
    done, skipped = mod.elements()
    return done


def element_outcome(cls, v):
    """canonical outcome of cls(v): 'M <value>' | 'ERR <Class>' | 'NOTHING'"""
    try:
        r = cls(v)
    except ValueError:
        hook_none = False
        try:
            hook_none = cls._missing_(v) is None
        except BaseException:
            pass
        return None, ("NOTHING" if hook_none else "ERR ValueError")
    except BaseException as e:  # noqa
        return None, impl_error(e)
    if r is None or not isinstance(r, cls):
        return None, "NOTHING"
    return r, f"M {r.value}"


def check_element_value(ctx, cls, w, v):
    """the property for one element value on the real code; returns the canonical outcome"""
    members = {m.value: m for m in cls}
    inp = {"kind": "element", "element": cls.__name__, "value": v}
    r, out = element_outcome(cls, v)
    if out == "NOTHING":
        ctx.fail("element-nothing", inp, f"{cls.__name__}({v}) yields nothing (the _missing_ hook returns None)")
    elif out.startswith("ERR") and out != "ERR ValueError":
        ctx.fail("element-error", inp, f"{cls.__name__}({v}) raises {out}, not the documented ValueError", actual=out)
    elif v in members and out != f"M {v}":
        ctx.fail("element-defined-not-self", inp, f"{cls.__name__}({v}) is defined but maps to {out}", expected=f"M {v}", actual=out)
    elif out.startswith("M"):
        m = int(out[2:])
        if m not in members or m >= 2**w:
            ctx.fail("element-fold-target", inp, f"{cls.__name__}({v}) maps to {m} which is not a defined {w}-bit member", actual=out)
        else:
            again, err = call(cls, m)
            if err or again is not r:
                ctx.fail("element-fold-not-idempotent", inp, f"{cls.__name__}({v}) = {m} but {cls.__name__}({m}) is {err or again}")
        if "from_bits" in vars(cls):
            fb, err = call(cls.from_bits, int2ba(v, length=w))
            if err or fb is not r:
                ctx.fail("element-from_bits", inp, f"{cls.__name__}.from_bits({v}) = {err or fb} differs from the constructor ({r})")
        if "as_bits" in vars(cls) and v in members:
            ab, err = call(members[v].as_bits)
            if err or ab != int2ba(v, length=w):
                ctx.fail("element-as_bits", inp, f"{cls.__name__}({v}).as_bits() = {err or ab.to01()}", expected=int2ba(v, length=w).to01())
    return out


def check_fsn_value(ctx, v):
    from okdmr.dmrlib.etsi.layer2.elements.fragment_sequence_number import FragmentSequenceNumber as F

    inp = {"kind": "element", "element": "FragmentSequenceNumber", "value": v}
    o, err = call(F.from_bits, int2ba(v, length=4))
    out = err or f"M {o.value}"
    if err or o.value != v or o.as_bits() != int2ba(v, length=4):
        ctx.fail("element-fsn", inp, f"FragmentSequenceNumber {v} does not survive from_bits/as_bits", expected=f"M {v}", actual=out)
    return out


def check_elements(ctx):
    pairs = []
    for lname, cls, w in element_classes():
        for v in range(2**w):
            ctx.case(("elem", cls.__name__, v), nontrivial=True,
                     sample={"element": cls.__name__, "value": v} if (cls.__name__, v) == ("FeatureSetIDs", 3) else None)
            out = check_element_value(ctx, cls, w, v)
            pairs.append((f"elem {cls.__name__} {v}", out))
            ctx.count(f"elem:{'member' if out.startswith('M') else out}")
    # FragmentSequenceNumber (plain class around a 4-bit value)
    for v in range(16):
        ctx.case(("elem", "FSN", v))
        pairs.append((f"elem FragmentSequenceNumber {v}", check_fsn_value(ctx, v)))
    if not ctx.search_only and ctx.driver_ok:
        ctx.correspond("elements", pairs)


def check_gps_floats(ctx):
    """trusted-base cross-check: the float step of GPS Info is exact on every raw value tried (the
    expressions are the ones of full_link_control.py), and a sample goes through the real PDU"""
    from okdmr.dmrlib.etsi.layer2.pdu.full_link_control import FullLinkControl
    from okdmr.dmrlib.etsi.layer2.elements.flcos import FLCOs
    from okdmr.dmrlib.etsi.layer2.elements.feature_set_ids import FeatureSetIDs
    from okdmr.dmrlib.etsi.layer3.elements.position_error import PositionError

    for w, step_expr in ((25, 360 / 2**25), (24, 180 / 2**24)):
        lo, hi = -(1 << (w - 1)), (1 << (w - 1)) - 1
        ns = {0, 1, -1, lo, lo + 1, hi, hi - 1} | {1 << i for i in range(w - 1)} | {-(1 << i) for i in range(w - 1)}
        ns |= {(1 << i) - 1 for i in range(w)} | {-(1 << i) + 1 for i in range(w)}
        ns = {n for n in ns if lo <= n <= hi}
        ns |= {ctx.rng.randrange(lo, hi + 1) for _ in range(ctx.budget(20000, 1 << 18))}
        bad = None
        for n in ns:
            x = step_expr * n  # from_bits
            back = int(x / step_expr)  # as_bits
            if back != n:
                bad = (n, back)
                break
        ctx.case(("gps-float", w, len(ns)))
        ctx.count(f"gps-float:{w}", len(ns))
        if bad:
            ctx.fail("gps-float-inexact", {"kind": "flc", "mode": "gps-float", "width": w, "raw": bad[0]},
                     f"GPS Info {w}-bit raw value {bad[0]} comes back as {bad[1]} through the float step", expected=bad[0], actual=bad[1])
    for _ in range(ctx.budget(300, 20000)):
        lon = ctx.rng.randrange(-(1 << 24), 1 << 24)
        lat = ctx.rng.randrange(-(1 << 23), 1 << 23)
        p = FullLinkControl(protect_flag=0, flco=FLCOs.GPSInfo, fid=FeatureSetIDs.StandardizedFID, crc=bitarray("0" * 24),
                            position_error=PositionError(lon % 8), longitude=lon * (360 / 2**25), latitude=lat * (180 / 2**24))
        bits = p.as_bits()
        q = FullLinkControl.from_bits(bits)
        ctx.case(("gps-pdu", lon, lat))
        if ba2int(bits[23:48], signed=True) != lon or ba2int(bits[48:72], signed=True) != lat or q.longitude != p.longitude or q.latitude != p.latitude:
            ctx.fail("gps-roundtrip", {"kind": "flc", "variant": "gpsInfo", "mode": "fields",
                                       "fields": {"pf": 0, "fid": 0, "crc": "0" * 24, "pe": lon % 8, "lon": lon, "lat": lat}},
                     "GPS Info coordinates do not survive as_bits / from_bits", expected=[lon, lat],
                     actual=[ba2int(bits[23:48], signed=True), ba2int(bits[48:72], signed=True)])


# ------------------------------------------------------------------------------------------------
CORPUS = [
    # repaired defects (KNOWN_FINDINGS.txt, fixed: property=C03 …) — kept so a regression is re-reported
    ("csbk", "nackRsp", {"lb": 1, "pf": 0, "fid": 0, "crc": 0, "aif": 0, "st": 1, "svc": 4, "rc": 33, "src": 2623266, "tgt": 1234}),
    ("csbk", "nackRsp", {"lb": 1, "pf": 0, "fid": 0, "crc": 0, "aif": 1, "st": 0, "svc": 5, "rc": 33, "src": 1, "tgt": 16777215}),
    ("csbk", "aloha", {"lb": 0, "pf": 0, "fid": 0, "crc": 0, "tsccas": 1, "sync": 0, "dvc": 3, "off": 0, "act": 1, "mask": 21, "sf": 2,
                       "nrand": 7, "reg": 1, "backoff": 5, "sys": 48879, "tgt": 2623266}),
    ("dh", "response", {"A": 1, "crc": "0000000000000000"}),
    ("dh", "response", {"A": 0, "crc": "0000000000000000"}),
]


def run_fields_case(ctx, kind, variant, vals, enc_pairs, desc, sample=None):
    ctx.case(desc, nontrivial=True, sample=sample)
    ctx.count(f"{kind.name}:fields:{variant.name}")
    r = check_fields(ctx, kind, variant, vals)
    if r is not None:
        line, _, p, bits = r
        enc_pairs.append((line, kind.enc_out(p, bits)))
        return p
    return None


def run(ctx):
    ctx.rule = (
        "per PDU kind and variant (opcode / format): corpus of repaired defects first; then a type-directed sweep — every field in turn at "
        "0, max, each walking-one value / every enum member while the other fields are random — plus all-random field tuples; decode side: "
        "structured-random right-length bit strings (implemented opcodes favoured, inner enumerations made valid, CRC field zeroed in 15 %) "
        "and single-bit mutations of valid encodings; every value of every element. A case is non-trivial unless stated; distinct = distinct "
        "(kind, variant, field tuple) / (kind, bit string) / (element, value)"
    )
    ctx.trusted_base += [
        "Lean 4.33 kernel",
        "tools/extract_elements.py (calls every element class of /repo on all 2^w values: the element graphs are the code)",
        "hand-written models of as_bits/from_bits/__init__ (Model/Pdu*.lean) tied to the code by this run's correspondence",
        "the CRC functions are parameters of the theorems; the driver instantiates them with a plain bitwise CRC that the correspondence compares with CRC16/CRC9/CRC8 of /repo",
        "GPS Info: raw signed integers n are modelled; float step n*(360/2^25) and back is exact in IEEE double (45*n < 2^53) — cross-checked by the harness on all boundary and random raw values",
        "bitarray / enum / Python are trusted as the substrate of the implementation",
    ]
    ctx.assumptions += [
        "crc_ok / crc9_ok (integrity indicators, property C04) are not part of the compared field tuple",
        "in-range field values: WF predicates of Model/Pdu*.lean (e.g. bit_padding 8 bits, blocks_to_follow < 128, no CRC-32 / DBSN on block variants that do not carry them)",
    ]
    check_elements(ctx)
    check_gps_floats(ctx)
    ks = {k.name: k for k in kinds()}
    # ---- corpus
    for kname, vname, vals in CORPUS:
        k = ks.get(kname)
        if k is None:
            continue
        var = next(v for v in k.variants if v.name == vname)
        full = var.random_vals(ctx.rng)
        full.update(vals)
        pairs = []
        run_fields_case(ctx, k, var, full, pairs, ("corpus", kname, vname, json.dumps(full, sort_keys=True)))
        if not ctx.search_only and ctx.driver_ok and pairs:
            ctx.correspond(f"{kname}.enc", pairs)
    # ---- per kind
    for k in ks.values():
        enc_pairs = []
        n_random = ctx.budget(200, 2000)
        reps = ctx.budget(2, 8)
        for var in k.variants:
            first = True
            for fname, spec in var.fields:
                for sv in spec.specials(ctx.rng):
                    for _ in range(reps):
                        vals = var.random_vals(ctx.rng)
                        vals[fname] = sv
                        if var.fix:
                            vals = var.fix(vals)
                        run_fields_case(ctx, k, var, vals, enc_pairs, (k.name, var.name, json.dumps(vals, sort_keys=True)),
                                        sample={"kind": k.name, "variant": var.name, "fields": vals} if first else None)
                        first = False
            for _ in range(n_random):
                vals = var.random_vals(ctx.rng)
                run_fields_case(ctx, k, var, vals, enc_pairs, (k.name, var.name, json.dumps(vals, sort_keys=True)))
        if not ctx.search_only and ctx.driver_ok and enc_pairs:
            ctx.correspond(f"{k.name}.enc", enc_pairs)
        # rate-coded blocks: convert(new type) — used by the burst parser's clients (C01, C07)
        if getattr(k, "rate", None) and not ctx.search_only and ctx.driver_ok:
            cname, tname, members = k.rate
            conv = []
            var = k.variants[0]
            for _ in range(ctx.budget(15, 600)):
                vals = var.random_vals(ctx.rng)
                p, err = call(var.build, vals)
                if err:
                    continue
                for t2 in RATE_TYPES + ["undefined"]:
                    q, err = call(p.convert, members[t2])
                    if err:
                        out = err
                    else:
                        e1, err = call(q.as_bits)
                        out = err or f"ok {k.fmt(q)} {sbits(e1)}"
                    conv.append((f"rate.convert {cname} {tname} {vals['data'] or '-'} {vals.get('dbsn', 0)} {vals.get('crc9', 0)} {vals.get('crc32', 0)} {t2}", out))
                    ctx.case((k.name, "convert", json.dumps(vals, sort_keys=True), t2))
                    # the property for convert: converting to the own type is the identity
                    if t2 == tname and not err:
                        d = diff_attrs(attrs(p), attrs(q))
                        if d:
                            ctx.fail("convert-own-type", {"kind": k.name, "variant": var.name, "mode": "fields", "fields": vals},
                                     f"{k.name}: convert to the block's own type changes {d}")
            ctx.correspond(f"{k.name}.convert", conv)
        # decode side
        dec_pairs = []
        n_bits = (ctx.budget(*k.n_bits) if k.n_bits else ctx.budget(3000, 100000)) if k.length is None or k.length > 8 else 256
        seen = set()
        seeds = []
        if k.length == 8:
            seeds = [int2ba(v, length=8) for v in range(256)]
        else:
            for _ in range(n_bits):
                seeds.append(k.bit_seeds(ctx.rng))
            # single-bit mutations of valid encodings
            for line, bits in enc_pairs[: ctx.budget(300, 3000)]:
                bits = bits.split(" ")[-1]
                if bits.startswith("ERR"):
                    continue
                b = bitarray(bits if bits != "-" else "")
                if len(b):
                    b.invert(ctx.rng.randrange(len(b)))
                    seeds.append(b)
        for b in seeds:
            s = sbits(b)
            if s in seen:
                continue
            seen.add(s)
            ctx.case((k.name, "bits", s), nontrivial=True, sample={"kind": k.name, "bits": s} if len(seen) == 1 else None)
            out = check_bits(ctx, k, b)
            dec_pairs.append((k.dec_line(s), out))
        if not ctx.search_only and ctx.driver_ok and dec_pairs:
            ctx.correspond(f"{k.name}.dec", dec_pairs)
        # wrong lengths: outside the property (no oracle), the model must reject what the code rejects
        if not ctx.search_only and ctx.driver_ok:
            wl = []
            L = k.length or 96
            for n in sorted({0, 1, L - 1, L + 1, L + 8, 36, 77, 96, 144, 192} - {L}):
                if k.name == "dh" and n < 96:
                    continue  # DataHeader.from_bits has no length check: model answers 'other' (documented)
                for _ in range(2):
                    b = k.bit_seeds(ctx.rng)
                    b = (b + int2ba(ctx.rng.getrandbits(200), length=200))[:n] if n else bitarray()
                    if k.name == "udp":
                        b = int2ba(ctx.rng.getrandbits(n), length=n) if n else bitarray()
                    o, err = call(k.from_bits, bitarray(b))
                    if err:
                        out = err
                    else:
                        e1, err = call(o.as_bits)
                        out = err or f"ok {k.fmt(o)} {sbits(e1)}"
                    wl.append((k.dec_line(sbits(b)), out))
            ctx.correspond(f"{k.name}.dec(wrong length)", wl)


def model_says(prop, line):
    """answer of the compiled model for one line (best effort, for replay output only)"""
    import os
    import subprocess

    exe = os.path.join(os.path.dirname(os.path.abspath(__file__)), "..", "..", "lean", ".lake", "build", "bin", f"drv_{prop.lower()}")
    try:
        return subprocess.run([exe], input=line + "\n", capture_output=True, text=True, timeout=60).stdout.strip()
    except Exception as e:  # noqa
        return f"(model driver not available: {e})"


class ReplayCtx:
    def __init__(self):
        self.failures = []
        self.hist = {}

    def fail(self, kind, input, what, expected=None, actual=None):
        self.failures.append((kind, what, expected, actual))

    def count(self, *a, **k):
        pass

    def case(self, *a, **k):
        pass


def replay(obj):
    f = obj.get("failure") or {}
    inp = f.get("input") or {}
    print(json.dumps(obj.get("type")), f.get("what"))
    if not inp:
        print("no failing input recorded (proof / correspondence broke):", json.dumps(obj.get("no_longer_checks") or obj.get("correspondence_differences"))[:2000])
        return 1
    r = ReplayCtx()
    if inp.get("kind") == "element":
        line = f"elem {inp['element']} {inp['value']}"
        if inp["element"] == "FragmentSequenceNumber":
            out = check_fsn_value(r, inp["value"])
        else:
            out = "unknown element"
            for lname, cls, w in element_classes():
                if cls.__name__ == inp["element"]:
                    out = check_element_value(r, cls, w, inp["value"])
        print("implementation:", out)
        print("model         :", model_says(PROP, line))
    elif inp.get("mode") == "gps-float":
        w, n = inp["width"], inp["raw"]
        step = 360 / 2**25 if w == 25 else 180 / 2**24
        back = int((step * n) / step)
        print(f"implementation: raw {n} -> {step * n!r} -> {back}")
        if back != n:
            r.fail("gps-float-inexact", inp, "float step inexact", n, back)
    else:
        ks = {k.name: k for k in kinds()}
        k = ks.get(inp.get("kind"))
        if k is None:
            print("unknown kind", inp.get("kind"))
            return 1
        if inp.get("mode") == "fields":
            var = next(v for v in k.variants if v.name == inp["variant"])
            res = check_fields(r, k, var, inp["fields"])
            if res:
                print("implementation as_bits:", sbits(res[3]))
                print("model line            :", res[0])
                print("model                 :", model_says(PROP, res[0]))
        else:
            b = bitarray(inp["bits"] if inp["bits"] != "-" else "")
            print("implementation from_bits:", check_bits(r, k, b))
            print("model                   :", model_says(PROP, k.dec_line(inp["bits"])))
    for kind, what, exp, act in r.failures:
        print("STILL FAILS:", kind, what, "expected:", exp, "actual:", act)
    if not r.failures:
        print("the recorded input no longer fails on this tree")
    return 1 if r.failures else 0
