#!/venv/bin/python
"""
Maintenance tool (not run by the check): collects the captured packets of /repo's test-suite (hex and 0/1 string
literals), classifies them with the library's own parsers and writes harness/props/c19_corpus.json, the pool of
*valid captured inputs* of the C19 argument generators.
"""
import ast, json, os, re, sys
HERE = os.path.dirname(os.path.abspath(__file__))
TESTS = "/repo/okdmr/tests"

def literals():
    hexes, bits = set(), set()
    for root, _, files in os.walk(TESTS):
        for fn in files:
            if not fn.endswith(".py"):
                continue
            try:
                tree = ast.parse(open(os.path.join(root, fn), encoding="utf-8").read())
            except SyntaxError:
                continue
            for n in ast.walk(tree):
                if isinstance(n, ast.Constant) and isinstance(n.value, str):
                    v = n.value.strip().replace(" ", "")
                    if re.fullmatch(r"[01]{7,}", v):
                        bits.add(v)
                    if re.fullmatch(r"[0-9a-fA-F]{2,}", v) and len(v) % 2 == 0 and len(v) >= 4:
                        hexes.add(v.lower())
                elif isinstance(n, ast.Constant) and isinstance(n.value, bytes) and len(n.value) >= 2:
                    hexes.add(n.value.hex())
    return sorted(hexes), sorted(bits)

def main():
    from bitarray import bitarray
    from okdmr.kaitai.homebrew.mmdvm2020 import Mmdvm2020
    from okdmr.dmrlib.etsi.layer2.burst import Burst
    from okdmr.dmrlib.etsi.layer2.elements.burst_types import BurstTypes
    from okdmr.dmrlib.etsi.layer2.elements.data_types import DataTypes
    from okdmr.dmrlib.hytera.pdu.hdap import HDAP
    from okdmr.dmrlib.hytera.pdu.hrnp import HRNP
    from okdmr.dmrlib.hytera.pdu.hstrp import HSTRP
    from okdmr.dmrlib.hytera.pdu.location_protocol import GPSData
    from okdmr.dmrlib.motorola.mbxml import MBXML
    from okdmr.dmrlib.motorola.text_messaging_service import TextMessagingService
    from okdmr.dmrlib.motorola.automatic_registration_service import AutomaticRegistrationService
    from okdmr.dmrlib.hytera.hytera_ipsc import HyteraIPSC
    import logging; logging.disable(logging.CRITICAL)
    sys.stdout = open(os.devnull, "w")
    hexes, bits = literals()
    C = {k: [] for k in ("burst33", "ipsc", "hrnp", "hstrp", "hdap", "mbxml", "tms", "ars", "gps40", "info96", "info144", "info192",
                          "onair196", "slot20", "emb16", "flc96", "csbk96", "dh96", "pi96", "r12_96", "lc77", "hexmisc")}
    C["bits"] = {}
    def add(k, v):
        if v not in C[k]:
            C[k].append(v)
    def ok(f, *a):
        try:
            r = f(*a)
            return r is not None and r != []
        except BaseException:
            return False
    bursts = []
    for h in hexes:
        b = bytes.fromhex(h)
        if h.startswith("444d5244") and len(b) >= 53:
            try:
                m = Mmdvm2020.from_bytes(b)
                add("burst33", bytes(m.command_data.dmr_data).hex())
            except BaseException:
                pass
        if len(b) == 33:
            add("burst33", h)
        if h.startswith("5a5a5a5a") and len(b) >= 72:
            if ok(HyteraIPSC.from_ipsc_bytes, b[:72]):
                add("ipsc", b[:72].hex())
        if h.startswith("7e") and ok(HRNP.from_bytes, b):
            add("hrnp", h)
        if h.startswith("3242") and ok(HSTRP.from_bytes, b):
            add("hstrp", h)
        if len(b) >= 7 and b[-1] == 3 and ok(lambda: HDAP.from_bytes(b).as_bytes()):
            add("hdap", h)
        if len(b) == 40 and ok(GPSData.from_bytes, b):
            add("gps40", h)
        if 3 <= len(b) <= 200 and not h.startswith(("7e", "3242", "5a5a", "444d")):
            if ok(lambda: [MBXML.as_bytes(d) for d in MBXML.from_bytes(b)]):
                add("mbxml", h)
            if len(b) >= 4 and int.from_bytes(b[0:2], "big") == len(b) - 2:
                if ok(lambda: TextMessagingService.from_bytes(b).as_bytes()):
                    add("tms", h)
                if ok(lambda: AutomaticRegistrationService.from_bytes(b).as_bytes()):
                    add("ars", h)
        if len(b) == 12:
            add("info96", h)
        if len(b) == 18:
            add("info144", h)
        if len(b) == 24:
            add("info192", h)
        if len(b) in (2, 3, 4, 5, 9, 10) :
            add("hexmisc", h)
    for h in list(C["ipsc"]):
        try:
            add("burst33", HyteraIPSC.from_ipsc_bytes(bytes.fromhex(h)).payload.hex())
        except BaseException:
            pass
    for h in C["burst33"]:
        for bt in BurstTypes:
            try:
                bu = Burst.from_bytes(bytes.fromhex(h), bt)
            except BaseException:
                continue
            add("onair196", bu.info_bits_original.to01())
            if bu.has_slot_type:
                add("slot20", (bu.full_bits[98:108] + bu.full_bits[156:166]).to01())
            if bu.has_emb:
                add("emb16", (bu.full_bits[108:116] + bu.full_bits[148:156]).to01())
            d = bu.info_bits_deinterleaved
            if d is not None:
                key = {96: "info96", 144: "info144", 192: "info192"}.get(len(d))
                if key:
                    add(key, d.tobytes().hex())
                dt = bu.data_type
                sub = {DataTypes.CSBK: "csbk96", DataTypes.DataHeader: "dh96", DataTypes.VoiceLCHeader: "flc96", DataTypes.TerminatorWithLC: "flc96",
                       DataTypes.PIHeader: "pi96", DataTypes.Rate12Data: "r12_96"}.get(dt)
                if sub and len(d) == 96:
                    add(sub, d.tobytes().hex())
    for s in bits:
        C["bits"].setdefault(str(len(s)), [])
        if s not in C["bits"][str(len(s))]:
            C["bits"][str(len(s))].append(s)
    for k in C:
        if isinstance(C[k], list):
            C[k] = sorted(C[k])[:80]
    with open(os.path.join(HERE, "c19_corpus.json"), "w") as f:
        json.dump(C, f, indent=0, sort_keys=True)
    sys.stderr.write(", ".join(f"{k}={len(v)}" for k, v in C.items()) + "\n")

if __name__ == "__main__":
    main()
