"""C12 — Hytera HSTRP / HRNP / HDAP framing and re-encoding (DESIGN §5 C12).

Oracle (on the real code): every application PDU built from in-range fields serialises to
service|reliable, opcode, length (protocol endianness) == actual payload length, a checksum an
independent computation reproduces, 0x03; len(p) == number of bytes; the same nested in HRNP (length
field, ones-complement checksum) and in HSTRP with 0..4 options (independent TLV walk); parsing the
bytes and serialising again gives the same bytes and equal fields.
Correspondence: the Lean model (Model/Hdap, Hrnp, Hstrp) answers the same build / parse lines.
"""
import glob
import os
import re
from datetime import date, time

from common import impl_error

PROP = "C12"
MODULES = ["C12", "C12a", "C12b"]
GEN = ["Hytera"]

TESTS = os.path.join(os.environ.get("VERIF_REPO") or "/repo", "okdmr/tests/dmrlib/hytera")

# ------------------------------------------------------------------------------------------------
# lazy imports of the code under test


class L:
    ready = False


def load():
    if L.ready:
        return
    from okdmr.dmrlib.etsi.layer3.elements.talker_alias_data_format import TalkerAliasDataFormat
    from okdmr.dmrlib.hytera.pdu import hdap, hrnp, hstrp
    from okdmr.dmrlib.hytera.pdu import location_protocol as lp
    from okdmr.dmrlib.hytera.pdu import radio_control_protocol as rcp
    from okdmr.dmrlib.hytera.pdu import radio_registration_service as rrs
    from okdmr.dmrlib.hytera.pdu import text_message_protocol as tmp
    from okdmr.dmrlib.hytera.pdu.radio_ip import RadioIP

    L.hdap, L.hrnp, L.hstrp, L.lp, L.rcp, L.rrs, L.tmp = hdap, hrnp, hstrp, lp, rcp, rrs, tmp
    L.RadioIP = RadioIP
    L.TAF = TalkerAliasDataFormat
    L.ready = True


def call(fn, *a, **k):
    try:
        return fn(*a, **k)
    except BaseException as e:  # noqa
        return Exc(e)


class Exc:
    def __init__(self, e):
        self.s = impl_error(e)

    def __repr__(self):
        return self.s


def hx(b) -> str:
    return bytes(b).hex() if len(b) else "-"


def b01(x) -> str:
    return "1" if x else "0"


class Unmodelled(Exception):
    pass


# ------------------------------------------------------------------------------------------------
# canonical field tuples (the same text Driver/Hytera.lean prints)


def ip_s(ip):
    return "N" if ip is None else f"{ip.subnet}:{ip.radio_id}"


def fixed4(x) -> int:
    v = round(float(x) * 10000)
    if abs(float(x) * 10000 - v) > 1e-6:
        raise Unmodelled("coordinate with more than four decimals")
    return v


def speed_s(x) -> str:
    r = repr(float(x))
    if not re.fullmatch(r"[0-9]+\.[0-9]+", r):
        raise Unmodelled("speed repr " + r)
    return r


def gps_s(g) -> str:
    t = "N" if g.greenwich_time is None else f"{g.greenwich_time.hour}:{g.greenwich_time.minute}:{g.greenwich_time.second}"
    d = "N" if g.greenwich_date is None else f"{g.greenwich_date.day}:{g.greenwich_date.month}:{g.greenwich_date.year - 2000}"
    return " ".join(
        [
            b01(g.data_valid == "A"), t, d, b01(g.north_south == "N"), str(fixed4(g.latitude)),
            b01(g.east_west == "E"), str(fixed4(g.longitude)), speed_s(g.speed_knots), str(int(g.direction)),
        ]
    )


def as_id(x) -> str:
    if not isinstance(x, int) or isinstance(x, bool):
        raise Unmodelled("id attribute that is not an int")
    return str(x)


def rcp_body(p):
    O = L.rcp.RCPOpcode
    o = p.opcode
    if o == O.UnknownService:
        return [hx(p.raw_opcode), hx(p.raw_payload)]
    if o == O.CallRequest:
        return [str(p.call_type.value), as_id(p.target_id)]
    if o in (O.CallReply, O.BroadcastMessageConfigurationReply, O.BroadcastStatusConfigurationReply, O.StatusChangeNotificationReply):
        return [str(p.result.value)]
    if o == O.RepeaterBroadcastTransmitStatus:
        return [str(p.repeater_mode.value), str(p.repeater_status.value), str(p.repeater_service_type.value),
                str(p.call_type.value), as_id(p.target_id), as_id(p.sender_id)]
    if o == O.BroadcastMessageConfigurationRequest:
        return [str(p.broadcast_type)]
    if o == O.RadioIDAndRadioIPQueryRequest:
        return [str(p.radio_ip_id_target.value)]
    if o == O.RadioIDAndRadioIPQueryReply:
        return [str(p.result.value), str(p.radio_ip_id_target.value), hx(p.raw_value)]
    if o == O.BroadcastStatusConfigurationRequest:
        return [hx(p.broadcast_config_raw)]
    if o == O.SendTalkerAliasRequest:
        return [str(p.call_type.value), as_id(p.sender_id), as_id(p.target_id), str(p.talker_alias_data_format.value), hx(p.talker_alias_data)]
    if o == O.SendTalkerAliasReply:
        return [str(p.result.value), str(p.call_type.value), as_id(p.sender_id), as_id(p.target_id)]
    if o in (O.ZoneAndChannelOperationRequest, O.ZoneAndChannelOperationReply):
        return [hx(p.raw_payload)]
    if o == O.StatusChangeNotificationRequest:
        s = p.status_change_settings
        return [",".join(f"{t.value}:{v.value}" for t, v in s.items()) if len(s) else "-"]
    if o == O.RadioStatusReport:
        return [str(p.status_change_target.value), str(p.status_change_value)]
    raise Unmodelled("opcode without model " + o.name)


def pdu_tuple(p) -> str:
    """all modelled attributes of a real HDAP object"""
    if p is None:
        return "NONE"
    if isinstance(p, L.rrs.RadioRegistrationService):
        return " ".join(["RRS", b01(p.is_reliable), str(p.opcode.value), ip_s(p.radio_ip), str(p.result.value),
                         str(p.renew_time_seconds), str(p.radio_state.value)])
    if isinstance(p, L.lp.LocationProtocol):
        head = ["LP", b01(p.is_reliable), str(p.specific_service.value), str(p.request_id), ip_s(p.radio_ip)]
        if p.specific_service == L.lp.LocationProtocolSpecificService.StandardReport:
            head += [str(p.result.value), gps_s(p.gpsdata)]
        return " ".join(head)
    if isinstance(p, L.tmp.TextMessageProtocol):
        return " ".join(["TMP", b01(p.is_reliable), b01(p.is_confirmed), b01(p.has_option), str(p.opcode.value),
                         str(p.request_id), ip_s(p.destination_ip), ip_s(p.source_ip), hx(p.text_data),
                         "N" if p.option_data is None else hx(p.option_data),
                         "N" if p.result_code is None else str(p.result_code.value), hx(p.short_data)])
    if isinstance(p, L.rcp.RadioControlProtocol):
        return " ".join(["RCP", b01(p.is_reliable), str(p.opcode.value)] + rcp_body(p))
    raise Unmodelled("object " + type(p).__name__)


def relevant_tuple(p) -> str:
    """the property's fields of a PDU: the attributes its opcode serialises (others masked)"""
    t = pdu_tuple(p).split(" ")
    if t[0] == "RRS":
        T = L.rrs.RRSTypes
        if p.opcode != T.RadioRegistrationAnswer:
            t[4], t[5] = "0", "1"
        if p.opcode != T.RegistrationStatusCheckAnswer:
            t[6] = "0"
    elif t[0] == "TMP":
        S = L.tmp.TMPService
        msg = p.opcode in (S.SendPrivateMessage, S.SendGroupMessage)
        short = p.opcode in (S.PrivateShortData, S.GroupShortData)
        ack = p.opcode in (S.SendPrivateMessageAck, S.SendGroupMessageAck, S.PrivateShortDataAck, S.GroupShortDataAck)
        if p.opcode in (S.SendGroupMessageAck, S.GroupShortDataAck):
            t[7] = "N"
        if not msg:
            t[8] = "-"
        if not p.has_option:
            t[9] = "N"
        if not ack:
            t[10] = "N"
        if not short:
            t[11] = "-"
    return " ".join(t)


def opts_s(o) -> str:
    lst = [] if o is None else o.options
    return ",".join(f"{c.value}:{hx(d)}" for c, d in lst) if lst else "-"


def hrnp_tuple(h) -> str:
    return " ".join(["HRNP", hx(h.header), hx(h.version), str(h.block_number), str(h.opcode.value), str(h.source),
                     str(h.destination), str(h.packet_number), str(int.from_bytes(h.checksum, "big")),
                     b01(h.checksum_correct), pdu_tuple(h.data)])


def hstrp_tuple(s) -> str:
    return " ".join(["HSTRP", str(s.version), str(s.pkt_type.as_bytes()[0]), str(s.sn), opts_s(s.options), pdu_tuple(s.payload)])


def safe(fn, *a):
    """canonical text of fn(*a) or the error kind"""
    try:
        return fn(*a)
    except Unmodelled:
        return "ERR Unmodelled"
    except BaseException as e:  # noqa
        return impl_error(e)


# ------------------------------------------------------------------------------------------------
# implementation adaptors: the lines of the protocol answered by the real code


def bytes_len(p) -> str:
    b = call(p.as_bytes)
    n = call(len, p)
    return (repr(b) if isinstance(b, Exc) else hx(b)) + " " + (repr(n) if isinstance(n, Exc) else str(n))


def impl_hdap_parse(data: bytes) -> str:
    def go():
        p = L.hdap.HDAP.from_bytes(data)
        if p is None:
            return "NONE"
        return pdu_tuple(p) + " => " + bytes_len(p)

    return safe(go)


def inner_unmodelled(inner: bytes) -> bool:
    """the inner HDAP parses to an object outside the model (an id attribute left as an empty bytes object)"""
    try:
        pdu_tuple(L.hdap.HDAP.from_bytes(inner))
    except Unmodelled:
        return True
    except BaseException:  # noqa
        return False
    return False


def impl_hrnp_parse(data: bytes) -> str:
    def go():
        h = L.hrnp.HRNP.from_bytes(data)
        return hrnp_tuple(h) + " => " + bytes_len(h)

    r = safe(go)
    if r.startswith("ERR") and r != "ERR Unmodelled" and len(data) >= 12:
        # HRNP.__init__ serialises the inner PDU for the checksum; an inner object outside the model
        # (see as_id) fails there with AttributeError: same canonical answer as the model's
        plen = int.from_bytes(data[8:10], "big")
        if plen <= len(data) and data[3] in {o.value for o in L.hrnp.HRNPOpcodes} and inner_unmodelled(data[12:plen]):
            return "ERR Unmodelled"
    return r


def impl_hstrp_parse(data: bytes) -> str:
    def go():
        s = L.hstrp.HSTRP.from_bytes(data)
        if s is None:
            return "NONE"
        b = call(s.as_bytes)
        return hstrp_tuple(s) + " => " + (repr(b) if isinstance(b, Exc) else hx(b))

    return safe(go)


def impl_opts_parse(data: bytes) -> str:
    def go():
        o = L.hstrp.HSTRPOptions.from_bytes(data)
        return opts_s(o) + " " + str(len(o))

    return safe(go)


# ------------------------------------------------------------------------------------------------
# independent computations of the oracle


def spec_hdap_checksum(checked: bytes) -> int:
    return ((255 - (sum(checked) % 256)) + 0x33) % 256


def spec_ones_complement_ok(packet: bytes) -> bool:
    """the 16-bit ones-complement sum over the whole packet (checksum field included) is 0xFFFF"""
    b = packet + (b"\x00" if len(packet) % 2 else b"")
    s = sum(int.from_bytes(b[i : i + 2], "big") for i in range(0, len(b), 2))
    while s > 0xFFFF:
        s = (s & 0xFFFF) + (s >> 16)
    return s == 0xFFFF


def spec_walk_options(data: bytes):
    """independent TLV walk: ([(cmd, data)], consumed) — continuation bit = more options follow"""
    out, i = [], 0
    while True:
        more = data[i] >> 7
        n = data[i + 1]
        out.append((data[i] & 0x7F, bytes(data[i + 2 : i + 2 + n])))
        i += 2 + n
        if not more:
            return out, i


SERVICE = {"RRS": 0x11, "LP": 0x08, "TMP": 0x09, "RCP": 0x02}
LITTLE = {"RCP"}

# ------------------------------------------------------------------------------------------------
# generators


def pick_int(rng, hi, special=()):
    """value in 0..hi with boundaries favoured"""
    r = rng.random()
    if r < 0.25:
        cands = [0, 1, hi, hi - 1, 255, 256, 65535, 65536, 0x7F, 0x80, 0xFF00] + list(special)
        return rng.choice([c for c in cands if 0 <= c <= hi])
    if r < 0.4:
        return rng.randrange(min(hi, 255) + 1)
    return rng.randrange(hi + 1)


def gen_ip(rng):
    return L.RadioIP(radio_id=pick_int(rng, 2**24 - 1), subnet=pick_int(rng, 255, (10,)))


def gen_bytes(rng, n):
    return bytes(rng.randrange(256) for _ in range(n))


def gen_text(rng, big=False):
    n = rng.choice([0, 0, 1, 2, 5, 12, 40, 70]) if not big else rng.choice([500, 2000, 16000])
    alphabet = [
        lambda: chr(rng.randrange(0x20, 0x7F)),
        lambda: chr(rng.randrange(0xA0, 0x800)),
        lambda: chr(rng.choice([0, 0x03, 0xFFFD, 0x4E2D, 0x20AC, 0xD7FF, 0xE000])),
        lambda: chr(rng.randrange(0x10000, 0x10FFFF)),  # surrogate pair in UTF-16
    ]
    s = "".join(rng.choice(alphabet)() for _ in range(n))
    return s


NUL6 = b"\x00" * 6  # the only way to construct a GPSData without time / date (the "absent" wire form)


def gen_gps(rng, speed_mode):
    """speed_mode: 'fit' (absent or d.d), 'over' (format longer than three characters)"""
    lp = L.lp
    tm = None if rng.random() < 0.2 else time(hour=rng.choice([0, 23, rng.randrange(24)]), minute=rng.choice([0, 59, rng.randrange(60)]), second=rng.choice([0, 59, rng.randrange(60)]))
    if rng.random() < 0.2:
        dt = None
    else:
        y = rng.choice([2000, 2099, 2024, rng.randrange(2000, 2100)])
        m = rng.randrange(1, 13)
        dmax = [31, 29 if y % 4 == 0 else 28, 31, 30, 31, 30, 31, 31, 30, 31, 30, 31][m - 1]
        dt = date(year=y, month=m, day=rng.choice([1, dmax, rng.randrange(1, dmax + 1)]))
    lat4 = rng.choice([0, 1, 90000000, 89599999, 9999, 10000, rng.randrange(90000001), rng.randrange(90000001)])
    lon4 = rng.choice([0, 1, 180000000, 179599999, 99999999, 100000000, rng.randrange(180000001), rng.randrange(180000001)])
    if speed_mode == "fit":
        sp = rng.choice([0.0, 0.0, 0.1, 9.9, 5.0, rng.randrange(1, 100) / 10])
    else:
        sp = rng.choice([10.0, 12.5, 99.9, 100.0, 999.9, 1.25, 0.05, 0.25, rng.randrange(100, 10000) / 10, rng.randrange(1, 1000) / 100])
        if len(format(sp, "03")) <= 3:
            sp = 10.0
    di = rng.choice([0, 0, 1, 9, 10, 99, 100, 359, rng.randrange(360)])
    return lp.GPSData(
        data_valid=rng.choice(["A", "V"]), greenwich_time=NUL6 if tm is None else tm, greenwich_date=NUL6 if dt is None else dt, north_south=rng.choice(["N", "S"]),
        latitude=lat4 / 10000, east_west=rng.choice(["E", "W"]), longitude=lon4 / 10000, speed_knots=float(sp), direction=di,
    )


def gen_rrs(rng):
    R = L.rrs
    op = rng.choice(list(R.RRSTypes))
    return R.RadioRegistrationService(
        opcode=op, is_reliable=rng.random() < 0.5, radio_ip=gen_ip(rng), result=rng.choice(list(R.RRSResult)),
        renew_time_seconds=rng.choice([1, 0xFFFE, 3600, 256, 255, rng.randrange(1, 0xFFFF)]) if (op == R.RRSTypes.RadioRegistrationAnswer or rng.random() < 0.1) else 1,
        radio_state=rng.choice(list(R.RRSRadioState)),
    )


def gen_lp(rng, speed_mode="fit"):
    lp = L.lp
    S = lp.LocationProtocolSpecificService
    op = rng.choice([S.StandardRequest, S.StandardReport, S.StandardReport])
    kw = dict(opcode=op, request_id=pick_int(rng, 2**32 - 1), radio_ip=gen_ip(rng), is_reliable=rng.random() < 0.5)
    if op == S.StandardReport or speed_mode == "over":
        kw["opcode"] = op if speed_mode != "over" else S.StandardReport
        kw["result"] = rng.choice([c.value for c in lp.LocationProtocolResultCodes])
        kw["gpsdata"] = gen_gps(rng, speed_mode)
    return lp.LocationProtocol(**kw)


def gen_tmp(rng, big=False):
    T = L.tmp
    S = T.TMPService
    ops = [S.SendPrivateMessage, S.SendPrivateMessageAck, S.SendGroupMessage, S.SendGroupMessageAck,
           S.PrivateShortData, S.PrivateShortDataAck, S.GroupShortData, S.GroupShortDataAck]
    op = rng.choice(ops if not big else [S.SendPrivateMessage, S.SendGroupMessage, S.PrivateShortData, S.GroupShortData])
    has_option = rng.random() < 0.5
    kw = dict(opcode=op, is_reliable=rng.random() < 0.5, is_confirmed=rng.random() < 0.5, has_option=has_option,
              request_id=pick_int(rng, 2**32 - 1), destination_ip=gen_ip(rng))
    if op not in (S.SendGroupMessageAck, S.GroupShortDataAck) or rng.random() < 0.1:
        kw["source_ip"] = gen_ip(rng)
    if op in (S.SendPrivateMessage, S.SendGroupMessage):
        txt = gen_text(rng, big)
        kw["text_data"] = txt if rng.random() < 0.5 else txt.encode("utf-16-le")
    elif op in (S.PrivateShortData, S.GroupShortData):
        kw["short_data"] = gen_bytes(rng, rng.choice([0, 1, 2, 7, 32, 200]) if not big else rng.choice([1000, 30000]))
    else:
        kw["result_code"] = rng.choice(list(T.TMPResultCodes))
    if has_option:
        kw["option_data"] = gen_bytes(rng, rng.choice([0, 0, 1, 3, 4, 16, 255, 256, 300]))
    elif rng.random() < 0.1:
        kw["option_data"] = gen_bytes(rng, 3)  # not serialised without the flag
    return T.TextMessageProtocol(**kw)


def gen_rcp(rng):
    C = L.rcp
    O = C.RCPOpcode
    ops = [O.UnknownService, O.CallRequest, O.CallReply, O.RepeaterBroadcastTransmitStatus,
           O.BroadcastMessageConfigurationRequest, O.BroadcastMessageConfigurationReply,
           O.RadioIDAndRadioIPQueryRequest, O.RadioIDAndRadioIPQueryReply,
           O.BroadcastStatusConfigurationRequest, O.BroadcastStatusConfigurationReply,
           O.SendTalkerAliasRequest, O.SendTalkerAliasReply, O.ZoneAndChannelOperationRequest,
           O.ZoneAndChannelOperationReply, O.StatusChangeNotificationRequest,
           O.StatusChangeNotificationReply, O.RadioStatusReport]
    op = rng.choice(ops)
    kw = dict(opcode=op, is_reliable=rng.random() < 0.5)
    id32 = lambda: pick_int(rng, 2**32 - 1)  # noqa
    ct = lambda: rng.choice(list(C.RCPCallType))  # noqa
    res = lambda: rng.choice(list(C.RCPResult))  # noqa
    if op == O.UnknownService:
        known = {m.value for m in O} - {0}
        while True:
            ro = gen_bytes(rng, 2) if rng.random() < 0.8 else rng.choice([b"\x00\x00", b"\xff\xff", b"\x41\x09"])
            if int.from_bytes(ro, "little") not in known:
                break
        kw.update(raw_opcode=ro, raw_payload=gen_bytes(rng, rng.choice([0, 1, 2, 5, 12, 40, 206, 255, 256, 300, 1000])))
    elif op == O.CallRequest:
        kw.update(call_type=ct(), target_id=id32())
    elif op in (O.CallReply, O.BroadcastMessageConfigurationReply, O.BroadcastStatusConfigurationReply, O.StatusChangeNotificationReply):
        kw.update(result=res())
    elif op == O.RepeaterBroadcastTransmitStatus:
        kw.update(repeater_mode=rng.choice(list(C.RepeaterMode)), repeater_status=rng.choice(list(C.RepeaterStatus)),
                  repeater_service_type=rng.choice(list(C.RepeaterServiceType)), call_type=ct(), target_id=id32(), sender_id=id32())
    elif op == O.BroadcastMessageConfigurationRequest:
        kw.update(broadcast_type=pick_int(rng, 255, (7,)))
    elif op == O.RadioIDAndRadioIPQueryRequest:
        kw.update(target=rng.choice(list(C.RadioIpIdTarget)))
    elif op == O.RadioIDAndRadioIPQueryReply:
        kw.update(result=res(), target=rng.choice(list(C.RadioIpIdTarget)), raw_value=gen_bytes(rng, 4))
    elif op == O.BroadcastStatusConfigurationRequest:
        n = rng.choice([0, 1, 2, 5, 10, 127])
        kw.update(broadcast_config_raw=bytes([n]) + gen_bytes(rng, 2 * n))
    elif op == O.SendTalkerAliasRequest:
        kw.update(call_type=ct(), sender_id=id32(), target_id=id32(), talker_alias_format=rng.choice(list(L.TAF)),
                  talker_alias_data=gen_bytes(rng, rng.choice([0, 1, 6, 31, 254, 255])))
    elif op == O.SendTalkerAliasReply:
        kw.update(result=res(), call_type=ct(), sender_id=id32(), target_id=id32())
    elif op == O.ZoneAndChannelOperationRequest:
        kw.update(raw_payload=gen_bytes(rng, 5))
    elif op == O.ZoneAndChannelOperationReply:
        kw.update(raw_payload=gen_bytes(rng, rng.choice([0, 1, 4, 12, 12, 30, 255, 256, 700])))
    elif op == O.StatusChangeNotificationRequest:
        targets = list(C.StatusChangeNotificationTargets)
        rng.shuffle(targets)
        k = rng.choice([0, 1, 2, 4, 10, len(targets)])
        kw.update(status_change_settings={t: rng.choice(list(C.StatusChangeNotificationSetting)) for t in targets[:k]})
    elif op == O.RadioStatusReport:
        kw.update(status_change_target=rng.choice(list(C.StatusChangeNotificationTargets)), status_change_value=pick_int(rng, 65535))
    return C.RadioControlProtocol(**kw)


def gen_options(rng, k):
    H = L.hstrp
    o = H.HSTRPOptions()
    for _ in range(k):
        c = rng.choice(list(H.HSTRPOptionType))
        natural = {H.HSTRPOptionType.RTP: 0, H.HSTRPOptionType.DeviceID: 4}.get(c, 1)
        n = natural if rng.random() < 0.6 else rng.choice([0, 1, 2, 3, 7, 100, 255])
        o.add_option(c, gen_bytes(rng, n))
    return o


def gen_pkt_type(rng, k_options, has_payload):
    """a packet type consistent with the option list (what HSTRP.from_bytes needs to find the payload)"""
    H = L.hstrp
    while True:
        t = H.HSTRPPacketType(*[rng.random() < 0.3 for _ in range(6)])
        if k_options > 0:
            t.have_options, t.is_heartbeat = True, False
        if consistent(t, k_options, has_payload):
            return t


def consistent(t, k_options, has_payload) -> bool:
    if k_options > 0 and not (t.have_options and not t.is_heartbeat):
        return False
    if k_options == 0 and t.have_options and not t.is_heartbeat and has_payload:
        return False
    return True


# ------------------------------------------------------------------------------------------------
# the oracle


def input_of(p, extra=None):
    d = {"fields": safe(pdu_tuple, p)}
    d["service"] = d["fields"].split(" ")[0]
    if isinstance(p, L.lp.LocationProtocol) and p.specific_service == L.lp.LocationProtocolSpecificService.StandardReport:
        d["speed"] = float(p.gpsdata.speed_knots)
    if extra:
        d.update(extra)
    return d


def check_frame(ctx, p, inp):
    """frame, length, checksum, terminator, len(); returns the bytes or None"""
    b = call(p.as_bytes)
    if isinstance(b, Exc):
        ctx.fail("serialise-raises", inp, f"as_bytes of an in-range PDU raised {b}", actual=repr(b))
        return None
    svc = inp["service"]
    ok_first = b[0] == (SERVICE[svc] | (0x80 if p.is_reliable else 0))
    n = int.from_bytes(b[3:5], "little" if svc in LITTLE else "big")
    if not ok_first:
        ctx.fail("frame-service-byte", inp, "first octet is not service | reliable", expected=SERVICE[svc] | (0x80 if p.is_reliable else 0), actual=b[0])
    if len(b) < 7 or n != len(b) - 7:
        ctx.fail("frame-length-field", inp, "length field differs from the actual payload length", expected=len(b) - 7, actual=n)
    if len(b) >= 7 and b[-2] != spec_hdap_checksum(b[1:-2]):
        ctx.fail("frame-checksum", inp, "checksum differs from the independent computation", expected=spec_hdap_checksum(b[1:-2]), actual=b[-2])
    if b[-1:] != b"\x03":
        ctx.fail("frame-terminator", inp, "last octet is not 0x03", expected=3, actual=b[-1] if b else None)
    ln = call(len, p)
    if ln != len(b):
        ctx.fail("len-mismatch", inp, "len(p) differs from the number of bytes produced", expected=len(b), actual=repr(ln))
    # opcode octets
    exp_op = expected_opcode(p)
    if exp_op is not None and b[1:3] != exp_op:
        ctx.fail("frame-opcode", inp, "opcode octets differ from the opcode's value in the protocol's byte order", expected=exp_op.hex(), actual=b[1:3].hex())
    return b


def expected_opcode(p):
    if isinstance(p, L.rrs.RadioRegistrationService):
        return bytes([0, p.opcode.value])
    if isinstance(p, L.lp.LocationProtocol):
        return p.specific_service.value.to_bytes(2, "big")
    if isinstance(p, L.tmp.TextMessageProtocol):
        return bytes([(0x80 if p.is_confirmed else 0) | (0x40 if p.has_option else 0), p.opcode.value])
    if isinstance(p, L.rcp.RadioControlProtocol):
        if p.opcode == L.rcp.RCPOpcode.UnknownService:
            return bytes(p.raw_opcode)
        return p.opcode.value.to_bytes(2, "little")
    return None


def check_roundtrip(ctx, p, b, inp):
    q = call(L.hdap.HDAP.from_bytes, b)
    if isinstance(q, Exc):
        ctx.fail("parse-raises", inp, f"HDAP.from_bytes of the serialisation raised {q}", actual=repr(q))
        return
    if q is None or type(q) is not type(p):
        ctx.fail("parse-type", inp, "parsing the serialisation does not give the same kind of PDU", expected=type(p).__name__, actual=type(q).__name__)
        return
    b2 = call(q.as_bytes)
    if isinstance(b2, Exc) or b2 != b:
        ctx.fail("roundtrip-bytes", inp, "parse then serialise does not reproduce the bytes", expected=b.hex(), actual=repr(b2) if isinstance(b2, Exc) else b2.hex())
    fp, fq = safe(relevant_tuple, p), safe(relevant_tuple, q)
    if fp != fq:
        ctx.fail("roundtrip-fields", inp, "parsed fields differ from the fields the PDU was built from", expected=fp, actual=fq)
    elif isinstance(p, L.lp.LocationProtocol) and p.specific_service == L.lp.LocationProtocolSpecificService.StandardReport:
        g, h = p.gpsdata, q.gpsdata
        if (g.latitude, g.longitude, float(g.speed_knots)) != (h.latitude, h.longitude, float(h.speed_knots)):
            ctx.fail("roundtrip-fields", inp, "parsed GPS floats differ", expected=[g.latitude, g.longitude, g.speed_knots], actual=[h.latitude, h.longitude, h.speed_knots])


def check_hrnp(ctx, rng, p, b, inp, pairs):
    H = L.hrnp
    kw = dict(opcode=H.HRNPOpcodes.DATA, data=p, source=pick_int(rng, 255, (0x20,)), destination=pick_int(rng, 255, (0x10,)),
              block_number=pick_int(rng, 255), packet_number=pick_int(rng, 65535))
    if rng.random() < 0.3:
        kw["version"] = rng.choice([0, 1, 2, 3, 4])
    if b is not None and rng.random() < 0.25:
        # boundary of the end-around carry: choose the packet number so that the first fold of the 16-bit word sum
        # overflows again (low half of the sum within `carries` of 0xFFFF) or lands exactly on 0xFFFF / 0x0000
        kw["packet_number"] = carry_packet_number(rng, kw, b)
        ctx.count("hrnp:carry-boundary")
    h = call(H.HRNP, **kw)
    inp = dict(inp, nesting="HRNP", hrnp={k: (v if isinstance(v, int) else None) for k, v in kw.items() if k not in ("opcode", "data")})
    if isinstance(h, Exc):
        ctx.fail("hrnp-construct-raises", inp, f"HRNP(...) raised {h}", actual=repr(h))
        return
    hb = call(h.as_bytes)
    if isinstance(hb, Exc):
        ctx.fail("hrnp-serialise-raises", inp, f"HRNP.as_bytes raised {hb}", actual=repr(hb))
        return
    if b is not None:
        lf = int.from_bytes(hb[8:10], "big")
        if not (lf == len(hb) == 12 + len(b)) or call(len, h) != len(hb):
            ctx.fail("hrnp-length", inp, "HRNP length field / len() / actual length / 12 + inner differ", expected=12 + len(b), actual=[lf, len(hb), repr(call(len, h))])
        if hb[12:] != b:
            ctx.fail("hrnp-payload", inp, "HRNP payload is not the HDAP serialisation", expected=b.hex(), actual=hb[12:].hex())
        if not spec_ones_complement_ok(hb):
            ctx.fail("hrnp-checksum", inp, "ones-complement sum over the HRNP packet is not 0xFFFF", expected="ffff", actual=hb[10:12].hex())
    h2 = call(H.HRNP.from_bytes, hb)
    if isinstance(h2, Exc):
        ctx.fail("parse-raises", inp, f"HRNP.from_bytes of the serialisation raised {h2}", actual=repr(h2))
    else:
        if not h2.checksum_correct:
            ctx.fail("hrnp-checksum-verify", inp, "HRNP.from_bytes does not verify the checksum of a serialised packet", expected=True, actual=False)
        hb2 = call(h2.as_bytes)
        if isinstance(hb2, Exc) or hb2 != hb:
            ctx.fail("roundtrip-bytes", inp, "HRNP parse then serialise does not reproduce the bytes", expected=hb.hex(), actual=repr(hb2) if isinstance(hb2, Exc) else hb2.hex())
        f1 = safe(lambda: hrnp_fields(h)), safe(lambda: hrnp_fields(h2))
        if f1[0] != f1[1]:
            ctx.fail("roundtrip-fields", inp, "HRNP parsed fields differ", expected=f1[0], actual=f1[1])
    if pairs is not None:
        tup = safe(pdu_tuple, p)
        if not tup.startswith("ERR"):
            pairs.append((f"hrnp.mk {hx(h.header)} {hx(h.version)} {h.block_number} {h.opcode.value} {h.source} {h.destination} {h.packet_number} {tup}", hx(hb) + " " + str(len(h))))
            pairs.append((f"hrnp.parse {hx(hb)}", impl_hrnp_parse(hb)))


def carry_packet_number(rng, kw, inner: bytes) -> int:
    """packet number that puts the ones-complement word sum of the packet at the cascade boundary"""
    ver = kw.get("version", 4)
    head = bytes([0x7E, ver, kw["block_number"], 0x00, kw["source"], kw["destination"], 0, 0]) + (12 + len(inner)).to_bytes(2, "big")
    d = head + inner
    d += b"\x00" if len(d) % 2 else b""
    s0 = sum(int.from_bytes(d[i : i + 2], "big") for i in range(0, len(d), 2))
    carries = max(1, (s0 + 0xFFFF) >> 16)
    j = rng.choice([0, 0, 1, carries - 1, carries, rng.randrange(carries + 1)])
    return (0xFFFF - (s0 & 0xFFFF) - j) & 0xFFFF


def hrnp_fields(h):
    return " ".join([hx(h.header), hx(h.version), str(h.block_number), str(h.opcode.value), str(h.source), str(h.destination),
                     str(h.packet_number), "NONE" if h.data is None else relevant_tuple(h.data)])


def check_hstrp(ctx, rng, p, b, inp, pairs, k=None):
    H = L.hstrp
    k = rng.choice([0, 1, 2, 2, 3, 4]) if k is None else k
    opts = gen_options(rng, k)
    t = gen_pkt_type(rng, k, p is not None)
    sn = pick_int(rng, 65535)
    use_none = k == 0 and rng.random() < 0.5
    s = H.HSTRP(pkt_type=t, sn=sn, options=None if use_none else opts, payload=p, version=rng.choice([0, 0, 0, 1, 255]))
    inp = dict(inp, nesting="HSTRP", hstrp={"type": t.as_bytes()[0], "sn": sn, "options": opts_s(opts), "version": s.version})
    sb = call(s.as_bytes)
    if isinstance(sb, Exc):
        ctx.fail("hstrp-serialise-raises", inp, f"HSTRP.as_bytes raised {sb}", actual=repr(sb))
        return
    # independent reading of the frame
    exp_head = b"2B" + bytes([s.version, t.as_bytes()[0]]) + sn.to_bytes(2, "big")
    if sb[:6] != exp_head:
        ctx.fail("hstrp-header", inp, "HSTRP header octets differ", expected=exp_head.hex(), actual=sb[:6].hex())
    rest = sb[6:]
    if k > 0:
        walked = call(spec_walk_options, rest)
        want = [(c.value, d) for c, d in opts.options]
        if isinstance(walked, Exc) or walked[0] != want:
            ctx.fail("hstrp-options", inp, "independent TLV walk does not find the option list", expected=[(c, d.hex()) for c, d in want], actual=repr(walked))
        else:
            if walked[1] != len(opts):
                ctx.fail("hstrp-options-len", inp, "len(options) differs from the octets the chain occupies", expected=walked[1], actual=len(opts))
            rest = rest[walked[1] :]
    if rest != (b if b is not None else b""):
        ctx.fail("hstrp-payload", inp, "octets after the options are not the HDAP serialisation", expected=(b or b"").hex(), actual=rest.hex())
    s2 = call(H.HSTRP.from_bytes, sb)
    if isinstance(s2, Exc) or s2 is None:
        ctx.fail("parse-raises", inp, f"HSTRP.from_bytes of the serialisation gave {s2!r}", actual=repr(s2))
    else:
        sb2 = call(s2.as_bytes)
        if isinstance(sb2, Exc) or sb2 != sb:
            ctx.fail("roundtrip-bytes", inp, "HSTRP parse then serialise does not reproduce the bytes", expected=sb.hex(), actual=repr(sb2) if isinstance(sb2, Exc) else sb2.hex())
        f1 = safe(lambda: hstrp_fields(s)), safe(lambda: hstrp_fields(s2))
        if f1[0] != f1[1]:
            ctx.fail("roundtrip-fields", inp, "HSTRP parsed fields differ", expected=f1[0], actual=f1[1])
    if pairs is not None:
        tup = safe(pdu_tuple, p)
        if not tup.startswith("ERR"):
            pairs.append((f"hstrp.mk {s.version} {t.as_bytes()[0]} {sn} {opts_s(None if use_none else opts)} {tup}", hx(sb)))
            pairs.append((f"hstrp.parse {hx(sb)}", impl_hstrp_parse(sb)))


def hstrp_fields(s):
    return " ".join([str(s.version), str(s.pkt_type.as_bytes()[0]), str(s.sn), opts_s(s.options),
                     "NONE" if s.payload is None else relevant_tuple(s.payload)])


def one_pdu(ctx, rng, p, kind, pairs, sample=False, nest=True):
    inp = input_of(p)
    desc = (kind, inp["fields"])
    ctx.count("pdu:" + kind)
    b = check_frame(ctx, p, inp)
    if b is not None:
        check_roundtrip(ctx, p, b, inp)
        if pairs is not None and not inp["fields"].startswith("ERR"):
            pairs.append(("hdap.mk " + inp["fields"], hx(b) + " " + str(call(len, p))))
            pairs.append(("hdap.parse " + hx(b), impl_hdap_parse(b)))
    if nest:
        check_hrnp(ctx, rng, p, b, inp, pairs)
        check_hstrp(ctx, rng, p, b, inp, pairs)
    ctx.case(desc, nontrivial=True, sample={"kind": kind, "fields": inp["fields"], "bytes": None if b is None else b.hex()[:120]} if sample else None)


# ------------------------------------------------------------------------------------------------
# corpus


def corpus_hex():
    out = []
    for fn in sorted(glob.glob(os.path.join(TESTS, "**", "*.py"), recursive=True)):
        try:
            src = open(fn, encoding="utf-8").read()
        except OSError:
            continue
        for m in re.finditer(r"\"([0-9a-fA-F]{16,})\"", src):
            h = m.group(1).lower()
            if len(h) % 2 == 0 and h not in out:
                out.append(h)
    # byte literals of test_rrs.py and the captures quoted in the test-suite, kept here as well
    out += [h for h in STATIC_CORPUS if h not in out]
    return [h for h in out if h[:4] == "3242" or h[:2] in ("7e", "02", "82", "08", "88", "09", "89", "11", "91")]


STATIC_CORPUS = [
    "91008000090a0000500000000e103103",
    "91000200040a0000140e03",
    "11008200050a000021008003",
    "0980a10022000000010a01b2070a03640e4f004c004900560045005200200054004500530054007a03",
    "0980a2000d000000010a01b2070a030000003103",
    "09c0a200120003000000020a01b2070a03000000010203e203",
    "08a0020032000000010a2110dd0000413138333634383236313031354e343731382e383035314530313835342e34333837302e313132310b03",
    "08a002003200000003002337fb0000410000000000000000000000004e353030332e383737314530313432362e353330320000000000007003",
    "024108050000d20400000e03",
    "0241880100006803",
    "0245b810000100040004000000fd080000fa372300c303",
    "0245b81000010005000000000000000000000000001f03",
    "02471808000000000000000000cb03",
    "0247880100006203",
    "02c7100900040b010601050012012303",
    "02c8b003000b0400a803",
    "02c910050002000101014f03",
    "025284060000010a0003e95f03",
    "02040005006400000001c403",
    "0204800600000f690600012903",
    "324200000001024108050000d20400000e03",
    "32420020000183040001869f04010211000300040a000064bd03",
    "32420020000b830400066b0e0401010245b810000100040004000000fd080000fa372300c303",
    "32420020001383040001869f0401010241880100006803",
    "7e0400fe20100000000c60e1",
    "7e0300fe20100000000c60e2",
    "7e0400fd10200000000c70d2",
    "7e04001010200001000c71be",
    "7e04000020100001001b43b502471808000700000000000000c403",
    "7e04000010200004002767790980b1001400000001000000010a000835610068006f006a000203",
    "7e04000020100000001c03f502c7100900040b010601050012012303",
]


def run_corpus(ctx, pairs):
    for h in corpus_hex():
        data = bytes.fromhex(h)
        kind = "hstrp" if h[:4] == "3242" else ("hrnp" if h[:2] == "7e" else "hdap")
        cls = {"hstrp": L.hstrp.HSTRP, "hrnp": L.hrnp.HRNP, "hdap": L.hdap.HDAP}[kind]
        o = call(cls.from_bytes, data)
        inp = {"corpus": h, "layer": kind}
        ctx.count("corpus:" + kind)
        ctx.case(("corpus", h), sample={"kind": "captured " + kind, "bytes": h[:120]} if h.startswith("0980a1") else None)
        if isinstance(o, Exc) or o is None:
            ctx.fail("corpus-parse", inp, f"captured packet no longer parses: {o!r}", actual=repr(o))
        else:
            b = call(o.as_bytes)
            if isinstance(b, Exc) or b != data:
                ctx.fail("corpus-reencode", inp, "captured packet does not re-encode to itself", expected=h, actual=repr(b) if isinstance(b, Exc) else b.hex())
            if kind == "hrnp" and not o.checksum_correct:
                ctx.fail("corpus-checksum", inp, "captured HRNP packet's checksum does not verify", expected=True, actual=False)
            if kind == "hrnp" and not spec_ones_complement_ok(data):
                ctx.fail("corpus-checksum", inp, "captured HRNP packet's ones-complement sum is not 0xFFFF")
            inner = o if kind == "hdap" else (o.data if kind == "hrnp" else o.payload)
            if inner is not None and not isinstance(inner, Exc):
                ib = call(inner.as_bytes)
                if not isinstance(ib, Exc):
                    if ib[-2] != spec_hdap_checksum(ib[1:-2]) or call(len, inner) != len(ib):
                        ctx.fail("corpus-frame", inp, "captured PDU's checksum / len() differ from the independent computation")
        if pairs is not None:
            pairs.append((f"{kind}.parse {h}", {"hstrp": impl_hstrp_parse, "hrnp": impl_hrnp_parse, "hdap": impl_hdap_parse}[kind](data)))


def regression_pdus():
    """inputs of the two repaired defects (eccf836, 858bc10) and the shapes the captures never contain"""
    lp, T = L.lp, L.tmp
    out = []
    out.append(("regress:lp-reliable-request", lp.LocationProtocol(opcode=lp.LocationProtocolSpecificService.StandardRequest, request_id=7, radio_ip=L.RadioIP(radio_id=1001), is_reliable=True)))
    for op in (T.TMPService.SendPrivateMessage, T.TMPService.SendPrivateMessageAck, T.TMPService.GroupShortData, T.TMPService.SendGroupMessageAck):
        out.append(("regress:tmp-empty-option", T.TextMessageProtocol(opcode=op, has_option=True, option_data=b"", source_ip=L.RadioIP(radio_id=2), destination_ip=L.RadioIP(radio_id=3),
                                                                     request_id=9, text_data="ab", result_code=T.TMPResultCodes.OK, short_data=b"\x01\x02")))
    g = lp.GPSData(data_valid="A", greenwich_time=time(12, 34, 56), greenwich_date=date(2024, 2, 29), north_south="N", latitude=4718.8051,
                   east_west="E", longitude=1854.4387, speed_knots=9.9, direction=359)
    out.append(("regress:lp-report-9.9kn", lp.LocationProtocol(opcode=lp.LocationProtocolSpecificService.StandardReport, request_id=1, radio_ip=L.RadioIP(radio_id=1), gpsdata=g, is_reliable=True)))
    return out


# ------------------------------------------------------------------------------------------------
# malformed / mutated byte strings: correspondence of the parsers (and their error kinds)

ASCII_ALPHABET = list(b"0123456789") + [0x2E, 0x00, 0x58]


def mutate(rng, b: bytes, is_lp_report: bool):
    r = rng.random()
    if r < 0.35 and len(b) > 0:
        return b[: rng.randrange(len(b))]  # truncation
    if r < 0.5:
        return b + gen_bytes(rng, rng.choice([1, 2, 5]))
    m = bytearray(b)
    for _ in range(rng.choice([1, 1, 2])):
        i = rng.randrange(len(m))
        if is_lp_report and 15 <= i < 55:
            if i - 15 in (0, 13, 23):
                m[i] = rng.choice(list(b"AVNSEW") + [rng.randrange(256)])
            else:
                m[i] = rng.choice(ASCII_ALPHABET)
        else:
            m[i] = rng.choice([m[i] ^ (1 << rng.randrange(8)), rng.randrange(256), 0, 0xFF])
    return bytes(m)


def lp_report_unmodelled(data: bytes) -> bool:
    """an LP StandardReport whose ASCII number fields leave the alphabet / grid the model covers"""
    if len(data) < 3 or (data[0] & 0x7F) != 0x08 or data[1:3] != b"\xa0\x02":
        return False
    g = data[15:55]
    if len(g) != 40:
        return False
    num = g[1:13] + g[14:23] + g[24:40]
    if any(x not in ASCII_ALPHABET for x in num):
        return True
    for f in (g[14:23], g[24:34]):
        if b"." in f and len(f) - f.index(b".") - 1 > 4:
            return True
    return False


# ------------------------------------------------------------------------------------------------


def speed_overflow(f) -> bool:
    """known finding: an LP report whose speed does not fit the 3-octet field"""
    inp = f.get("input") or {}
    sp = inp.get("speed")
    return (
        inp.get("service") == "LP"
        and isinstance(sp, (int, float))
        and sp > 0
        and len(format(float(sp), "03")) > 3
        and f.get("kind") in ("parse-raises", "roundtrip-bytes", "roundtrip-fields", "hrnp-construct-raises", "hrnp-checksum-verify")
    )


MATCHERS = {"lp_speed_longer_than_three_characters": speed_overflow}


def run(ctx):
    load()
    rng = ctx.rng
    ctx.rule = (
        "corpus: every hex capture quoted in /repo/okdmr/tests/dmrlib/hytera (+ the byte literals of test_rrs, the inputs of "
        "the two repaired defects); generated: per service a field generator over all implemented opcodes (RRS 5, LP 2, TMP 8, "
        "RCP 17) with boundary-favouring integers (radio ids 0..2^24-1, request/ids 0..2^32-1), random UTF-16 text incl. "
        "surrogate pairs and NULs, option data 0..300 octets, GPS values over the NMEA range on the 10^-4 grid, every PDU alone, "
        "nested in HRNP DATA (random addresses / numbers) and nested in HSTRP with 0..4 options of 0..255 octets and a random "
        "consistent packet type; plus mutated / truncated serialisations for the parsers' correspondence. A case is one PDU "
        "(distinct = distinct field tuple); all are non-trivial."
    )
    ctx.trusted_base += [
        "Lean 4.33 kernel",
        "tools/extract_hytera.py (member values of the Hytera enums, complete value graphs checked against member-or-missing)",
        "hand-written model Model/Hdap.lean, Hrnp.lean, Hstrp.lean tied to the code by this run's correspondence",
        "Python float formatting / parsing of the LP ASCII fields is modelled over exact decimals (latitude/longitude in 10^-4 units, "
        "speed as its repr digits) and only cross-checked by the correspondence, not verified",
        "Python's UTF-16 codec (text is an opaque byte string in the model), datetime.strftime, bitarray",
    ]
    ctx.assumptions += [
        "in-range fields: enum-typed attributes are members, integers fit their wire width, GPS coordinates are multiples of 10^-4 "
        "below 10^4 / 10^5 minutes, dates lie in 2000..2099, times have no microseconds, RCP raw payloads have the length their opcode fixes "
        "(zone/channel request 5, id/ip reply 4, broadcast configuration 1+2n), an UnknownService raw opcode is not a known opcode, "
        "status-change settings are a dict (distinct targets)",
        "HSTRP packets are 'consistent': options only with the option bit and without the heartbeat bit; option bit without options only without payload",
        "fields compared are the attributes the opcode serialises (relevant_tuple); attributes an opcode never writes are not fields of that PDU",
    ]
    do_corr = (not ctx.search_only) and ctx.driver_ok
    pairs = [] if do_corr else None

    # -------- corpus and regression inputs first
    run_corpus(ctx, pairs)
    for kind, p in regression_pdus():
        one_pdu(ctx, rng, p, kind, pairs, sample=kind.endswith("request"))

    # -------- generated PDUs
    n = ctx.budget(2500, 25000)
    gens = [("RRS", gen_rrs), ("LP", gen_lp), ("TMP", gen_tmp), ("RCP", gen_rcp)]
    for i in range(n):
        for name, g in gens:
            p = call(g, rng)
            if isinstance(p, Exc):
                ctx.fail("construct-raises", {"service": name}, f"constructing an in-range {name} PDU raised {p}", actual=repr(p))
                continue
            one_pdu(ctx, rng, p, name, pairs, sample=i == 3)
        if pairs is not None and len(pairs) > 20000:
            ctx.correspond("pdu build/parse (alone, HRNP, HSTRP)", pairs)
            pairs = []
    # big payloads (length field beyond one octet, up to the 16-bit limit)
    for i in range(ctx.budget(6, 60)):
        p = call(gen_tmp, rng, True)
        if not isinstance(p, Exc):
            one_pdu(ctx, rng, p, "TMP-big", pairs)
    # -------- known finding: speeds that do not fit (kept separate so that the fitting stream stays clean)
    for i in range(ctx.budget(40, 400)):
        p = call(gen_lp, rng, "over")
        if not isinstance(p, Exc):
            one_pdu(ctx, rng, p, "LP-speed-over", pairs, nest=i % 4 == 0)
    # -------- HRNP without data, HSTRP without payload
    H, S = L.hrnp, L.hstrp
    for i in range(ctx.budget(60, 600)):
        op = rng.choice([o for o in H.HRNPOpcodes if o != H.HRNPOpcodes.DATA])
        h = H.HRNP(opcode=op, source=pick_int(rng, 255), destination=pick_int(rng, 255), block_number=pick_int(rng, 255), packet_number=pick_int(rng, 65535))
        hb = call(h.as_bytes)
        inp = {"layer": "hrnp", "opcode": op.value, "fields": safe(hrnp_tuple, h)}
        ctx.case(("hrnp-nodata", inp["fields"]))
        ctx.count("hrnp:no-data")
        if isinstance(hb, Exc) or len(hb) != 12 or int.from_bytes(hb[8:10], "big") != 12 or len(h) != 12 or not spec_ones_complement_ok(hb):
            ctx.fail("hrnp-length", inp, "HRNP without data is not a 12-octet packet with verifying checksum", expected=12, actual=repr(hb))
        else:
            h2 = call(H.HRNP.from_bytes, hb)
            if isinstance(h2, Exc) or not h2.checksum_correct or call(h2.as_bytes) != hb or hrnp_fields(h2) != hrnp_fields(h):
                ctx.fail("roundtrip-bytes", inp, "HRNP without data does not round-trip", expected=hb.hex(), actual=repr(h2))
            if pairs is not None:
                pairs.append((f"hrnp.mk {hx(h.header)} {hx(h.version)} {h.block_number} {h.opcode.value} {h.source} {h.destination} {h.packet_number} NONE", hx(hb) + " 12"))
                pairs.append((f"hrnp.parse {hx(hb)}", impl_hrnp_parse(hb)))
    for i in range(ctx.budget(120, 1200)):
        ctx.count("hstrp:no-payload")
        ctx.case(("hstrp-nopayload", i, ctx.seed))
        check_hstrp(ctx, rng, None, None, {"fields": "NONE", "service": "-"}, pairs)
    # all 256 packet type octets
    if pairs is not None:
        for v in range(256):
            t = S.HSTRPPacketType.from_bytes(bytes([v]))
            pairs.append((f"type.byte {v}", f"{t.as_bytes()[0]} {b01(t.has_options)} {b01(t.has_data)}"))
    for v in range(64):
        bits = [(v >> (5 - i)) & 1 == 1 for i in range(6)]
        t = S.HSTRPPacketType(*bits)
        t2 = S.HSTRPPacketType.from_bytes(t.as_bytes())
        ctx.case(("pkt-type", v))
        if t.as_bytes() != bytes([v]) or [t2.have_options, t2.is_reject, t2.is_close, t2.is_connect, t2.is_heartbeat, t2.is_ack] != bits:
            ctx.fail("hstrp-type-bits", {"layer": "hstrp", "type": v}, "packet type bits do not round-trip", expected=v, actual=t.as_bytes().hex())

    # -------- parsers on mutated input (correspondence only: error kinds, fields, re-serialisation)
    if pairs is not None:
        base = []
        for name, g in gens * 3:
            p = call(g, rng)
            if isinstance(p, Exc):
                continue
            b = call(p.as_bytes)
            if not isinstance(b, Exc):
                base.append((name, p, b))
        m = ctx.budget(4000, 30000)
        for i in range(m):
            if i % 50 == 0:
                base = []
                for name, g in gens * 3:
                    p = call(g, rng)
                    b = call(p.as_bytes) if not isinstance(p, Exc) else p
                    if not isinstance(b, Exc):
                        base.append((name, p, b))
            name, p, b = rng.choice(base)
            is_rep = name == "LP" and b[1:3] == b"\xa0\x02"
            layer = rng.choice(["hdap", "hdap", "hrnp", "hstrp", "opts"])
            if layer == "hdap":
                d = mutate(rng, b, is_rep)
                if lp_report_unmodelled(d):
                    ctx.count("mutated:skipped-unmodelled")
                    continue
                pairs.append((f"hdap.parse {hx(d)}", impl_hdap_parse(d)))
            elif layer == "hrnp":
                hb = L.hrnp.HRNP(opcode=L.hrnp.HRNPOpcodes.DATA, data=p, packet_number=rng.randrange(65536)).as_bytes()
                d = bytearray(hb)
                r = rng.random()
                if r < 0.3:
                    d = d[: rng.randrange(len(d))]
                elif r < 0.8:
                    i2 = rng.randrange(12)
                    d[i2] = rng.choice([d[i2] ^ (1 << rng.randrange(8)), rng.randrange(256)])
                else:
                    d = d + gen_bytes(rng, 3)
                d = bytes(d)
                if lp_report_unmodelled(d[12 : int.from_bytes(d[8:10], "big")]):
                    ctx.count("mutated:skipped-unmodelled")
                    continue
                pairs.append((f"hrnp.parse {hx(d)}", impl_hrnp_parse(d)))
            elif layer == "hstrp":
                k = rng.choice([0, 1, 2, 3])
                opts = gen_options(rng, k)
                t = L.hstrp.HSTRPPacketType(*[rng.random() < 0.4 for _ in range(6)])  # not necessarily consistent
                sb = bytearray(L.hstrp.HSTRP(pkt_type=t, sn=rng.randrange(65536), options=opts, payload=p if rng.random() < 0.7 else None).as_bytes())
                r = rng.random()
                if r < 0.3:
                    sb = sb[: rng.randrange(len(sb) + 1)]
                elif r < 0.6:
                    i2 = rng.randrange(min(len(sb), 6 + len(opts) + 1))
                    sb[i2] = rng.choice([sb[i2] ^ (1 << rng.randrange(8)), rng.randrange(256)])
                sb = bytes(sb)
                # the payload the parser will look at must stay inside what the model covers
                skip = any(lp_report_unmodelled(sb[j:]) for j in range(6, min(len(sb), 6 + len(opts) + 8)))
                if skip:
                    ctx.count("mutated:skipped-unmodelled")
                    continue
                pairs.append((f"hstrp.parse {hx(sb)}", impl_hstrp_parse(sb)))
            else:
                ob = bytearray(gen_options(rng, rng.choice([1, 2, 3, 4])).as_bytes() + gen_bytes(rng, rng.choice([0, 0, 3])))
                r = rng.random()
                if r < 0.4:
                    ob = ob[: rng.randrange(len(ob) + 1)]
                elif r < 0.7:
                    i2 = rng.randrange(len(ob))
                    ob[i2] = rng.choice([ob[i2] ^ (1 << rng.randrange(8)), rng.randrange(256)])
                pairs.append((f"opts.parse {hx(bytes(ob))}", impl_opts_parse(bytes(ob))))
            ctx.count("mutated:" + layer)
        # checksums on arbitrary byte strings
        for i in range(ctx.budget(300, 3000)):
            d = gen_bytes(rng, rng.choice([0, 1, 2, 3, 10, 11, 64, 255, 256, 1000]))
            pairs.append((f"hdap.cksum {hx(d)}", str(L.hdap.HDAP.get_hdap_checksum(d)[0])))
            if L.hdap.HDAP.get_hdap_checksum(d)[0] != spec_hdap_checksum(d):
                ctx.fail("frame-checksum", {"layer": "hdap", "checked": d.hex()}, "get_hdap_checksum differs from the independent formula")
        ctx.correspond("pdu build/parse (alone, HRNP, HSTRP), mutated parsers, checksums", pairs)


# ------------------------------------------------------------------------------------------------


def replay(obj):
    load()
    f = obj.get("failure") or {}
    inp = f.get("input") or {}
    print(obj.get("type"), "-", f.get("what"))
    print("input:", inp)
    still = 0
    if "corpus" in inp:
        data = bytes.fromhex(inp["corpus"])
        cls = {"hstrp": L.hstrp.HSTRP, "hrnp": L.hrnp.HRNP, "hdap": L.hdap.HDAP}[inp.get("layer", "hdap")]
        o = call(cls.from_bytes, data)
        b = call(o.as_bytes) if not isinstance(o, Exc) and o is not None else o
        print("implementation: parse ->", repr(o) if isinstance(o, Exc) else type(o).__name__, "; re-encode ->", repr(b) if isinstance(b, Exc) or b is None else b.hex())
        still = 0 if (not isinstance(b, Exc) and b == data) else 1
    elif isinstance(inp.get("fields"), str) and inp["fields"].split(" ")[0] in SERVICE:
        p = call(build_from_tuple, inp["fields"])
        if isinstance(p, Exc):
            print("cannot rebuild the PDU from its field tuple:", p)
            return 1
        b = call(p.as_bytes)
        print("implementation as_bytes:", repr(b) if isinstance(b, Exc) else b.hex(), "len():", call(len, p))
        if not isinstance(b, Exc):
            q = call(L.hdap.HDAP.from_bytes, b)
            print("implementation from_bytes ->", repr(q) if isinstance(q, Exc) else safe(pdu_tuple, q))
            b2 = call(q.as_bytes) if not isinstance(q, Exc) and q is not None else q
            print("implementation re-serialised:", repr(b2) if isinstance(b2, Exc) or b2 is None else b2.hex())

            class C:  # minimal context to re-run the oracle on this one PDU
                failures = []

                def fail(self, kind, i, what, expected=None, actual=None):
                    self.failures.append((kind, what))

            c = C()
            bb = check_frame(c, p, input_of(p))
            if bb is not None:
                check_roundtrip(c, p, bb, input_of(p))
            import random

            if inp.get("nesting") == "HRNP":
                for s in range(20):
                    check_hrnp(c, random.Random(s), p, bb, input_of(p), None)
            if inp.get("nesting") == "HSTRP":
                for s in range(20):
                    check_hstrp(c, random.Random(s), p, bb, input_of(p), None)
            for kf in sorted(set(c.failures)):
                print("oracle:", kf)
            still = 1 if c.failures else 0
        else:
            still = 1
        print("model: run `echo 'hdap.mk " + inp["fields"] + "' | lean/.lake/build/bin/drv_c12`")
    else:
        print("expected:", f.get("expected"), "actual:", f.get("actual"))
        still = 1
    print("expected:", f.get("expected"))
    print("actual:  ", f.get("actual"))
    return still


def build_from_tuple(t: str):
    """inverse of pdu_tuple on the real classes"""
    a = t.split(" ")
    ip = lambda s: None if s == "N" else L.RadioIP(subnet=int(s.split(":")[0]), radio_id=int(s.split(":")[1]))  # noqa
    unhx = lambda s: b"" if s == "-" else bytes.fromhex(s)  # noqa
    if a[0] == "RRS":
        R = L.rrs
        return R.RadioRegistrationService(opcode=R.RRSTypes(int(a[2])), is_reliable=a[1] == "1", radio_ip=ip(a[3]), result=int(a[4]), renew_time_seconds=int(a[5]), radio_state=int(a[6]))
    if a[0] == "LP":
        lp = L.lp
        kw = dict(opcode=lp.LocationProtocolSpecificService(int(a[2])), is_reliable=a[1] == "1", request_id=int(a[3]), radio_ip=ip(a[4]))
        if len(a) > 5:
            tr = lambda s: None if s == "N" else [int(x) for x in s.split(":")]  # noqa
            tm, dt = tr(a[7]), tr(a[8])
            kw["result"] = int(a[5])
            kw["gpsdata"] = lp.GPSData(data_valid="A" if a[6] == "1" else "V", greenwich_time=NUL6 if tm is None else time(*tm),
                                       greenwich_date=NUL6 if dt is None else date(2000 + dt[2], dt[1], dt[0]), north_south="N" if a[9] == "1" else "S",
                                       latitude=int(a[10]) / 10000, east_west="E" if a[11] == "1" else "W", longitude=int(a[12]) / 10000,
                                       speed_knots=float(a[13]), direction=int(a[14]))
        return lp.LocationProtocol(**kw)
    if a[0] == "TMP":
        T = L.tmp
        return T.TextMessageProtocol(opcode=T.TMPService(int(a[4])), is_reliable=a[1] == "1", is_confirmed=a[2] == "1", has_option=a[3] == "1", request_id=int(a[5]),
                                     destination_ip=ip(a[6]), source_ip=ip(a[7]), text_data=unhx(a[8]), option_data=None if a[9] == "N" else unhx(a[9]),
                                     result_code=None if a[10] == "N" else T.TMPResultCodes(int(a[10])), short_data=unhx(a[11]))
    if a[0] == "RCP":
        C = L.rcp
        O = C.RCPOpcode
        op = O(int(a[2]))
        kw = dict(opcode=op, is_reliable=a[1] == "1")
        r = a[3:]
        if op == O.UnknownService:
            kw.update(raw_opcode=unhx(r[0]), raw_payload=unhx(r[1]))
        elif op == O.CallRequest:
            kw.update(call_type=int(r[0]), target_id=int(r[1]))
        elif op in (O.CallReply, O.BroadcastMessageConfigurationReply, O.BroadcastStatusConfigurationReply, O.StatusChangeNotificationReply):
            kw.update(result=C.RCPResult(int(r[0])))
        elif op == O.RepeaterBroadcastTransmitStatus:
            kw.update(repeater_mode=C.RepeaterMode(int(r[0])), repeater_status=C.RepeaterStatus(int(r[1])), repeater_service_type=C.RepeaterServiceType(int(r[2])),
                      call_type=C.RCPCallType(int(r[3])), target_id=int(r[4]), sender_id=int(r[5]))
        elif op == O.BroadcastMessageConfigurationRequest:
            kw.update(broadcast_type=int(r[0]))
        elif op == O.RadioIDAndRadioIPQueryRequest:
            kw.update(target=C.RadioIpIdTarget(int(r[0])))
        elif op == O.RadioIDAndRadioIPQueryReply:
            kw.update(result=C.RCPResult(int(r[0])), target=C.RadioIpIdTarget(int(r[1])), raw_value=unhx(r[2]))
        elif op == O.BroadcastStatusConfigurationRequest:
            kw.update(broadcast_config_raw=unhx(r[0]))
        elif op == O.SendTalkerAliasRequest:
            kw.update(call_type=C.RCPCallType(int(r[0])), sender_id=int(r[1]), target_id=int(r[2]), talker_alias_format=L.TAF(int(r[3])), talker_alias_data=unhx(r[4]))
        elif op == O.SendTalkerAliasReply:
            kw.update(result=C.RCPResult(int(r[0])), call_type=C.RCPCallType(int(r[1])), sender_id=int(r[2]), target_id=int(r[3]))
        elif op in (O.ZoneAndChannelOperationRequest, O.ZoneAndChannelOperationReply):
            kw.update(raw_payload=unhx(r[0]))
        elif op == O.StatusChangeNotificationRequest:
            kw.update(status_change_settings={} if r[0] == "-" else {C.StatusChangeNotificationTargets(int(e.split(":")[0])): C.StatusChangeNotificationSetting(int(e.split(":")[1])) for e in r[0].split(",")})
        elif op == O.RadioStatusReport:
            kw.update(status_change_target=C.StatusChangeNotificationTargets(int(r[0])), status_change_value=int(r[1]))
        return C.RadioControlProtocol(**kw)
    raise ValueError("unknown tuple " + t)
