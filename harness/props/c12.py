"""C12 — Hytera HSTRP / HRNP / HDAP framing and re-encoding (DESIGN §5 C12).

Oracle (on the real code): every application PDU built from in-range fields serialises to
service|reliable, opcode, length (protocol endianness) == actual payload length, a checksum an
independent computation reproduces, 0x03; len(p) == number of bytes; the same nested in HRNP (length
field, ones-complement checksum) and in HSTRP with 0..4 options (independent TLV walk); parsing the
bytes and serialising again gives the same bytes and equal fields.
Correspondence: the Lean model (Model/Hdap, Hrnp, Hstrp) answers the same build / parse lines.

Input classes beyond random field values (each counted in the evidence histogram):
* built-fields: every PDU is built from specification values kept apart from the classes under test (IP, Text, Gps);
  the attributes of the constructed object must be those values (a constructor that rewrites its arguments
  consistently is invisible to serialise / parse checks on the object alone);
* special tokens (token:*): a dictionary of code points / octet patterns that text shortcuts treat specially (byte
  order marks U+FEFF / U+FFFE, NUL, CR LF, surrogate pairs, unpaired surrogates, U+FFFF, combining marks and other
  normalisation / case-mapping sensitive characters, whitespace, frame delimiters 0x03 / 0x7E / "2B") at start /
  middle / end of every text-like field (TMP text as str AND as octets, short data, option data, RCP raw payloads /
  talker alias / fixed-width raw values, HSTRP option data);
* object histories (hist:*): one object observed (len, as_bytes, repr, accessors, kept HRNP / HSTRP wrapper), changed
  (attribute assignment to a value of the same / another size, in-place change of RadioIP / GPSData / settings dict /
  option list / packet type, opcode switch, parse or deepcopy and carry on) and observed again; after every step the
  property is evaluated on the object as it is now, its bytes are compared with a PDU built afresh from the same
  field values, with packets written out by hand, and with the model; bytes must change exactly when a serialised
  field changed;
* held objects (held:*): PDUs and the objects histories leave behind are kept alive and must still serialise to the
  recorded bytes after everything else ran (no state shared between objects).
Round 3 (each a probe: a deterministic function of a json-able parameter record, replayed from the record):
* argument provenance (prov:*): option lists by recipe — the entry objects come from the harness (tuples, namedtuples) or
  from the library (HSTRPOptions.from_bytes, add_option on another object); the list is assigned directly / appended /
  extended-then-appended (a relay) / inserted / slice-assigned / += / [e]*k / built by add_option (fresh entries, shared
  data objects) / rebuilt from equal-but-not-identical entries; the SAME entry object sits at several positions following
  nine identity patterns (all the same, last is first / middle / previous, first recurs inside, duplicates in front of a
  unique last, sampled from a small pool, palindrome, all distinct).  Expected octets: the chain written out by hand from
  the VALUES by POSITION.  The same recipes are steps of the object histories (opts-dup, opts-assign).
* shared sub-objects (alias:*): ONE RadioIP (source AND destination of a message, address of PDUs of three services), ONE
  settings dict (dict / OrderedDict) in two requests, ONE GPSData in two reports, ONE bytes object in every opaque field and
  in several options, ONE options object / list object / set of entry objects / packet type object in several HSTRP packets,
  ONE PDU in HRNP and two HSTRP packets, objects made by one parser nested by hand into the other wrapper; observed,
  changed through one reference, every holder re-verified against the specification values, a freshly built PDU, the
  hand-written wrappers and the model.
* size extremes inside ONE PDU (size:*): option chains of 128 / 256 / 1 000 / 5 000 / 20 000 / 32 760 options (thorough: up to
  70 000), 255 options of 255 octets, TMP text / short data / option data and RCP raw payloads at 65 535 - overhead and at
  the largest size that still fits HRNP (packet length exactly 65 535, all-0xFF content for the longest carry chain), the
  neighbours of 2^8, 2^12, 2^15, 2^16; one past each limit the code has to refuse (or be right); correspondence with the
  model at these sizes too (quick: about half of the 64 kB packets); several of them again DEEP_REMAINING frames below the
  interpreter's recursion limit.  The random stream reaches 127..257 and 990..1500 options now and then.
* ambient state (ambient:*): a fixed sample (build, serialise, parse, HRNP, HSTRP with up to 120 options) answered again deep
  in the call stack, with the root logger at DEBUG and dead stdout / stderr, with failing calls (wrong lengths / values /
  types on every entry point) in between, with the global `random` reseeded, and by ONE child `python -O` whose first calls
  are failing ones; all answers must equal the plain ones.
Round 4:
* argument forms (argtype:*): the same field value handed to a constructor as another Python type / shape the signature accepts —
  objects that carry more than is serialised (datetime.time with microseconds / tzinfo / fold, a datetime where a date is expected),
  subclasses (time, date, datetime, float, int, IntEnum, bool, str, bytes, dict / OrderedDict / defaultdict, RadioIP), numpy.float64 /
  numpy.bool_, the other member of a Union (octets for Union[bytes, X], the bare int for Union[int, Enum]), numbers of other numeric
  types on the grid (int, Decimal, Fraction, exact numpy.float32), other buffers for opaque octets (bytearray, memoryview), RadioIP
  objects made by other paths of the library; for every service x opcode every argument x every form one at a time, several at once,
  the HRNP / HSTRP wrapper arguments too; the PDU must serialise to the octets of the PDU built from the plain values, report that
  length, parse back to the same fields and nest to the hand-written packets; the GPS forms are answered by the model as well
  (`arg.gps`, Props/C12d).  A fifth of the LP reports of the random stream and some history steps use rich time / date objects too.
Round 5:
* constant tables (table:*): an Enum member's value changed, a member added or removed, a dict-literal key changed — no function statement
  changes.  Every run reads with `ast` every Enum / IntEnum / Flag member, every dict-literal key list and every class-level constant of
  okdmr/dmrlib/hytera/pdu/*.py and of the okdmr modules they import (props/hytera_tables.py) from the CURRENT source (VERIF_REPO or /repo) and
  compares them with the committed catalogue harness/props/c12.enums.json (regenerate after an intended change of a table:
  `/venv/bin/python harness/props/c12.py --rebaseline`).  The catalogue only directs the search and says which wire values were documented when
  it was taken; a difference is never reported by itself.  Sweeps (run_tables): the hand-written frame of every implemented message kind (40
  kinds, plain and reliable); every documented member of every enum in every field where it is parsed; every value of every 8-bit field; the
  16-bit fields (RCP / LP opcode, LP result, the four fields of the repeater broadcast status) and the raw pass-through opcode of an
  UnknownService PDU BUILT BY THE LIBRARY over the seed-rotated sixteenth of 0..65535 (thorough: all of it) plus the neighbourhood of every
  catalogue entry; all 128 HSTRP option types; all 256 HRNP opcodes; and, directed by the differences, every value that is new, gone or
  changed (old and new, each ±1) in EVERY field of every kind, as raw opcode, option type and HRNP opcode.  Entry points: the service class's
  from_bytes, HDAP.from_bytes, HRNP.from_bytes and HSTRP.from_bytes of hand-written wrappers; what parses is rebuilt through the constructor
  from its field tuple and goes through the whole oracle (frame, length, checksum, len(), HRNP, HSTRP, model).
"""
import collections
import copy
import enum
import glob
import json
import logging
import os
import random
import re
import subprocess
import sys
import tempfile
import decimal
import fractions
from datetime import date, datetime, time, timedelta, timezone

if __name__ == "__main__":  # maintainer switch `/venv/bin/python harness/props/c12.py --rebaseline` (see the end of the file)
    sys.path.insert(0, os.path.dirname(os.path.dirname(os.path.abspath(__file__))))

from common import impl_error
from props import hytera_tables as HT

PROP = "C12"
MODULES = ["C12", "C12a", "C12b", "C12c", "C12d", "C12p", "C12t"]
GEN = ["Hytera", "TranslHytera"]

TESTS = os.path.join(os.environ.get("VERIF_REPO") or "/repo", "okdmr/tests/dmrlib/hytera")

# ------------------------------------------------------------------------------------------------
# lazy imports of the code under test


class L:
    ready = False


def load():
    if L.ready:
        return
    from okdmr.dmrlib.etsi.layer3.elements.talker_alias_data_format import TalkerAliasDataFormat
    from okdmr.dmrlib.hytera.pdu import hdap, hrnp, hstrp
    from okdmr.dmrlib.hytera.pdu import location_protocol as lp
    from okdmr.dmrlib.hytera.pdu import radio_control_protocol as rcp
    from okdmr.dmrlib.hytera.pdu import radio_registration_service as rrs
    from okdmr.dmrlib.hytera.pdu import text_message_protocol as tmp
    from okdmr.dmrlib.hytera.pdu.radio_ip import RadioIP

    L.hdap, L.hrnp, L.hstrp, L.lp, L.rcp, L.rrs, L.tmp = hdap, hrnp, hstrp, lp, rcp, rrs, tmp
    L.RadioIP = RadioIP
    L.TAF = TalkerAliasDataFormat
    L.ready = True


def call(fn, *a, **k):
    try:
        return fn(*a, **k)
    except BaseException as e:  # noqa
        return Exc(e)


class Exc:
    def __init__(self, e):
        self.s = impl_error(e)

    def __repr__(self):
        return self.s


def hx(b) -> str:
    return bytes(b).hex() if len(b) else "-"


def b01(x) -> str:
    return "1" if x else "0"


class Unmodelled(Exception):
    pass


# ------------------------------------------------------------------------------------------------
# canonical field tuples (the same text Driver/Hytera.lean prints)


def ip_s(ip):
    return "N" if ip is None else f"{ip.subnet}:{ip.radio_id}"


def fixed4(x) -> int:
    v = round(float(x) * 10000)
    if abs(float(x) * 10000 - v) > 1e-6:
        raise Unmodelled("coordinate with more than four decimals")
    return v


def speed_s(x) -> str:
    r = repr(float(x))
    if not re.fullmatch(r"[0-9]+\.[0-9]+", r):
        raise Unmodelled("speed repr " + r)
    return r


def gps_s(g) -> str:
    t = "N" if g.greenwich_time is None else f"{g.greenwich_time.hour}:{g.greenwich_time.minute}:{g.greenwich_time.second}"
    d = "N" if g.greenwich_date is None else f"{g.greenwich_date.day}:{g.greenwich_date.month}:{g.greenwich_date.year - 2000}"
    return " ".join(
        [
            b01(g.data_valid == "A"), t, d, b01(g.north_south == "N"), str(fixed4(g.latitude)),
            b01(g.east_west == "E"), str(fixed4(g.longitude)), speed_s(g.speed_knots), str(int(g.direction)),
        ]
    )


def as_id(x) -> str:
    if not isinstance(x, int) or isinstance(x, bool):
        raise Unmodelled("id attribute that is not an int")
    return str(x)


def rcp_body(p):
    O = L.rcp.RCPOpcode
    o = p.opcode
    if o == O.UnknownService:
        return [hx(p.raw_opcode), hx(p.raw_payload)]
    if o == O.CallRequest:
        return [str(p.call_type.value), as_id(p.target_id)]
    if o in (O.CallReply, O.BroadcastMessageConfigurationReply, O.BroadcastStatusConfigurationReply, O.StatusChangeNotificationReply):
        return [str(p.result.value)]
    if o == O.RepeaterBroadcastTransmitStatus:
        return [str(p.repeater_mode.value), str(p.repeater_status.value), str(p.repeater_service_type.value),
                str(p.call_type.value), as_id(p.target_id), as_id(p.sender_id)]
    if o == O.BroadcastMessageConfigurationRequest:
        return [str(p.broadcast_type)]
    if o == O.RadioIDAndRadioIPQueryRequest:
        return [str(p.radio_ip_id_target.value)]
    if o == O.RadioIDAndRadioIPQueryReply:
        return [str(p.result.value), str(p.radio_ip_id_target.value), hx(p.raw_value)]
    if o == O.BroadcastStatusConfigurationRequest:
        return [hx(p.broadcast_config_raw)]
    if o == O.SendTalkerAliasRequest:
        return [str(p.call_type.value), as_id(p.sender_id), as_id(p.target_id), str(p.talker_alias_data_format.value), hx(p.talker_alias_data)]
    if o == O.SendTalkerAliasReply:
        return [str(p.result.value), str(p.call_type.value), as_id(p.sender_id), as_id(p.target_id)]
    if o in (O.ZoneAndChannelOperationRequest, O.ZoneAndChannelOperationReply):
        return [hx(p.raw_payload)]
    if o == O.StatusChangeNotificationRequest:
        s = p.status_change_settings
        return [",".join(f"{t.value}:{v.value}" for t, v in s.items()) if len(s) else "-"]
    if o == O.RadioStatusReport:
        return [str(p.status_change_target.value), str(p.status_change_value)]
    raise Unmodelled("opcode without model " + o.name)


def pdu_tuple(p) -> str:
    """all modelled attributes of a real HDAP object"""
    if p is None:
        return "NONE"
    if isinstance(p, L.rrs.RadioRegistrationService):
        return " ".join(["RRS", b01(p.is_reliable), str(p.opcode.value), ip_s(p.radio_ip), str(p.result.value),
                         str(p.renew_time_seconds), str(p.radio_state.value)])
    if isinstance(p, L.lp.LocationProtocol):
        head = ["LP", b01(p.is_reliable), str(p.specific_service.value), str(p.request_id), ip_s(p.radio_ip)]
        if p.specific_service == L.lp.LocationProtocolSpecificService.StandardReport:
            head += [str(p.result.value), gps_s(p.gpsdata)]
        return " ".join(head)
    if isinstance(p, L.tmp.TextMessageProtocol):
        return " ".join(["TMP", b01(p.is_reliable), b01(p.is_confirmed), b01(p.has_option), str(p.opcode.value),
                         str(p.request_id), ip_s(p.destination_ip), ip_s(p.source_ip), hx(p.text_data),
                         "N" if p.option_data is None else hx(p.option_data),
                         "N" if p.result_code is None else str(p.result_code.value), hx(p.short_data)])
    if isinstance(p, L.rcp.RadioControlProtocol):
        return " ".join(["RCP", b01(p.is_reliable), str(p.opcode.value)] + rcp_body(p))
    raise Unmodelled("object " + type(p).__name__)


def relevant_tuple(p) -> str:
    """the property's fields of a PDU: the attributes its opcode serialises (others masked)"""
    t = pdu_tuple(p).split(" ")
    if t[0] == "RRS":
        T = L.rrs.RRSTypes
        if p.opcode != T.RadioRegistrationAnswer:
            t[4], t[5] = "0", "1"
        if p.opcode != T.RegistrationStatusCheckAnswer:
            t[6] = "0"
    elif t[0] == "TMP":
        S = L.tmp.TMPService
        msg = p.opcode in (S.SendPrivateMessage, S.SendGroupMessage)
        short = p.opcode in (S.PrivateShortData, S.GroupShortData)
        ack = p.opcode in (S.SendPrivateMessageAck, S.SendGroupMessageAck, S.PrivateShortDataAck, S.GroupShortDataAck)
        if p.opcode in (S.SendGroupMessageAck, S.GroupShortDataAck):
            t[7] = "N"
        if not msg:
            t[8] = "-"
        if not p.has_option:
            t[9] = "N"
        if not ack:
            t[10] = "N"
        if not short:
            t[11] = "-"
    return " ".join(t)


def opts_s(o) -> str:
    lst = [] if o is None else o.options
    return ",".join(f"{c.value}:{hx(d)}" for c, d in lst) if lst else "-"


def hrnp_tuple(h) -> str:
    return " ".join(["HRNP", hx(h.header), hx(h.version), str(h.block_number), str(h.opcode.value), str(h.source),
                     str(h.destination), str(h.packet_number), str(int.from_bytes(h.checksum, "big")),
                     b01(h.checksum_correct), pdu_tuple(h.data)])


def hstrp_tuple(s) -> str:
    return " ".join(["HSTRP", str(s.version), str(s.pkt_type.as_bytes()[0]), str(s.sn), opts_s(s.options), pdu_tuple(s.payload)])


def safe(fn, *a):
    """canonical text of fn(*a) or the error kind"""
    try:
        return fn(*a)
    except Unmodelled:
        return "ERR Unmodelled"
    except BaseException as e:  # noqa
        return impl_error(e)


# ------------------------------------------------------------------------------------------------
# implementation adaptors: the lines of the protocol answered by the real code


def bytes_len(p) -> str:
    b = call(p.as_bytes)
    n = call(len, p)
    return (repr(b) if isinstance(b, Exc) else hx(b)) + " " + (repr(n) if isinstance(n, Exc) else str(n))


def impl_hdap_parse(data: bytes) -> str:
    def go():
        p = L.hdap.HDAP.from_bytes(data)
        if p is None:
            return "NONE"
        return pdu_tuple(p) + " => " + bytes_len(p)

    return safe(go)


def inner_unmodelled(inner: bytes) -> bool:
    """the inner HDAP parses to an object outside the model (an id attribute left as an empty bytes object)"""
    try:
        pdu_tuple(L.hdap.HDAP.from_bytes(inner))
    except Unmodelled:
        return True
    except BaseException:  # noqa
        return False
    return False


def impl_hrnp_parse(data: bytes) -> str:
    def go():
        h = L.hrnp.HRNP.from_bytes(data)
        return hrnp_tuple(h) + " => " + bytes_len(h)

    r = safe(go)
    if r.startswith("ERR") and r != "ERR Unmodelled" and len(data) >= 12:
        # HRNP.__init__ serialises the inner PDU for the checksum; an inner object outside the model
        # (see as_id) fails there with AttributeError: same canonical answer as the model's
        plen = int.from_bytes(data[8:10], "big")
        if plen <= len(data) and data[3] in {o.value for o in L.hrnp.HRNPOpcodes} and inner_unmodelled(data[12:plen]):
            return "ERR Unmodelled"
    return r


def impl_hstrp_parse(data: bytes) -> str:
    def go():
        s = L.hstrp.HSTRP.from_bytes(data)
        if s is None:
            return "NONE"
        b = call(s.as_bytes)
        return hstrp_tuple(s) + " => " + (repr(b) if isinstance(b, Exc) else hx(b))

    return safe(go)


def impl_opts_parse(data: bytes) -> str:
    def go():
        o = L.hstrp.HSTRPOptions.from_bytes(data)
        return opts_s(o) + " " + str(len(o))

    return safe(go)


# ------------------------------------------------------------------------------------------------
# independent computations of the oracle


def spec_hdap_checksum(checked: bytes) -> int:
    return ((255 - (sum(checked) % 256)) + 0x33) % 256


def spec_ones_complement_ok(packet: bytes) -> bool:
    """the 16-bit ones-complement sum over the whole packet (checksum field included) is 0xFFFF"""
    b = packet + (b"\x00" if len(packet) % 2 else b"")
    s = sum(int.from_bytes(b[i : i + 2], "big") for i in range(0, len(b), 2))
    while s > 0xFFFF:
        s = (s & 0xFFFF) + (s >> 16)
    return s == 0xFFFF


def spec_walk_options(data: bytes):
    """independent TLV walk: ([(cmd, data)], consumed) — continuation bit = more options follow"""
    out, i = [], 0
    while True:
        more = data[i] >> 7
        n = data[i + 1]
        out.append((data[i] & 0x7F, bytes(data[i + 2 : i + 2 + n])))
        i += 2 + n
        if not more:
            return out, i


def spec_utf16le(cps) -> bytes:
    """UTF-16-LE octets of a list of code points, written out by hand (surrogate code points pass as single units)"""
    out = bytearray()
    for c in cps:
        units = [c] if c < 0x10000 else [0xD800 | ((c - 0x10000) >> 10), 0xDC00 | ((c - 0x10000) & 0x3FF)]
        for u in units:
            out += bytes([u & 0xFF, u >> 8])
    return bytes(out)


def spec_utf16le_decode(b: bytes):
    """code points of UTF-16-LE octets (well-formed pairs combined, everything else as single units)"""
    u = [b[i] | (b[i + 1] << 8) for i in range(0, len(b) - 1, 2)]
    out, i = [], 0
    while i < len(u):
        if 0xD800 <= u[i] < 0xDC00 and i + 1 < len(u) and 0xDC00 <= u[i + 1] < 0xE000:
            out.append(0x10000 + ((u[i] - 0xD800) << 10) + (u[i + 1] - 0xDC00))
            i += 2
        else:
            out.append(u[i])
            i += 1
    return out


def spec_hrnp_checksum(octets: bytes) -> int:
    """ones complement of the ones-complement sum of the big-endian 16-bit words (odd tail padded with 0x00)"""
    b = octets + (b"\x00" if len(octets) % 2 else b"")
    s = sum((b[i] << 8) | b[i + 1] for i in range(0, len(b), 2))
    while s > 0xFFFF:
        s = (s & 0xFFFF) + (s >> 16)
    return s ^ 0xFFFF


def spec_tlv(options) -> bytes:
    """the option chain written out by hand: continuation bit on every option but the last"""
    out = b""
    for i, (c, d) in enumerate(options):
        out += bytes([c | (0x80 if i < len(options) - 1 else 0), len(d)]) + d
    return out


SERVICE = {"RRS": 0x11, "LP": 0x08, "TMP": 0x09, "RCP": 0x02}
LITTLE = {"RCP"}

# ------------------------------------------------------------------------------------------------
# generators


def pick_int(rng, hi, special=()):
    """value in 0..hi with boundaries favoured"""
    r = rng.random()
    if r < 0.25:
        cands = [0, 1, hi, hi - 1, 255, 256, 65535, 65536, 0x7F, 0x80, 0xFF00] + list(special)
        return rng.choice([c for c in cands if 0 <= c <= hi])
    if r < 0.4:
        return rng.randrange(min(hi, 255) + 1)
    return rng.randrange(hi + 1)


# specification values: what a PDU is built FROM, kept apart from the classes under test so that the
# expected field tuple (kw_tuple) never reads an attribute of the object that was constructed


class IP:
    """a radio ip as raw numbers"""

    def __init__(self, radio_id, subnet=10):
        self.radio_id, self.subnet = radio_id, subnet

    def real(self):
        return L.RadioIP(radio_id=self.radio_id, subnet=self.subnet)

    def s(self):
        return f"{self.subnet}:{self.radio_id}"


class Text:
    """text as a list of code points, handed to the constructor as str or as UTF-16-LE octets"""

    def __init__(self, cps, as_str):
        self.cps = list(cps)
        # a str holding a surrogate code point is not UTF-16 text for the strict codec: such units travel as octets only
        self.as_str = bool(as_str) and not any(0xD800 <= c <= 0xDFFF for c in self.cps)

    def octets(self) -> bytes:
        return spec_utf16le(self.cps)

    def real(self):
        return "".join(chr(c) for c in self.cps) if self.as_str else self.octets()


class Gps:
    """GPS record as raw values: valid, tm (h,m,s)|None, dt (d,m,yy)|None, north, lat4, east, lon4, speed (float), direction"""

    def __init__(self, **d):
        self.d = d

    def real(self):
        d = self.d
        tm, dt = d["tm"], d["dt"]
        rich = d.get("rich") or {}  # the time / date handed over as objects that carry more than is serialised (rich_time / rich_date)
        return L.lp.GPSData(
            data_valid="A" if d["valid"] else "V", greenwich_time=NUL6 if tm is None else (rich_time(time(*tm), rich["time"]) if rich.get("time") else time(*tm)),
            greenwich_date=NUL6 if dt is None else (rich_date(date(2000 + dt[2], dt[1], dt[0]), rich["date"]) if rich.get("date") else date(2000 + dt[2], dt[1], dt[0])),
            north_south="N" if d["north"] else "S",
            latitude=d["lat4"] / 10000, east_west="E" if d["east"] else "W", longitude=d["lon4"] / 10000,
            speed_knots=float(d["speed"]), direction=d["direction"],
        )

    def s(self):
        d = self.d
        tr = lambda t: "N" if t is None else ":".join(str(x) for x in t)  # noqa
        return " ".join([b01(d["valid"]), tr(d["tm"]), tr(d["dt"]), b01(d["north"]), str(d["lat4"]), b01(d["east"]), str(d["lon4"]),
                         speed_s(d["speed"]), str(d["direction"])])


def realise(v, memo=None):
    """the real constructor argument of a specification value; with a memo the SAME specification object becomes the
    SAME real object wherever it occurs (sub-objects shared between fields / between PDUs)"""
    if memo is not None and isinstance(v, (IP, Gps, dict)):
        if id(v) not in memo:
            memo[id(v)] = (v, realise(v))  # the spec object is kept alive with its image
        return memo[id(v)][1]
    if isinstance(v, (IP, Text, Gps)):
        return v.real()
    if isinstance(v, dict):
        return dict(v)
    return v


def ev(x):
    """value of an enum member (or the int itself)"""
    return x.value if isinstance(x, enum.Enum) else x


class Case:
    """one PDU to build: service, constructor arguments as specification values"""

    CLS = {"RRS": lambda: L.rrs.RadioRegistrationService, "LP": lambda: L.lp.LocationProtocol,
           "TMP": lambda: L.tmp.TextMessageProtocol, "RCP": lambda: L.rcp.RadioControlProtocol}

    def __init__(self, svc, kw):
        self.svc, self.kw = svc, kw

    def build(self, memo=None):
        return Case.CLS[self.svc]()(**{k: realise(v, memo) for k, v in self.kw.items()})

    @property
    def text(self):
        t = self.kw.get("text_data")
        return t if isinstance(t, Text) else None

    def expected(self) -> str:
        return kw_tuple(self.svc, self.kw)

    @property
    def rich(self):
        g = self.kw.get("gpsdata")
        return g.d.get("rich") if isinstance(g, Gps) else None


def kw_tuple(svc, kw) -> str:
    """the field tuple the constructor arguments denote (same text as pdu_tuple prints for the built object)"""
    rel = b01(kw.get("is_reliable", False))
    ipo = lambda k: "N" if kw.get(k) is None else kw[k].s()  # noqa
    if svc == "RRS":
        return " ".join(["RRS", rel, str(kw["opcode"].value), ipo("radio_ip"), str(ev(kw.get("result", 0))),
                         str(kw.get("renew_time_seconds", 1)), str(ev(kw.get("radio_state", 0)))])
    if svc == "LP":
        head = ["LP", rel, str(kw["opcode"].value), str(kw["request_id"]), ipo("radio_ip")]
        if kw["opcode"] == L.lp.LocationProtocolSpecificService.StandardReport:
            head += [str(ev(kw.get("result", 0))), kw["gpsdata"].s()]
        return " ".join(head)
    if svc == "TMP":
        t = kw.get("text_data", b"")
        return " ".join(["TMP", rel, b01(kw.get("is_confirmed", False)), b01(kw.get("has_option", False)), str(kw["opcode"].value),
                         str(kw.get("request_id", 0)), ipo("destination_ip"), ipo("source_ip"), hx(t.octets() if isinstance(t, Text) else t),
                         "N" if kw.get("option_data") is None else hx(kw["option_data"]),
                         "N" if kw.get("result_code") is None else str(kw["result_code"].value), hx(kw.get("short_data", b""))])
    if svc == "RCP":
        O = L.rcp.RCPOpcode
        o = kw["opcode"]
        g = kw.get
        if o == O.UnknownService:
            body = [hx(g("raw_opcode", b"")), hx(g("raw_payload", b""))]
        elif o == O.CallRequest:
            body = [str(ev(g("call_type", 0))), str(g("target_id"))]
        elif o in (O.CallReply, O.BroadcastMessageConfigurationReply, O.BroadcastStatusConfigurationReply, O.StatusChangeNotificationReply):
            body = [str(ev(g("result", 0)))]
        elif o == O.RepeaterBroadcastTransmitStatus:
            body = [str(ev(g("repeater_mode"))), str(ev(g("repeater_status"))), str(ev(g("repeater_service_type"))),
                    str(ev(g("call_type", 0))), str(g("target_id")), str(g("sender_id"))]
        elif o == O.BroadcastMessageConfigurationRequest:
            body = [str(g("broadcast_type", 7))]
        elif o == O.RadioIDAndRadioIPQueryRequest:
            body = [str(ev(g("target", 0)))]
        elif o == O.RadioIDAndRadioIPQueryReply:
            body = [str(ev(g("result", 0))), str(ev(g("target", 0))), hx(g("raw_value", b""))]
        elif o == O.BroadcastStatusConfigurationRequest:
            body = [hx(g("broadcast_config_raw", b""))]
        elif o == O.SendTalkerAliasRequest:
            body = [str(ev(g("call_type", 0))), str(g("sender_id")), str(g("target_id")), str(ev(g("talker_alias_format"))), hx(g("talker_alias_data", b""))]
        elif o == O.SendTalkerAliasReply:
            body = [str(ev(g("result", 0))), str(ev(g("call_type", 0))), str(g("sender_id")), str(g("target_id"))]
        elif o in (O.ZoneAndChannelOperationRequest, O.ZoneAndChannelOperationReply):
            body = [hx(g("raw_payload", b""))]
        elif o == O.StatusChangeNotificationRequest:
            st = g("status_change_settings", {})
            body = [",".join(f"{t.value}:{v.value}" for t, v in st.items()) if len(st) else "-"]
        elif o == O.RadioStatusReport:
            body = [str(ev(g("status_change_target"))), str(g("status_change_value", 0))]
        else:
            raise Unmodelled("opcode without model " + o.name)
        return " ".join(["RCP", rel, str(o.value)] + body)
    raise Unmodelled("service " + svc)


def gen_ip(rng):
    return IP(radio_id=pick_int(rng, 2**24 - 1), subnet=pick_int(rng, 255, (10,)))


def gen_bytes(rng, n):
    return rng.randbytes(n) if n else b""


# ---- special tokens ---------------------------------------------------------------------------
# code points that a text-handling shortcut treats specially (byte order marks, NUL / whitespace that strip() eats,
# line ends that get translated, units outside the BMP, unpaired surrogates, characters that change under Unicode
# normalisation or case mapping, characters whose octets look like frame delimiters)
TEXT_TOKENS = {
    "bom-feff": [0xFEFF], "bom-swapped-fffe": [0xFFFE], "two-boms": [0xFEFF, 0xFEFF], "bom-utf8-as-chars": [0xEF, 0xBB, 0xBF],
    "nul": [0], "nul-nul": [0, 0], "crlf": [13, 10], "lfcr": [10, 13], "cr": [13], "lf": [10], "tab": [9],
    "space": [0x20], "nbsp": [0xA0], "ideographic-space": [0x3000], "zwsp": [0x200B], "zwj": [0x200D], "rlm": [0x200F], "line-sep": [0x2028],
    "nonbmp": [0x1F600], "nonbmp-min": [0x10000], "nonbmp-max": [0x10FFFF],
    "lone-high": [0xD800], "lone-low": [0xDFFF], "swapped-pair": [0xDC00, 0xD800], "high-then-bmp": [0xDBFF, 0x41],
    "ffff": [0xFFFF], "replacement": [0xFFFD], "d7ff": [0xD7FF], "e000": [0xE000],
    "combining-acute": [0x65, 0x301], "precomposed-e-acute": [0xE9], "ligature-fi": [0xFB01], "ohm-sign": [0x2126], "sharp-s": [0xDF], "dotted-capital-i": [0x130],
    "etx-0003": [3], "u0300": [0x300], "u0303": [0x303], "u7e": [0x7E], "u7e00": [0x7E00], "u4232": [0x4232], "u0100": [0x100], "u0001": [1],
}
TEXT_TOKEN_NAMES = sorted(TEXT_TOKENS)
# octet patterns for the opaque byte-string fields (short data, option data, raw payloads, talker alias, HSTRP option data)
BYTE_TOKENS = {
    "etx": b"\x03", "etx-etx": b"\x03\x03", "cksum-etx": b"\x33\x03", "nul": b"\x00", "nul-nul": b"\x00\x00", "bom-le": b"\xff\xfe", "bom-be": b"\xfe\xff",
    "bom-utf8": b"\xef\xbb\xbf", "crlf": b"\r\n", "lf": b"\n", "space": b" ", "tab": b"\t", "hrnp-7e": b"\x7e", "hstrp-2B": b"2B",
    "ff": b"\xff", "ffff": b"\xff\xff", "80": b"\x80", "lone-surrogate-le": b"\x00\xd8", "ascii": b"A",
}
BYTE_TOKEN_NAMES = sorted(BYTE_TOKENS)
POSITIONS = ("alone", "start", "middle", "end")


def place(tok, body, pos):
    """token at a position of a body (lists of code points or bytes objects)"""
    if pos == "alone":
        return tok
    if pos == "start":
        return tok + body
    if pos == "end":
        return body + tok
    h = len(body) // 2
    return body[:h] + tok + body[h:]


def gen_cps(rng, big=False):
    n = rng.choice([0, 0, 1, 2, 5, 12, 40, 70]) if not big else rng.choice([500, 2000, 16000])
    alphabet = [
        lambda: [rng.randrange(0x20, 0x7F)],
        lambda: [rng.randrange(0xA0, 0x800)],
        lambda: [rng.choice([0, 0x03, 0xFFFD, 0x4E2D, 0x20AC, 0xD7FF, 0xE000])],
        lambda: [rng.randrange(0x10000, 0x110000)],  # surrogate pair in UTF-16
    ]
    cps = []
    for _ in range(n):
        cps += rng.choice(alphabet)()
    if not big and rng.random() < 0.3:
        # special tokens in the random stream as well (the full dictionary is enumerated in token_cases)
        for _ in range(rng.choice([1, 1, 2])):
            cps = place(TEXT_TOKENS[rng.choice(TEXT_TOKEN_NAMES)], cps, rng.choice(POSITIONS[1:]))
    return cps


def gen_text(rng, big=False):
    return Text(gen_cps(rng, big), rng.random() < 0.5)


def gen_blob(rng, sizes):
    """opaque octets of one of the sizes, sometimes with a special token at start / middle / end"""
    b = gen_bytes(rng, rng.choice(sizes))
    if rng.random() < 0.15:
        b = place(BYTE_TOKENS[rng.choice(BYTE_TOKEN_NAMES)], b, rng.choice(POSITIONS[1:]))
    return b


NUL6 = b"\x00" * 6  # the only way to construct a GPSData without time / date (the "absent" wire form)


def gen_gps(rng, speed_mode, rich_p=0.0):
    """speed_mode: 'fit' (absent or d.d), 'over' (format longer than three characters); rich_p: how often the time / date are handed
    over as objects that carry more than is serialised (microseconds, tzinfo, fold, a datetime for the date, subclasses)"""
    tm = None if rng.random() < 0.2 else (rng.choice([0, 23, rng.randrange(24)]), rng.choice([0, 59, rng.randrange(60)]), rng.choice([0, 59, rng.randrange(60)]))
    if rng.random() < 0.2:
        dt = None
    else:
        y = rng.choice([2000, 2099, 2024, rng.randrange(2000, 2100)])
        m = rng.randrange(1, 13)
        dmax = [31, 29 if y % 4 == 0 else 28, 31, 30, 31, 30, 31, 31, 30, 31, 30, 31][m - 1]
        dt = (rng.choice([1, dmax, rng.randrange(1, dmax + 1)]), m, y - 2000)
    lat4 = rng.choice([0, 1, 90000000, 89599999, 9999, 10000, rng.randrange(90000001), rng.randrange(90000001)])
    lon4 = rng.choice([0, 1, 180000000, 179599999, 99999999, 100000000, rng.randrange(180000001), rng.randrange(180000001)])
    if speed_mode == "fit":
        sp = rng.choice([0.0, 0.0, 0.1, 9.9, 5.0, rng.randrange(1, 100) / 10])
    else:
        sp = rng.choice([10.0, 12.5, 99.9, 100.0, 999.9, 1.25, 0.05, 0.25, rng.randrange(100, 10000) / 10, rng.randrange(1, 1000) / 100])
        if len(format(sp, "03")) <= 3:
            sp = 10.0
    di = rng.choice([0, 0, 1, 9, 10, 99, 100, 359, rng.randrange(360)])
    g = Gps(valid=rng.random() < 0.5, tm=tm, dt=dt, north=rng.random() < 0.5, lat4=lat4, east=rng.random() < 0.5, lon4=lon4, speed=float(sp), direction=di)
    if rich_p and rng.random() < rich_p:
        r = gen_rich(rng, g)
        if r:
            g.d["rich"] = r
    return g


def gen_rrs(rng):
    R = L.rrs
    op = rng.choice(list(R.RRSTypes))
    return Case("RRS", dict(
        opcode=op, is_reliable=rng.random() < 0.5, radio_ip=gen_ip(rng), result=rng.choice(list(R.RRSResult)),
        renew_time_seconds=rng.choice([1, 0xFFFE, 3600, 256, 255, rng.randrange(1, 0xFFFF)]) if (op == R.RRSTypes.RadioRegistrationAnswer or rng.random() < 0.1) else 1,
        radio_state=rng.choice(list(R.RRSRadioState)),
    ))


def gen_lp(rng, speed_mode="fit", rich_p=0.0):
    lp = L.lp
    S = lp.LocationProtocolSpecificService
    op = rng.choice([S.StandardRequest, S.StandardReport, S.StandardReport])
    kw = dict(opcode=op, request_id=pick_int(rng, 2**32 - 1), radio_ip=gen_ip(rng), is_reliable=rng.random() < 0.5)
    if op == S.StandardReport or speed_mode == "over":
        kw["opcode"] = op if speed_mode != "over" else S.StandardReport
        kw["result"] = rng.choice([c.value for c in lp.LocationProtocolResultCodes])
        kw["gpsdata"] = gen_gps(rng, speed_mode, rich_p)
    return Case("LP", kw)


OPTION_SIZES = [0, 0, 1, 3, 4, 16, 255, 256, 300]


def gen_tmp(rng, big=False):
    T = L.tmp
    S = T.TMPService
    ops = [S.SendPrivateMessage, S.SendPrivateMessageAck, S.SendGroupMessage, S.SendGroupMessageAck,
           S.PrivateShortData, S.PrivateShortDataAck, S.GroupShortData, S.GroupShortDataAck]
    op = rng.choice(ops if not big else [S.SendPrivateMessage, S.SendGroupMessage, S.PrivateShortData, S.GroupShortData])
    has_option = rng.random() < 0.5
    kw = dict(opcode=op, is_reliable=rng.random() < 0.5, is_confirmed=rng.random() < 0.5, has_option=has_option,
              request_id=pick_int(rng, 2**32 - 1), destination_ip=gen_ip(rng))
    if op not in (S.SendGroupMessageAck, S.GroupShortDataAck) or rng.random() < 0.1:
        kw["source_ip"] = gen_ip(rng)
    if op in (S.SendPrivateMessage, S.SendGroupMessage):
        kw["text_data"] = gen_text(rng, big)
    elif op in (S.PrivateShortData, S.GroupShortData):
        kw["short_data"] = gen_blob(rng, [0, 1, 2, 7, 32, 200]) if not big else gen_bytes(rng, rng.choice([1000, 30000]))
    else:
        kw["result_code"] = rng.choice(list(T.TMPResultCodes))
    if has_option:
        kw["option_data"] = gen_blob(rng, OPTION_SIZES)
    elif rng.random() < 0.1:
        kw["option_data"] = gen_bytes(rng, 3)  # not serialised without the flag
    return Case("TMP", kw)


def gen_raw_opcode(rng):
    known = {m.value for m in L.rcp.RCPOpcode} - {0}
    while True:
        ro = gen_bytes(rng, 2) if rng.random() < 0.8 else rng.choice([b"\x00\x00", b"\xff\xff", b"\x41\x09"])
        if int.from_bytes(ro, "little") not in known:
            return ro


def gen_rcp(rng):
    C = L.rcp
    O = C.RCPOpcode
    ops = [O.UnknownService, O.CallRequest, O.CallReply, O.RepeaterBroadcastTransmitStatus,
           O.BroadcastMessageConfigurationRequest, O.BroadcastMessageConfigurationReply,
           O.RadioIDAndRadioIPQueryRequest, O.RadioIDAndRadioIPQueryReply,
           O.BroadcastStatusConfigurationRequest, O.BroadcastStatusConfigurationReply,
           O.SendTalkerAliasRequest, O.SendTalkerAliasReply, O.ZoneAndChannelOperationRequest,
           O.ZoneAndChannelOperationReply, O.StatusChangeNotificationRequest,
           O.StatusChangeNotificationReply, O.RadioStatusReport]
    op = rng.choice(ops)
    kw = dict(opcode=op, is_reliable=rng.random() < 0.5)
    id32 = lambda: pick_int(rng, 2**32 - 1)  # noqa
    ct = lambda: rng.choice(list(C.RCPCallType))  # noqa
    res = lambda: rng.choice(list(C.RCPResult))  # noqa
    if op == O.UnknownService:
        kw.update(raw_opcode=gen_raw_opcode(rng), raw_payload=gen_blob(rng, [0, 1, 2, 5, 12, 40, 206, 255, 256, 300, 1000]))
    elif op == O.CallRequest:
        kw.update(call_type=ct(), target_id=id32())
    elif op in (O.CallReply, O.BroadcastMessageConfigurationReply, O.BroadcastStatusConfigurationReply, O.StatusChangeNotificationReply):
        kw.update(result=res())
    elif op == O.RepeaterBroadcastTransmitStatus:
        kw.update(repeater_mode=rng.choice(list(C.RepeaterMode)), repeater_status=rng.choice(list(C.RepeaterStatus)),
                  repeater_service_type=rng.choice(list(C.RepeaterServiceType)), call_type=ct(), target_id=id32(), sender_id=id32())
    elif op == O.BroadcastMessageConfigurationRequest:
        kw.update(broadcast_type=pick_int(rng, 255, (7,)))
    elif op == O.RadioIDAndRadioIPQueryRequest:
        kw.update(target=rng.choice(list(C.RadioIpIdTarget)))
    elif op == O.RadioIDAndRadioIPQueryReply:
        kw.update(result=res(), target=rng.choice(list(C.RadioIpIdTarget)), raw_value=gen_bytes(rng, 4))
    elif op == O.BroadcastStatusConfigurationRequest:
        n = rng.choice([0, 1, 2, 5, 10, 127])
        kw.update(broadcast_config_raw=bytes([n]) + gen_bytes(rng, 2 * n))
    elif op == O.SendTalkerAliasRequest:
        alias = gen_blob(rng, [0, 1, 6, 31, 250])
        kw.update(call_type=ct(), sender_id=id32(), target_id=id32(), talker_alias_format=rng.choice(list(L.TAF)),
                  talker_alias_data=alias if rng.random() < 0.8 else gen_bytes(rng, rng.choice([254, 255])))
    elif op == O.SendTalkerAliasReply:
        kw.update(result=res(), call_type=ct(), sender_id=id32(), target_id=id32())
    elif op == O.ZoneAndChannelOperationRequest:
        kw.update(raw_payload=gen_bytes(rng, 5))
    elif op == O.ZoneAndChannelOperationReply:
        kw.update(raw_payload=gen_blob(rng, [0, 1, 4, 12, 12, 30, 255, 256, 700]))
    elif op == O.StatusChangeNotificationRequest:
        targets = list(C.StatusChangeNotificationTargets)
        rng.shuffle(targets)
        k = rng.choice([0, 1, 2, 4, 10, len(targets)])
        kw.update(status_change_settings={t: rng.choice(list(C.StatusChangeNotificationSetting)) for t in targets[:k]})
    elif op == O.RadioStatusReport:
        kw.update(status_change_target=rng.choice(list(C.StatusChangeNotificationTargets)), status_change_value=pick_int(rng, 65535))
    return Case("RCP", kw)


def token_cases(rng):
    """the whole special-token dictionary: every text token at every position of a message text, handed over as str
    and as octets; every octet token at every position of every opaque byte-string field"""
    T, C = L.tmp, L.rcp
    S, O = T.TMPService, C.RCPOpcode
    out = []
    base = lambda op: dict(opcode=op, is_reliable=rng.random() < 0.5, is_confirmed=rng.random() < 0.5, request_id=pick_int(rng, 2**32 - 1),  # noqa
                           destination_ip=gen_ip(rng), source_ip=gen_ip(rng))
    i = 0
    for name in TEXT_TOKEN_NAMES:
        for pos in POSITIONS:
            body = [ord(c) for c in "Hello"] if i % 3 else gen_cps(rng)[:12] + [0x41]
            cps = place(TEXT_TOKENS[name], body, pos)
            for as_str in (True, False):
                i += 1
                kw = base(S.SendPrivateMessage if i % 2 else S.SendGroupMessage)
                kw["text_data"] = Text(cps, as_str)
                if i % 4 == 0:
                    kw.update(has_option=True, option_data=gen_bytes(rng, rng.choice([0, 2, 5])))
                out.append((f"token:text:{name}:{pos}:{'str' if kw['text_data'].as_str else 'octets'}", Case("TMP", kw)))
    for name in BYTE_TOKEN_NAMES:
        tok = BYTE_TOKENS[name]
        for pos in POSITIONS:
            i += 1
            blob = place(tok, gen_bytes(rng, rng.choice([2, 6, 9])), pos)
            # TMP short data (with and without option data behind it) and option data (behind text / short data / result code)
            kw = base(S.PrivateShortData if i % 2 else S.GroupShortData)
            kw["short_data"] = blob
            if i % 3 == 0:
                kw.update(has_option=True, option_data=gen_bytes(rng, rng.choice([0, 1, 4])))
            out.append((f"token:short_data:{name}:{pos}", Case("TMP", kw)))
            kw = base([S.SendPrivateMessage, S.PrivateShortData, S.SendPrivateMessageAck, S.GroupShortDataAck, S.SendGroupMessage][i % 5])
            kw.update(has_option=True, option_data=blob, text_data=Text(gen_cps(rng)[:8], i % 2 == 0), short_data=gen_bytes(rng, i % 4), result_code=rng.choice(list(T.TMPResultCodes)))
            out.append((f"token:option_data:{name}:{pos}", Case("TMP", kw)))
            rel = rng.random() < 0.5
            out.append((f"token:rcp-unknown-payload:{name}:{pos}", Case("RCP", dict(opcode=O.UnknownService, is_reliable=rel, raw_opcode=gen_raw_opcode(rng), raw_payload=blob))))
            out.append((f"token:rcp-zone-reply-payload:{name}:{pos}", Case("RCP", dict(opcode=O.ZoneAndChannelOperationReply, is_reliable=rel, raw_payload=blob))))
            out.append((f"token:rcp-talker-alias:{name}:{pos}", Case("RCP", dict(opcode=O.SendTalkerAliasRequest, is_reliable=rel, call_type=rng.choice(list(C.RCPCallType)), sender_id=pick_int(rng, 2**32 - 1),
                                                                               target_id=pick_int(rng, 2**32 - 1), talker_alias_format=rng.choice(list(L.TAF)), talker_alias_data=blob))))
            # fixed-width raw fields: the token inside the width the opcode fixes
            fix = lambda n: (place(tok, b"\x11" * n, "start" if pos in ("alone", "start") else "end"))[:n] if pos != "end" else (b"\x11" * n + tok)[-n:]  # noqa
            out.append((f"token:rcp-id-ip-value:{name}:{pos}", Case("RCP", dict(opcode=O.RadioIDAndRadioIPQueryReply, is_reliable=rel, result=rng.choice(list(C.RCPResult)),
                                                                              target=rng.choice(list(C.RadioIpIdTarget)), raw_value=fix(4)))))
            out.append((f"token:rcp-zone-request:{name}:{pos}", Case("RCP", dict(opcode=O.ZoneAndChannelOperationRequest, is_reliable=rel, raw_payload=fix(5)))))
            out.append((f"token:rcp-broadcast-config:{name}:{pos}", Case("RCP", dict(opcode=O.BroadcastStatusConfigurationRequest, is_reliable=rel, broadcast_config_raw=bytes([3]) + fix(6)))))
    return out


def gen_option_list(rng, k):
    """k options as (command member, data): what an HSTRPOptions object is filled from"""
    H = L.hstrp
    out = []
    for _ in range(k):
        c = rng.choice(list(H.HSTRPOptionType))
        natural = {H.HSTRPOptionType.RTP: 0, H.HSTRPOptionType.DeviceID: 4}.get(c, 1)
        n = natural if rng.random() < (0.6 if k < 100 else 0.97) else rng.choice([0, 1, 2, 3, 7, 100, 127, 128, 129, 254, 255])
        d = gen_bytes(rng, n)
        if rng.random() < 0.1:
            d = place(BYTE_TOKENS[rng.choice(BYTE_TOKEN_NAMES)], d[:200], rng.choice(POSITIONS[1:]))
        out.append((c, d))
    return out


class OptionsState(Exception):
    """a new HSTRPOptions object filled with k options holds something else (state shared between objects)"""


def gen_options(rng, k, spec=None):
    o = L.hstrp.HSTRPOptions()
    spec = gen_option_list(rng, k) if spec is None else spec
    for c, d in spec:
        o.add_option(c, d)
    if list(o.options) != spec:
        raise OptionsState(f"{len(o.options)} options held after adding {len(spec)} to a new object")
    return o


def gen_pkt_type(rng, k_options, has_payload):
    """a packet type consistent with the option list (what HSTRP.from_bytes needs to find the payload)"""
    H = L.hstrp
    while True:
        t = H.HSTRPPacketType(*[rng.random() < 0.3 for _ in range(6)])
        if k_options > 0:
            t.have_options, t.is_heartbeat = True, False
        if consistent(t, k_options, has_payload):
            return t


def consistent(t, k_options, has_payload) -> bool:
    if k_options > 0 and not (t.have_options and not t.is_heartbeat):
        return False
    if k_options == 0 and t.have_options and not t.is_heartbeat and has_payload:
        return False
    return True


# ------------------------------------------------------------------------------------------------
# the oracle


def input_of(p, extra=None, case=None):
    """the replayable description of a PDU: its field tuple (of the build arguments when they are known)"""
    d = {"fields": safe(pdu_tuple, p)}
    if case is not None:
        exp = safe(case.expected)
        if not exp.startswith("ERR"):
            d["fields"] = exp
        if case.text is not None:
            d["text_as"] = "str" if case.text.as_str else "octets"
        if case.rich:
            d["rich"] = case.rich
    d["service"] = d["fields"].split(" ")[0]
    if isinstance(p, L.lp.LocationProtocol) and p.specific_service == L.lp.LocationProtocolSpecificService.StandardReport:
        d["speed"] = float(p.gpsdata.speed_knots)
    if extra:
        d.update(extra)
    return d


def check_built(ctx, p, inp):
    """the constructed object holds the values it was built from (inp["fields"] = tuple of the build arguments)"""
    got = safe(pdu_tuple, p)
    if got != inp["fields"]:
        ctx.fail("built-fields", inp, "attributes of the constructed PDU differ from the values it was built from", expected=inp["fields"], actual=got)
        return False
    return True


def check_frame(ctx, p, inp):
    """frame, length, checksum, terminator, len(); returns the bytes or None"""
    b = call(p.as_bytes)
    if isinstance(b, Exc):
        ctx.fail("serialise-raises", inp, f"as_bytes of an in-range PDU raised {b}", actual=repr(b))
        return None
    svc = inp["service"]
    ok_first = b[0] == (SERVICE[svc] | (0x80 if p.is_reliable else 0))
    n = int.from_bytes(b[3:5], "little" if svc in LITTLE else "big")
    if not ok_first:
        ctx.fail("frame-service-byte", inp, "first octet is not service | reliable", expected=SERVICE[svc] | (0x80 if p.is_reliable else 0), actual=b[0])
    if len(b) < 7 or n != len(b) - 7:
        ctx.fail("frame-length-field", inp, "length field differs from the actual payload length", expected=len(b) - 7, actual=n)
    if len(b) >= 7 and b[-2] != spec_hdap_checksum(b[1:-2]):
        ctx.fail("frame-checksum", inp, "checksum differs from the independent computation", expected=spec_hdap_checksum(b[1:-2]), actual=b[-2])
    if b[-1:] != b"\x03":
        ctx.fail("frame-terminator", inp, "last octet is not 0x03", expected=3, actual=b[-1] if b else None)
    ln = call(len, p)
    if ln != len(b):
        ctx.fail("len-mismatch", inp, "len(p) differs from the number of bytes produced", expected=len(b), actual=repr(ln))
    # opcode octets
    exp_op = expected_opcode(p)
    if exp_op is not None and b[1:3] != exp_op:
        ctx.fail("frame-opcode", inp, "opcode octets differ from the opcode's value in the protocol's byte order", expected=exp_op.hex(), actual=b[1:3].hex())
    return b


def expected_opcode(p):
    if isinstance(p, L.rrs.RadioRegistrationService):
        return bytes([0, p.opcode.value])
    if isinstance(p, L.lp.LocationProtocol):
        return p.specific_service.value.to_bytes(2, "big")
    if isinstance(p, L.tmp.TextMessageProtocol):
        return bytes([(0x80 if p.is_confirmed else 0) | (0x40 if p.has_option else 0), p.opcode.value])
    if isinstance(p, L.rcp.RadioControlProtocol):
        if p.opcode == L.rcp.RCPOpcode.UnknownService:
            return bytes(p.raw_opcode)
        return p.opcode.value.to_bytes(2, "little")
    return None


def check_roundtrip(ctx, p, b, inp):
    q = call(L.hdap.HDAP.from_bytes, b)
    if isinstance(q, Exc):
        ctx.fail("parse-raises", inp, f"HDAP.from_bytes of the serialisation raised {q}", actual=repr(q))
        return
    if q is None or type(q) is not type(p):
        ctx.fail("parse-type", inp, "parsing the serialisation does not give the same kind of PDU", expected=type(p).__name__, actual=type(q).__name__)
        return
    b2 = call(q.as_bytes)
    if isinstance(b2, Exc) or b2 != b:
        ctx.fail("roundtrip-bytes", inp, "parse then serialise does not reproduce the bytes", expected=b.hex(), actual=repr(b2) if isinstance(b2, Exc) else b2.hex())
    fp, fq = safe(relevant_tuple, p), safe(relevant_tuple, q)
    if fp != fq:
        ctx.fail("roundtrip-fields", inp, "parsed fields differ from the fields the PDU was built from", expected=fp, actual=fq)
    elif isinstance(p, L.lp.LocationProtocol) and p.specific_service == L.lp.LocationProtocolSpecificService.StandardReport:
        g, h = p.gpsdata, q.gpsdata
        if (g.latitude, g.longitude, float(g.speed_knots)) != (h.latitude, h.longitude, float(h.speed_knots)):
            ctx.fail("roundtrip-fields", inp, "parsed GPS floats differ", expected=[g.latitude, g.longitude, g.speed_knots], actual=[h.latitude, h.longitude, h.speed_knots])


def check_hrnp(ctx, rng, p, b, inp, pairs):
    H = L.hrnp
    kw = dict(opcode=H.HRNPOpcodes.DATA, data=p, source=pick_int(rng, 255, (0x20,)), destination=pick_int(rng, 255, (0x10,)),
              block_number=pick_int(rng, 255), packet_number=pick_int(rng, 65535))
    if rng.random() < 0.3:
        kw["version"] = rng.choice([0, 1, 2, 3, 4])
    if b is not None and rng.random() < 0.25:
        # boundary of the end-around carry: choose the packet number so that the first fold of the 16-bit word sum
        # overflows again (low half of the sum within `carries` of 0xFFFF) or lands exactly on 0xFFFF / 0x0000
        kw["packet_number"] = carry_packet_number(rng, kw, b)
        ctx.count("hrnp:carry-boundary")
    h = call(H.HRNP, **kw)
    inp = dict(inp, nesting="HRNP", hrnp={k: (v if isinstance(v, int) else None) for k, v in kw.items() if k not in ("opcode", "data")})
    if isinstance(h, Exc):
        ctx.fail("hrnp-construct-raises", inp, f"HRNP(...) raised {h}", actual=repr(h))
        return
    hb = call(h.as_bytes)
    if isinstance(hb, Exc):
        ctx.fail("hrnp-serialise-raises", inp, f"HRNP.as_bytes raised {hb}", actual=repr(hb))
        return
    exp_head = bytes([0x7E, kw.get("version", 4), kw["block_number"], 0x00, kw["source"], kw["destination"]]) + kw["packet_number"].to_bytes(2, "big")
    if hb[:8] != exp_head:
        ctx.fail("hrnp-header", inp, "HRNP header octets differ from the values the packet was built from", expected=exp_head.hex(), actual=hb[:8].hex())
    if b is not None:
        lf = int.from_bytes(hb[8:10], "big")
        if not (lf == len(hb) == 12 + len(b)) or call(len, h) != len(hb):
            ctx.fail("hrnp-length", inp, "HRNP length field / len() / actual length / 12 + inner differ", expected=12 + len(b), actual=[lf, len(hb), repr(call(len, h))])
        if hb[12:] != b:
            ctx.fail("hrnp-payload", inp, "HRNP payload is not the HDAP serialisation", expected=b.hex(), actual=hb[12:].hex())
        if not spec_ones_complement_ok(hb):
            ctx.fail("hrnp-checksum", inp, "ones-complement sum over the HRNP packet is not 0xFFFF", expected="ffff", actual=hb[10:12].hex())
    h2 = call(H.HRNP.from_bytes, hb)
    if isinstance(h2, Exc):
        ctx.fail("parse-raises", inp, f"HRNP.from_bytes of the serialisation raised {h2}", actual=repr(h2))
    else:
        if not h2.checksum_correct:
            ctx.fail("hrnp-checksum-verify", inp, "HRNP.from_bytes does not verify the checksum of a serialised packet", expected=True, actual=False)
        hb2 = call(h2.as_bytes)
        if isinstance(hb2, Exc) or hb2 != hb:
            ctx.fail("roundtrip-bytes", inp, "HRNP parse then serialise does not reproduce the bytes", expected=hb.hex(), actual=repr(hb2) if isinstance(hb2, Exc) else hb2.hex())
        f1 = safe(lambda: hrnp_fields(h)), safe(lambda: hrnp_fields(h2))
        if f1[0] != f1[1]:
            ctx.fail("roundtrip-fields", inp, "HRNP parsed fields differ", expected=f1[0], actual=f1[1])
    if pairs is not None:
        tup = safe(pdu_tuple, p)
        if not tup.startswith("ERR"):
            pairs.append((f"hrnp.mk {hx(h.header)} {hx(h.version)} {h.block_number} {h.opcode.value} {h.source} {h.destination} {h.packet_number} {tup}", hx(hb) + " " + str(len(h))))
            pairs.append((f"hrnp.parse {hx(hb)}", impl_hrnp_parse(hb)))


def carry_packet_number(rng, kw, inner: bytes) -> int:
    """packet number that puts the ones-complement word sum of the packet at the cascade boundary"""
    ver = kw.get("version", 4)
    head = bytes([0x7E, ver, kw["block_number"], 0x00, kw["source"], kw["destination"], 0, 0]) + (12 + len(inner)).to_bytes(2, "big")
    d = head + inner
    d += b"\x00" if len(d) % 2 else b""
    s0 = sum(int.from_bytes(d[i : i + 2], "big") for i in range(0, len(d), 2))
    carries = max(1, (s0 + 0xFFFF) >> 16)
    j = rng.choice([0, 0, 1, carries - 1, carries, rng.randrange(carries + 1)])
    return (0xFFFF - (s0 & 0xFFFF) - j) & 0xFFFF


def hrnp_fields(h):
    return " ".join([hx(h.header), hx(h.version), str(h.block_number), str(h.opcode.value), str(h.source), str(h.destination),
                     str(h.packet_number), "NONE" if h.data is None else relevant_tuple(h.data)])


LONG_CHAINS = [9, 17, 40, 127, 128, 129, 255, 256, 257]  # counters that fit / no longer fit one octet
VERY_LONG_CHAINS = [990, 999, 1000, 1001, 1024, 1500]  # around the interpreter's default recursion limit


def check_hstrp(ctx, rng, p, b, inp, pairs, k=None, opts=None, spec=None, extra=None):
    """opts / spec given: an option object filled by the caller (spec = the (command, data) values by position)"""
    H = L.hstrp
    if k is None and opts is None:
        r = rng.random()
        k = rng.choice([0, 1, 2, 2, 3, 4]) if r < 0.96 else rng.choice(LONG_CHAINS if r < 0.9985 else VERY_LONG_CHAINS)  # long chains now and then
        if k > 4:
            ctx.count("hstrp:long-option-chain" if k < 900 else "hstrp:option-chain>=990")
    if opts is not None:
        k = len(spec)
    else:
        spec = gen_option_list(rng, k)
        opts = call(gen_options, rng, k, spec)
    if isinstance(opts, Exc):
        # stop here: a list that grows with every object built would only slow everything down
        ctx.fail("hstrp-options-state", dict(inp, nesting="HSTRP", hstrp={"options": ",".join(f"{c.value}:{hx(d)}" for c, d in spec) or "-"}),
                 "a new HSTRPOptions object filled with these options does not hold exactly these options", expected=len(spec), actual=repr(opts))
        return
    t = gen_pkt_type(rng, k, p is not None)
    sn = pick_int(rng, 65535)
    use_none = k == 0 and rng.random() < 0.5
    s = H.HSTRP(pkt_type=t, sn=sn, options=None if use_none else opts, payload=p, version=rng.choice([0, 0, 0, 1, 255]))
    inp = dict(inp, nesting="HSTRP", hstrp=dict({"type": t.as_bytes()[0], "sn": sn, "options": ",".join(f"{c.value}:{hx(d)}" for c, d in spec) or "-", "version": s.version}, **(extra or {})))
    sb = call(s.as_bytes)
    if isinstance(sb, Exc):
        ctx.fail("hstrp-serialise-raises", inp, f"HSTRP.as_bytes raised {sb}", actual=repr(sb))
        return
    # independent reading of the frame
    exp_head = b"2B" + bytes([s.version, t.as_bytes()[0]]) + sn.to_bytes(2, "big")
    if sb[:6] != exp_head:
        ctx.fail("hstrp-header", inp, "HSTRP header octets differ", expected=exp_head.hex(), actual=sb[:6].hex())
    rest = sb[6:]
    if k > 0:
        walked = call(spec_walk_options, rest)
        want = [(c.value, d) for c, d in spec]  # what was added, not what the object says it holds
        if isinstance(walked, Exc) or walked[0] != want:
            ctx.fail("hstrp-options", inp, "independent TLV walk does not find the option list", expected=[(c, d.hex()) for c, d in want], actual=repr(walked))
        else:
            if walked[1] != len(opts):
                ctx.fail("hstrp-options-len", inp, "len(options) differs from the octets the chain occupies", expected=walked[1], actual=len(opts))
            rest = rest[walked[1] :]
    if rest != (b if b is not None else b""):
        ctx.fail("hstrp-payload", inp, "octets after the options are not the HDAP serialisation", expected=(b or b"").hex(), actual=rest.hex())
    s2 = call(H.HSTRP.from_bytes, sb)
    if isinstance(s2, Exc) or s2 is None:
        ctx.fail("parse-raises", inp, f"HSTRP.from_bytes of the serialisation gave {s2!r}", actual=repr(s2))
    else:
        sb2 = call(s2.as_bytes)
        if isinstance(sb2, Exc) or sb2 != sb:
            ctx.fail("roundtrip-bytes", inp, "HSTRP parse then serialise does not reproduce the bytes", expected=sb.hex(), actual=repr(sb2) if isinstance(sb2, Exc) else sb2.hex())
        f1 = safe(lambda: hstrp_fields(s)), safe(lambda: hstrp_fields(s2))
        if f1[0] != f1[1]:
            ctx.fail("roundtrip-fields", inp, "HSTRP parsed fields differ", expected=f1[0], actual=f1[1])
    if pairs is not None:
        tup = safe(pdu_tuple, p)
        if not tup.startswith("ERR"):
            # the model is told the VALUES the options were filled from (it has no object identity)
            pairs.append((f"hstrp.mk {s.version} {t.as_bytes()[0]} {sn} {','.join(f'{c.value}:{hx(d)}' for c, d in spec) or '-'} {tup}", hx(sb)))
            pairs.append((f"hstrp.parse {hx(sb)}", impl_hstrp_parse(sb)))
    return sb


def hstrp_fields(s):
    return " ".join([str(s.version), str(s.pkt_type.as_bytes()[0]), str(s.sn), opts_s(s.options),
                     "NONE" if s.payload is None else relevant_tuple(s.payload)])


def one_pdu(ctx, rng, p, kind, pairs, sample=False, nest=True, case=None):
    inp = input_of(p, case=case)
    desc = (kind, inp["fields"], inp.get("text_as")) + ((json.dumps(inp["rich"], sort_keys=True),) if inp.get("rich") else ())
    ctx.count("pdu:" + kind.split(":")[0])
    if inp.get("rich"):
        for k in inp["rich"]:
            ctx.count("argtype:stream-rich-" + k)
    if case is not None:
        check_built(ctx, p, inp)
        if case.text is not None:
            ctx.count("text:as-" + inp["text_as"])
    b = check_frame(ctx, p, inp)
    if b is not None:
        check_roundtrip(ctx, p, b, inp)
        if pairs is not None and not inp["fields"].startswith("ERR"):
            pairs.append(("hdap.mk " + inp["fields"], hx(b) + " " + str(call(len, p))))
            pairs.append(("hdap.parse " + hx(b), impl_hdap_parse(b)))
            if case is not None and case.text is not None:
                pairs.append(text_pair(case.text))
    if nest:
        check_hrnp(ctx, rng, p, b, inp, pairs)
        check_hstrp(ctx, rng, p, b, inp, pairs)
    ctx.case(desc, nontrivial=True, sample={"kind": kind, "fields": inp["fields"], "bytes": None if b is None else b.hex()[:120]} if sample else None)
    return b


def text_pair(t):
    """model line for the text argument of the TMP constructor and what the constructor stored"""
    arg = t.real()

    def go():
        q = L.tmp.TextMessageProtocol(opcode=L.tmp.TMPService.SendPrivateMessage, text_data=arg)
        return hx(q.text_data)

    if t.as_str:
        return ("tmp.text s " + (",".join(str(c) for c in t.cps) if t.cps else "-"), safe(go))
    return ("tmp.text b " + hx(t.octets()), safe(go))


def build_case(ctx, c):
    """construct the PDU of a case; a constructor that raises on in-range values is a failure"""
    p = call(c.build)
    if isinstance(p, Exc):
        inp = {"service": c.svc, "fields": safe(c.expected)}
        if c.text is not None:
            inp["text_as"] = "str" if c.text.as_str else "octets"
        if c.rich:
            inp["rich"] = c.rich
        ctx.fail("construct-raises", inp, f"constructing an in-range {c.svc} PDU raised {p}", actual=repr(p))
        return None
    return p


# ------------------------------------------------------------------------------------------------
# object histories: ONE object is observed (len, as_bytes, repr, nested in a kept HRNP / HSTRP wrapper), changed
# (attribute assignment, in-place change of a sub-object, opcode switch, parse / deepcopy and carry on) and observed
# again; after every step the property is evaluated on the object as it is now and the bytes are compared with a PDU
# built afresh from the same field values and with the model's answer for those values.
# Every step is a json-able descriptor applied by apply_step (generation and replay share the code path).


def enum_registry():
    R, P, T, C, H, S = L.rrs, L.lp, L.tmp, L.rcp, L.hrnp, L.hstrp
    cl = [R.RRSTypes, R.RRSResult, R.RRSRadioState, P.LocationProtocolSpecificService, P.LocationProtocolResultCodes, T.TMPService, T.TMPResultCodes,
          C.RCPOpcode, C.RCPCallType, C.RCPResult, C.RepeaterMode, C.RepeaterStatus, C.RepeaterServiceType, C.RadioIpIdTarget,
          C.StatusChangeNotificationTargets, C.StatusChangeNotificationSetting, L.TAF, H.HRNPOpcodes, S.HSTRPOptionType]
    return {c.__name__: c for c in cl}


def member(cls, value):
    """the member with this value, looked up in the member list (not through _missing_)"""
    for m in cls:
        if m.value == value:
            return m
    raise ValueError(f"{cls.__name__} has no member {value}")


def enc(v):
    """json-able form of a value a step assigns"""
    if v is None or isinstance(v, (bool, int)):
        return v
    if isinstance(v, (bytes, bytearray)):
        return {"hex": bytes(v).hex()}
    if isinstance(v, enum.Enum):
        return {"enum": type(v).__name__, "value": v.value}
    if isinstance(v, IP):
        return {"ip": [v.subnet, v.radio_id]}
    if isinstance(v, Gps):
        return {"gps": {k: (list(x) if isinstance(x, tuple) else x) for k, x in v.d.items()}}
    if isinstance(v, dict):
        return {"settings": [[t.value, x.value] for t, x in v.items()]}
    if isinstance(v, float):
        return {"float": repr(v)}
    if isinstance(v, tuple):
        return {"tuple": list(v)}
    if isinstance(v, str):
        return {"chr": v}
    raise TypeError("cannot encode " + repr(v))


def dec(e):
    """the real value (objects of the code under test are created here)"""
    if not isinstance(e, dict):
        return e
    if "hex" in e:
        return bytes.fromhex(e["hex"])
    if "enum" in e:
        return member(enum_registry()[e["enum"]], e["value"])
    if "ip" in e:
        return L.RadioIP(subnet=e["ip"][0], radio_id=e["ip"][1])
    if "gps" in e:
        d = dict(e["gps"])
        for k in ("tm", "dt"):
            d[k] = None if d[k] is None else tuple(d[k])
        return Gps(**d).real()
    if "settings" in e:
        C = L.rcp
        return {member(C.StatusChangeNotificationTargets, t): member(C.StatusChangeNotificationSetting, x) for t, x in e["settings"]}
    if "float" in e:
        return float(e["float"])
    if "time" in e:
        return None if e["time"] is None else (rich_time(time(*e["time"]), e["rich"]) if e.get("rich") else time(*e["time"]))
    if "date" in e:
        d0 = None if e["date"] is None else date(2000 + e["date"][2], e["date"][1], e["date"][0])
        return rich_date(d0, e["rich"]) if (d0 is not None and e.get("rich")) else d0
    if "chr" in e:
        return e["chr"]
    raise TypeError("cannot decode " + repr(e))


class State:
    """the objects of one history: the PDU, the kept HRNP and HSTRP wrappers around it"""

    def __init__(self, p):
        self.p, self.h, self.s = p, None, None
        self.keep = []  # donors of option entries (kept alive like the application that handed them over would)
        self.own_gps = isinstance(p, L.lp.LocationProtocol) and p.specific_service == L.lp.LocationProtocolSpecificService.StandardReport
        self.own_dict = isinstance(p, L.rcp.RadioControlProtocol) and p.opcode == L.rcp.RCPOpcode.StatusChangeNotificationRequest

    def repoint(self):
        if self.h is not None:
            self.h.data = self.p
        if self.s is not None and self.s.payload is not None:
            self.s.payload = self.p

    def reset_ownership(self, copied=False):
        """may the GPS record / settings dict be changed in place?  Not while they are the constructor's shared default objects"""
        p = self.p
        if copied:
            self.own_dict = True  # a deep copy has its own dict; a copied default GPS record still holds the import date: left alone
            return
        self.own_gps = isinstance(p, L.lp.LocationProtocol) and p.specific_service == L.lp.LocationProtocolSpecificService.StandardReport
        self.own_dict = isinstance(p, L.rcp.RadioControlProtocol) and p.opcode == L.rcp.RCPOpcode.StatusChangeNotificationRequest


def hstrp_make_consistent(s):
    """keep the packet type in line with the option list (the property's 'consistent' packets)"""
    k = len(s.options.options) if s.options is not None else 0
    t = s.pkt_type
    if k > 0:
        t.have_options, t.is_heartbeat = True, False
    elif t.have_options and not t.is_heartbeat and s.payload is not None:
        t.have_options = False


def apply_step(st, step):
    """perform one step on the state's objects; observations are called and their results dropped (verify_state looks afterwards)"""
    op = step["op"]
    p = st.p
    if op == "len":
        call(len, p)
    elif op == "bytes":
        call(p.as_bytes)
    elif op == "repr":
        call(repr, p)
    elif op == "accessors":
        call(p.get_payload), call(p.get_opcode), call(p.get_service_type), call(p.get_endianness)
    elif op == "set":
        v = dec(step["value"])
        setattr(p, step["attr"], v)
        if step["attr"] == "gpsdata":
            st.own_gps = True
        if step["attr"] == "status_change_settings":
            st.own_dict = True
    elif op == "ip-set":
        setattr(getattr(p, step["which"]), step["attr"], step["value"])
    elif op == "gps-set":
        setattr(p.gpsdata, step["attr"], dec(step["value"]))
    elif op == "dict-set":
        C = L.rcp
        p.status_change_settings[member(C.StatusChangeNotificationTargets, step["target"])] = member(C.StatusChangeNotificationSetting, step["setting"])
    elif op == "dict-del":
        del p.status_change_settings[member(L.rcp.StatusChangeNotificationTargets, step["target"])]
    elif op == "reparse":
        st.p = L.hdap.HDAP.from_bytes(p.as_bytes())
        st.reset_ownership()
        st.repoint()
    elif op == "deepcopy":
        what = step["what"]
        if what == "hrnp" and st.h is not None and st.h.data is p:
            st.h = copy.deepcopy(st.h)
            st.p = st.h.data
        elif what == "hstrp" and st.s is not None and st.s.payload is p:
            st.s = copy.deepcopy(st.s)
            st.p = st.s.payload
        else:
            st.p = copy.deepcopy(p)
        st.reset_ownership(copied=True)
        st.repoint()
    elif op == "hrnp-wrap":
        kw = dict(step["kw"])
        if "version" in kw:
            kw["version"] = bytes([kw["version"]])
        st.h = L.hrnp.HRNP(opcode=L.hrnp.HRNPOpcodes.DATA, data=p, **kw)
    elif op == "hrnp-bytes":
        call(st.h.as_bytes)
    elif op == "hrnp-len":
        call(len, st.h)
    elif op == "hrnp-set":
        setattr(st.h, step["attr"], dec(step["value"]))
    elif op == "hrnp-reparse":
        st.h = L.hrnp.HRNP.from_bytes(st.h.as_bytes())
        st.p = st.h.data
        st.reset_ownership()
        st.repoint()
    elif op == "hstrp-wrap":
        H = L.hstrp
        o = None
        if step["options"] is not None:
            o = H.HSTRPOptions()
            for c, d in step["options"]:
                o.add_option(member(H.HSTRPOptionType, c), bytes.fromhex(d))
        st.s = H.HSTRP(pkt_type=H.HSTRPPacketType.from_bytes(bytes([step["type"]])), sn=step["sn"], options=o, payload=p, version=step["version"])
        if o is not None:
            hstrp_make_consistent(st.s)
    elif op == "hstrp-bytes":
        call(st.s.as_bytes)
    elif op == "opts-observe":
        if st.s.options is not None:
            call(len, st.s.options), call(st.s.options.as_bytes), call(repr, st.s.options)
    elif op == "opts-add":
        H = L.hstrp
        if st.s.options is None:
            st.s.options = H.HSTRPOptions()
        st.s.options.add_option(member(H.HSTRPOptionType, step["cmd"]), bytes.fromhex(step["data"]))
        hstrp_make_consistent(st.s)
    elif op == "opts-pop":
        st.s.options.options.pop(step["index"])
        hstrp_make_consistent(st.s)
    elif op == "opts-replace":
        st.s.options.options[step["index"]] = (member(L.hstrp.HSTRPOptionType, step["cmd"]), bytes.fromhex(step["data"]))
    elif op == "opts-dup":
        # the SAME entry object once more (at the end or at a position): what a relay does that copies entries over
        lst = st.s.options.options
        e = lst[step["index"]]
        if step["at"] is None:
            lst.append(e)
        else:
            lst.insert(step["at"], e)
        hstrp_make_consistent(st.s)
    elif op == "opts-assign":
        # a list handed over from outside (entries by recipe: the same object at several positions, library-made entries …)
        o, _values, keep = build_options(step["recipe"])
        if st.s.options is None or step.get("whole"):
            st.s.options = o
        else:
            st.s.options.options = o.options
        st.keep.append(keep)
        hstrp_make_consistent(st.s)
    elif op == "hstrp-set":
        a = step["attr"]
        if a == "payload":
            st.s.payload = p if step["value"] else None
        elif a in ("sn", "version"):
            setattr(st.s, a, step["value"])
        else:
            setattr(st.s.pkt_type, a, step["value"])  # one flag of the packet type object, in place
        hstrp_make_consistent(st.s)
    elif op == "hstrp-reparse":
        st.s = L.hstrp.HSTRP.from_bytes(st.s.as_bytes())
        if st.s.payload is not None:
            st.p = st.s.payload
            st.reset_ownership()
            if st.h is not None:
                st.h.data = st.p
    else:
        raise ValueError("unknown step " + op)


# ---- choosing the next step --------------------------------------------------------------------


def other_bytes(rng, cur: bytes, sizes, same_p=0.3, fixed=None, cap=None):
    """another octet string: same length with other content, or one of the other sizes; sometimes a special token inside
    (never longer than cap, the most the field's length octet can say)"""
    if fixed is not None:
        n = fixed
    elif rng.random() < same_p:
        n = len(cur)
    else:
        n = rng.choice([x for x in sizes if x != len(cur)] or sizes)
    b = gen_bytes(rng, n)
    if fixed is None and rng.random() < 0.2:
        b = place(BYTE_TOKENS[rng.choice(BYTE_TOKEN_NAMES)], b, rng.choice(POSITIONS[1:]))
    if cap is not None:
        b = b[:cap]
    if b == cur and len(b):
        b = bytes([b[0] ^ 1]) + b[1:]
    return b


def setv(attr, v):
    return {"op": "set", "attr": attr, "value": enc(v)}


def ip_steps(rng, which):
    return [setv(which, gen_ip(rng)), {"op": "ip-set", "which": which, "attr": "radio_id", "value": pick_int(rng, 2**24 - 1)},
            {"op": "ip-set", "which": which, "attr": "subnet", "value": pick_int(rng, 255, (10,))}]


def mutation(rng, st):
    """a step that changes a field of the PDU to another in-range value (of the same or of another size)"""
    p = st.p
    c = [setv("is_reliable", not p.is_reliable)]
    if isinstance(p, L.rrs.RadioRegistrationService):
        R = L.rrs
        c += [setv("opcode", rng.choice(list(R.RRSTypes)))] * 3 + ip_steps(rng, "radio_ip")
        c += [setv("result", rng.choice(list(R.RRSResult))), setv("renew_time_seconds", rng.choice([1, 0xFFFE, 255, 256, rng.randrange(1, 0xFFFF)])),
              setv("radio_state", rng.choice(list(R.RRSRadioState)))]
    elif isinstance(p, L.lp.LocationProtocol):
        P = L.lp
        S = P.LocationProtocolSpecificService
        c += [setv("request_id", pick_int(rng, 2**32 - 1))] + ip_steps(rng, "radio_ip")
        c += [setv("gpsdata", gen_gps(rng, "fit", 0.3))] * 2
        if st.own_gps:
            c += [setv("specific_service", S.StandardRequest if p.specific_service == S.StandardReport else S.StandardReport)] * 3
            g = [("direction", rng.choice([0, 1, 9, 10, 99, 100, 359])), ("data_valid", enc(rng.choice(["A", "V"]))), ("north_south", enc(rng.choice(["N", "S"]))),
                 ("east_west", enc(rng.choice(["E", "W"]))), ("latitude", enc(rng.randrange(90000001) / 10000)), ("longitude", enc(rng.randrange(180000001) / 10000)),
                 ("speed_knots", enc(rng.choice([0.0, 0.1, 9.9, 5.0, rng.randrange(1, 100) / 10]))),
                 ("greenwich_time", {"time": rng.choice([None, [rng.randrange(24), rng.randrange(60), rng.randrange(60)]])}),
                 ("greenwich_time", {"time": [rng.randrange(24), rng.randrange(60), rng.randrange(60)], "rich": gen_rich_time(rng)}),
                 ("greenwich_date", {"date": rng.choice([None, [rng.randrange(1, 29), rng.randrange(1, 13), rng.randrange(100)]])}),
                 ("greenwich_date", {"date": [rng.randrange(1, 29), rng.randrange(1, 13), rng.randrange(100)], "rich": gen_rich_date(rng)})]
            a, v = rng.choice(g)
            c += [{"op": "gps-set", "attr": a, "value": v}] * 3
        if p.specific_service == S.StandardReport:
            c += [setv("result", rng.choice(list(P.LocationProtocolResultCodes)))]
    elif isinstance(p, L.tmp.TextMessageProtocol):
        T = L.tmp
        S = T.TMPService
        msg, short = p.opcode in (S.SendPrivateMessage, S.SendGroupMessage), p.opcode in (S.PrivateShortData, S.GroupShortData)
        ack = not msg and not short
        c += [setv("is_confirmed", not p.is_confirmed), setv("request_id", pick_int(rng, 2**32 - 1))] + ip_steps(rng, "destination_ip")
        if p.source_ip is not None:
            c += ip_steps(rng, "source_ip")
        else:
            c += [setv("source_ip", gen_ip(rng))]
        newopt = setv("option_data", other_bytes(rng, p.option_data or b"", OPTION_SIZES))
        if p.has_option:
            c += [setv("has_option", False), newopt, newopt, newopt]
        else:
            c += [newopt if p.option_data is None else setv("has_option", True)] * 3
        newtext = setv("text_data", Text(gen_cps(rng), False).octets() if rng.random() < 0.7 else b"")
        if len(dec(newtext["value"])) == len(p.text_data) or rng.random() < 0.3:
            cur = spec_utf16le_decode(p.text_data[: len(p.text_data) & ~1])
            newtext = setv("text_data", spec_utf16le(place(TEXT_TOKENS[rng.choice(TEXT_TOKEN_NAMES)], cur, rng.choice(POSITIONS[1:]))))
        if rng.random() < 0.25 and len(p.text_data) >= 2:  # same size, other content
            newtext = setv("text_data", bytes([p.text_data[0] ^ 0x01]) + p.text_data[1:])
        newshort = setv("short_data", other_bytes(rng, p.short_data, [0, 1, 2, 7, 32, 200]))
        c += [newtext] * (5 if msg else 1) + [newshort] * (5 if short else 1)
        c += [setv("result_code", rng.choice(list(T.TMPResultCodes)))] * (3 if ack else 1)
        ops = [o for o in (S.SendPrivateMessage, S.SendPrivateMessageAck, S.SendGroupMessage, S.SendGroupMessageAck, S.PrivateShortData,
                           S.PrivateShortDataAck, S.GroupShortData, S.GroupShortDataAck)
               if o != p.opcode and (p.source_ip is not None or o in (S.SendGroupMessageAck, S.GroupShortDataAck))
               and (p.result_code is not None or o in (S.SendPrivateMessage, S.SendGroupMessage, S.PrivateShortData, S.GroupShortData))]
        if ops:
            c += [setv("opcode", rng.choice(ops))] * 3
    elif isinstance(p, L.rcp.RadioControlProtocol):
        C = L.rcp
        O = C.RCPOpcode
        o = p.opcode
        id32 = lambda: pick_int(rng, 2**32 - 1)  # noqa
        f = []
        replies = (O.CallReply, O.BroadcastMessageConfigurationReply, O.BroadcastStatusConfigurationReply, O.StatusChangeNotificationReply)
        if o == O.UnknownService:
            f = [setv("raw_payload", other_bytes(rng, p.raw_payload, [0, 1, 2, 5, 40, 255, 256, 300]))] * 3 + [setv("raw_opcode", gen_raw_opcode(rng))]
        elif o == O.CallRequest:
            f = [setv("call_type", rng.choice(list(C.RCPCallType))), setv("target_id", id32())]
        elif o in replies:
            f = [setv("result", rng.choice(list(C.RCPResult)))]
        elif o == O.RepeaterBroadcastTransmitStatus:
            f = [setv("repeater_mode", rng.choice(list(C.RepeaterMode))), setv("repeater_status", rng.choice(list(C.RepeaterStatus))),
                 setv("repeater_service_type", rng.choice(list(C.RepeaterServiceType))), setv("call_type", rng.choice(list(C.RCPCallType))),
                 setv("target_id", id32()), setv("sender_id", id32())]
        elif o == O.BroadcastMessageConfigurationRequest:
            f = [setv("broadcast_type", pick_int(rng, 255, (7,)))]
        elif o == O.RadioIDAndRadioIPQueryRequest:
            f = [setv("radio_ip_id_target", rng.choice(list(C.RadioIpIdTarget)))]
        elif o == O.RadioIDAndRadioIPQueryReply:
            f = [setv("result", rng.choice(list(C.RCPResult))), setv("radio_ip_id_target", rng.choice(list(C.RadioIpIdTarget))),
                 setv("raw_value", other_bytes(rng, p.raw_value, [4], fixed=4))]
        elif o == O.BroadcastStatusConfigurationRequest:
            n = rng.choice([0, 1, 2, 5, 10, 127])
            f = [setv("broadcast_config_raw", bytes([n]) + gen_bytes(rng, 2 * n))]
        elif o == O.SendTalkerAliasRequest:
            f = [setv("talker_alias_data", other_bytes(rng, p.talker_alias_data, [0, 1, 6, 31, 250], cap=255))] * 4
            f += [setv("call_type", rng.choice(list(C.RCPCallType))), setv("sender_id", id32()), setv("target_id", id32()),
                  setv("talker_alias_data_format", rng.choice(list(L.TAF)))]
        elif o == O.SendTalkerAliasReply:
            f = [setv("result", rng.choice(list(C.RCPResult))), setv("call_type", rng.choice(list(C.RCPCallType))), setv("sender_id", id32()), setv("target_id", id32())]
        elif o == O.ZoneAndChannelOperationRequest:
            f = [setv("raw_payload", gen_bytes(rng, 5))]
        elif o == O.ZoneAndChannelOperationReply:
            f = [setv("raw_payload", other_bytes(rng, p.raw_payload, [0, 1, 4, 12, 30, 255, 256, 700]))]
        elif o == O.StatusChangeNotificationRequest:
            targets = list(C.StatusChangeNotificationTargets)
            settings = list(C.StatusChangeNotificationSetting)
            repl = setv("status_change_settings", {t: rng.choice(settings) for t in rng.sample(targets, rng.choice([0, 1, 2, 5, len(targets)]))})
            if st.own_dict:
                f = [{"op": "dict-set", "target": rng.choice(targets).value, "setting": rng.choice(settings).value}] * 4 + [repl]
                if len(p.status_change_settings):
                    f += [{"op": "dict-del", "target": rng.choice(list(p.status_change_settings)).value}] * 2
            else:
                f = [repl]
        elif o == O.RadioStatusReport:
            f = [setv("status_change_target", rng.choice(list(C.StatusChangeNotificationTargets))), setv("status_change_value", pick_int(rng, 65535))]
        c += f * 2
        # switch the opcode to another one whose fields the object already holds
        ints = lambda *xs: all(isinstance(x, int) and not isinstance(x, bool) for x in xs)  # noqa
        ok = list(replies) + [O.BroadcastMessageConfigurationRequest, O.RadioIDAndRadioIPQueryRequest, O.RadioStatusReport, O.ZoneAndChannelOperationReply]
        if len(p.raw_opcode) == 2 and int.from_bytes(p.raw_opcode, "little") not in ({m.value for m in O} - {0}):
            ok.append(O.UnknownService)
        if ints(p.target_id):
            ok.append(O.CallRequest)
        if ints(p.target_id, p.sender_id):
            ok.append(O.SendTalkerAliasReply)
            if p.talker_alias_data_format is not None and len(p.talker_alias_data) < 256:
                ok.append(O.SendTalkerAliasRequest)
            if None not in (p.repeater_mode, p.repeater_status, p.repeater_service_type):
                ok.append(O.RepeaterBroadcastTransmitStatus)
        if len(p.raw_value) == 4:
            ok.append(O.RadioIDAndRadioIPQueryReply)
        if len(p.raw_payload) == 5:
            ok.append(O.ZoneAndChannelOperationRequest)
        if len(p.broadcast_config_raw) >= 1 and len(p.broadcast_config_raw) == 1 + 2 * p.broadcast_config_raw[0]:
            ok.append(O.BroadcastStatusConfigurationRequest)
        if st.own_dict:
            ok.append(O.StatusChangeNotificationRequest)
        ok = [x for x in ok if x != o]
        c += [setv("opcode", rng.choice(ok))] * 2
    return rng.choice(c)


def hrnp_wrap_step(rng):
    kw = dict(source=pick_int(rng, 255, (0x20,)), destination=pick_int(rng, 255, (0x10,)), block_number=pick_int(rng, 255), packet_number=pick_int(rng, 65535))
    if rng.random() < 0.3:
        kw["version"] = rng.choice([0, 1, 2, 3, 4])
    return {"op": "hrnp-wrap", "kw": kw}


def hstrp_wrap_step(rng):
    H = L.hstrp
    k = rng.choice([0, 0, 1, 2, 3])
    opts = gen_options(rng, k)
    t = gen_pkt_type(rng, k, True)
    return {"op": "hstrp-wrap", "type": t.as_bytes()[0], "sn": pick_int(rng, 65535), "version": rng.choice([0, 0, 0, 1, 255]),
            "options": None if (k == 0 and rng.random() < 0.5) else [[c.value, d.hex()] for c, d in opts.options]}


def next_step(rng, st, force=None):
    """force: 'observe' | 'mutate' | None"""
    r = rng.random()
    observe = [{"op": "len"}] * 3 + [{"op": "bytes"}] * 2 + [{"op": "repr"}, {"op": "accessors"}]
    if st.h is None:
        observe += [hrnp_wrap_step(rng)] * 4
    else:
        observe += [{"op": "hrnp-bytes"}] * 2 + [{"op": "hrnp-len"}] * 2 + [hrnp_wrap_step(rng)]
    if st.s is None:
        observe += [hstrp_wrap_step(rng)] * 2
    else:
        observe += [{"op": "hstrp-bytes"}, {"op": "opts-observe"}]
    if force == "observe" or (force is None and r < 0.35):
        return rng.choice(observe)
    if force == "mutate" or r < 0.7:
        return mutation(rng, st)
    # changes of the wrappers, parse / copy and carry on
    c = [{"op": "reparse"}] * 2 + [{"op": "deepcopy", "what": rng.choice(["pdu", "hrnp", "hstrp"])}]
    if st.h is not None:
        H = L.hrnp
        hb = call(st.p.as_bytes)
        pn = pick_int(rng, 65535)
        if not isinstance(hb, Exc) and rng.random() < 0.3 and st.h.opcode == H.HRNPOpcodes.DATA:
            v = st.h.version[0] if len(st.h.version) == 1 else 4
            pn = carry_packet_number(rng, {"version": v, "block_number": st.h.block_number, "source": st.h.source, "destination": st.h.destination}, hb)
        c += [{"op": "hrnp-set", "attr": "packet_number", "value": pn}] * 3
        c += [{"op": "hrnp-set", "attr": a, "value": pick_int(rng, 255)} for a in ("source", "destination", "block_number")]
        c += [{"op": "hrnp-set", "attr": "opcode", "value": enc(rng.choice(list(H.HRNPOpcodes)))}, {"op": "hrnp-set", "attr": "opcode", "value": enc(H.HRNPOpcodes.DATA)},
              {"op": "hrnp-set", "attr": "version", "value": enc(bytes([rng.choice([0, 1, 2, 3, 4])]))}]
        if st.h.opcode == H.HRNPOpcodes.DATA:
            c += [{"op": "hrnp-reparse"}] * 2
    if st.s is not None:
        H = L.hstrp
        cmd = rng.choice(list(H.HSTRPOptionType)).value
        data = other_bytes(rng, b"", [0, 1, 4, 7, 100, 255], cap=255).hex()  # one length octet
        c += [{"op": "opts-add", "cmd": cmd, "data": data}] * 4
        k = len(st.s.options.options) if st.s.options is not None else 0
        if k:
            i = rng.randrange(k)
            c += [{"op": "opts-pop", "index": i}, {"op": "opts-replace", "index": i, "cmd": cmd, "data": data}] * 2
            c += [{"op": "opts-dup", "index": rng.randrange(k), "at": rng.choice([None, None, 0, rng.randrange(k + 1)])}] * 3
        c += [{"op": "opts-assign", "recipe": gen_recipe(rng, rng.choice([1, 2, 3, 5])), "whole": rng.random() < 0.3}] * 2
        c += [{"op": "hstrp-set", "attr": "sn", "value": pick_int(rng, 65535)}, {"op": "hstrp-set", "attr": "version", "value": rng.choice([0, 1, 255])},
              {"op": "hstrp-set", "attr": rng.choice(["is_reject", "is_close", "is_connect", "is_ack", "have_options", "is_heartbeat"]), "value": rng.random() < 0.5},
              {"op": "hstrp-set", "attr": "payload", "value": st.s.payload is None}]
        if consistent(st.s.pkt_type, k, st.s.payload is not None):
            c += [{"op": "hstrp-reparse"}] * 2
    return rng.choice(c)


# ---- looking at the objects after a step ------------------------------------------------------


def verify_state(ctx, st, inp, pairs, deep):
    """the property on the objects as they are now; bytes against a PDU built afresh from the same field values, against
    the independent frame computations and (pairs) against the model"""
    p = st.p
    tup = safe(pdu_tuple, p)
    inp = dict(inp, fields=tup, service=tup.split(" ")[0])
    if tup.startswith("ERR"):
        ctx.fail("history-fields", inp, "the object's attributes are no longer in-range field values: " + tup, actual=tup)
        return False
    n0 = len(ctx.failures)
    b = check_frame(ctx, p, inp)
    if b is None:
        return False
    fresh = call(build_from_tuple, tup)
    fb = call(fresh.as_bytes) if not isinstance(fresh, Exc) else fresh
    if isinstance(fb, Exc):
        ctx.fail("history-fresh-raises", inp, f"a PDU built afresh from the object's field values cannot be serialised: {fb}", actual=repr(fb))
        return False
    if b != fb:
        ctx.fail("history-bytes", inp, "the object serialises differently from a PDU built afresh from the same field values", expected=fb.hex(), actual=b.hex())
    fl = call(len, fresh)
    if fl != len(fb):
        ctx.fail("len-mismatch", inp, "len() of a freshly built PDU differs from the number of bytes it produces", expected=len(fb), actual=repr(fl))
    b2 = call(p.as_bytes)
    if b2 != b:
        ctx.fail("history-bytes", inp, "two consecutive as_bytes() of the same object differ", expected=b.hex(), actual=repr(b2) if isinstance(b2, Exc) else b2.hex())
    if deep:
        check_roundtrip(ctx, p, b, inp)
    if pairs is not None:
        pairs.append(("hdap.mk " + tup, hx(b) + " " + str(call(len, p))))
    h = st.h
    if h is not None:
        H = L.hrnp
        hi = dict(inp, nesting="HRNP")
        hb = call(h.as_bytes)
        hl = call(len, h)
        if isinstance(hb, Exc):
            ctx.fail("hrnp-serialise-raises", hi, f"HRNP.as_bytes raised {hb}", actual=repr(hb))
        else:
            inner = fb if h.opcode == H.HRNPOpcodes.DATA else b""
            head = h.header + h.version + bytes([h.block_number, h.opcode.value, h.source, h.destination]) + h.packet_number.to_bytes(2, "big") + (12 + len(inner)).to_bytes(2, "big")
            want = head + spec_hrnp_checksum(head + inner).to_bytes(2, "big") + inner
            lf = int.from_bytes(hb[8:10], "big")
            if not (lf == len(hb) == 12 + len(inner)) or hl != len(hb):
                ctx.fail("hrnp-length", hi, "HRNP length field / len() / actual length / 12 + inner differ", expected=12 + len(inner), actual=[lf, len(hb), repr(hl)])
            elif not spec_ones_complement_ok(hb):
                ctx.fail("hrnp-checksum", hi, "ones-complement sum over the HRNP packet is not 0xFFFF", expected="ffff", actual=hb[10:12].hex())
            elif hb != want:
                ctx.fail("history-hrnp-bytes", hi, "the kept HRNP wrapper serialises differently from the packet written out by hand for its current fields", expected=want.hex(), actual=hb.hex())
            if deep and len(hb) >= 12:
                h2 = call(H.HRNP.from_bytes, hb)
                if isinstance(h2, Exc):
                    ctx.fail("parse-raises", hi, f"HRNP.from_bytes of the serialisation raised {h2}", actual=repr(h2))
                else:
                    hb2 = call(h2.as_bytes)
                    if not h2.checksum_correct:
                        ctx.fail("hrnp-checksum-verify", hi, "HRNP.from_bytes does not verify the checksum of a serialised packet", expected=True, actual=False)
                    if isinstance(hb2, Exc) or hb2 != hb:
                        ctx.fail("roundtrip-bytes", hi, "HRNP parse then serialise does not reproduce the bytes", expected=hb.hex(), actual=repr(hb2) if isinstance(hb2, Exc) else hb2.hex())
                    if h.opcode == H.HRNPOpcodes.DATA:
                        f1 = safe(lambda: hrnp_fields(h)), safe(lambda: hrnp_fields(h2))
                        if f1[0] != f1[1]:
                            ctx.fail("roundtrip-fields", hi, "HRNP parsed fields differ", expected=f1[0], actual=f1[1])
            if pairs is not None:
                pairs.append((f"hrnp.mk {hx(h.header)} {hx(h.version)} {h.block_number} {h.opcode.value} {h.source} {h.destination} {h.packet_number} {tup}", hx(hb) + " " + str(hl)))
    if st.s is not None:
        verify_hstrp_now(ctx, st.s, fb, dict(inp, nesting="HSTRP"), deep, pairs, tup)
    return len(ctx.failures) == n0


def verify_hstrp_now(ctx, s, fb, si, deep, pairs, tup):
    """an HSTRP object as it is now against the packet written out by hand from its current attributes (the option list
    read by position and value); fb = serialisation of a PDU built afresh from the payload's field values (tup)"""
    sb = call(s.as_bytes)
    if isinstance(sb, Exc):
        ctx.fail("hstrp-serialise-raises", si, f"HSTRP.as_bytes raised {sb}", actual=repr(sb))
        return None
    t = s.pkt_type
    tb = sum(bit << i for i, bit in enumerate([t.is_ack, t.is_heartbeat, t.is_connect, t.is_close, t.is_reject, t.have_options]))
    ol = [] if s.options is None else [(c.value, bytes(d)) for c, d in s.options.options]
    tlv = spec_tlv(ol)
    want = b"2B" + bytes([s.version, tb]) + s.sn.to_bytes(2, "big") + tlv + (fb if s.payload is not None else b"")
    if sb != want:
        ctx.fail("history-hstrp-bytes", si, "the kept HSTRP wrapper serialises differently from the packet written out by hand for its current fields", expected=want.hex(), actual=sb.hex())
    if s.options is not None:
        ln, ob = call(len, s.options), call(s.options.as_bytes)
        if ln != len(tlv) or ob != tlv:
            ctx.fail("hstrp-options-len", si, "len(options) / options.as_bytes() differ from the option chain written out by hand", expected=[len(tlv), tlv.hex()], actual=[repr(ln), repr(ob) if isinstance(ob, Exc) else ob.hex()])
    if deep and consistent(t, len(ol), s.payload is not None):
        s2 = call(L.hstrp.HSTRP.from_bytes, sb)
        if isinstance(s2, Exc) or s2 is None:
            ctx.fail("parse-raises", si, f"HSTRP.from_bytes of the serialisation gave {s2!r}", actual=repr(s2))
        else:
            sb2 = call(s2.as_bytes)
            if isinstance(sb2, Exc) or sb2 != sb:
                ctx.fail("roundtrip-bytes", si, "HSTRP parse then serialise does not reproduce the bytes", expected=sb.hex(), actual=repr(sb2) if isinstance(sb2, Exc) else sb2.hex())
            f1 = safe(lambda: hstrp_fields(s)), safe(lambda: hstrp_fields(s2))
            if f1[0] != f1[1]:
                ctx.fail("roundtrip-fields", si, "HSTRP parsed fields differ", expected=f1[0], actual=f1[1])
    if pairs is not None:
        pairs.append((f"hstrp.mk {s.version} {tb} {s.sn} {opts_s(s.options)} {tup if s.payload is not None else 'NONE'}", hx(sb)))
    return sb


MUTATING = ("set", "ip-set", "gps-set", "dict-set", "dict-del")


def start_state(tuple0, origin):
    """the object a history starts from: built from the field tuple, or parsed from that PDU's serialisation"""
    p = build_from_tuple(tuple0)
    if origin == "parsed":
        p = L.hdap.HDAP.from_bytes(p.as_bytes())
    return State(p)


def run_history(ctx, rng, tuple0, origin, pairs, scripted):
    """one history; returns the final state (or None when it was cut short by a failure)"""
    st = start_state(tuple0, origin)
    svc = tuple0.split(" ")[0]
    steps = []
    inp0 = {"fields0": tuple0, "origin": origin, "history": steps}
    n = rng.choice([3, 3, 4, 5, 6, 8, 10])
    ctx.count("hist:" + svc + ":" + origin)
    if not verify_state(ctx, st, dict(inp0, history=[]), pairs, deep=False):
        return None
    for i in range(n):
        force = None
        if scripted:  # the canonical pattern first: observe, change a field, observe; then free
            force = ("observe", "mutate", "observe")[i] if i < 3 else None
        step = next_step(rng, st, force)
        before, rel_before = call(st.p.as_bytes), safe(relevant_tuple, st.p)
        r = call(apply_step, st, step)
        steps.append(step)
        ctx.count("hist-step:" + step["op"])
        if isinstance(r, Exc):
            ctx.fail("history-step-raises", dict(inp0, history=list(steps)), f"step {json.dumps(step)} on an in-range object raised {r}", actual=repr(r))
            return None
        after, rel_after = call(st.p.as_bytes), safe(relevant_tuple, st.p)
        if not isinstance(before, Exc) and not isinstance(after, Exc) and not rel_after.startswith("ERR"):
            # serialisation is a function of the serialised fields, and an injective one (parse . serialise = id):
            # the bytes change exactly when a field of the PDU changed — needs no second object, so a stale answer
            # shared by all objects with the same key is seen as well
            if (rel_before == rel_after) != (before == after):
                ctx.fail("history-stale-bytes", dict(inp0, history=list(steps), fields=safe(pdu_tuple, st.p), service=svc),
                         "as_bytes() changed although no serialised field changed" if rel_before == rel_after else "a serialised field changed but as_bytes() still gives the earlier bytes",
                         expected=[rel_before, rel_after], actual=[before.hex(), after.hex()])
                return None
            if step["op"] in MUTATING:
                ctx.count("hist:mutation-size-" + ("changed" if len(before) != len(after) else "kept"))
        if not verify_state(ctx, st, dict(inp0, history=list(steps)), pairs, deep=(i == n - 1 or i % 3 == 2 or step["op"] in MUTATING)):
            return None
    ctx.case(("history", tuple0, origin, json.dumps(steps, sort_keys=True)))
    return st


def run_histories(ctx, rng, pairs, held):
    gens = [("RRS", gen_rrs), ("LP", gen_lp), ("TMP", gen_tmp), ("RCP", gen_rcp)]
    n = ctx.budget(250, 2500)
    finished = []
    for i in range(n):
        for name, g in gens + [("TMP", gen_tmp)]:  # TMP twice: most variable-length fields
            c = g(rng)
            t0 = safe(c.expected)
            if t0.startswith("ERR"):
                continue
            st = call(run_history, ctx, rng, t0, "parsed" if i % 3 == 2 else "built", pairs, i % 2 == 0)
            if isinstance(st, Exc):
                ctx.fail("history-step-raises", {"fields0": t0, "service": name}, f"history on an in-range PDU raised {st}", actual=repr(st))
            elif st is not None and len(finished) < 300:
                b = call(st.p.as_bytes)
                if not isinstance(b, Exc):
                    finished.append((st, b, call(st.h.as_bytes) if st.h is not None else None, call(st.s.as_bytes) if st.s is not None else None, t0))
        if i % 100 == 99:
            verify_held(ctx, held)
    # the objects the histories left behind must not have been changed by the later histories on OTHER objects
    for st, b, hb, sb, t0 in finished:
        ctx.count("held:history-object")
        now = (call(st.p.as_bytes), call(st.h.as_bytes) if st.h is not None else None, call(st.s.as_bytes) if st.s is not None else None)
        if now != (b, hb, sb):
            ctx.fail("held-object-changed", {"fields0": t0, "fields": safe(pdu_tuple, st.p), "service": t0.split(" ")[0]},
                     "an object that was not touched any more serialises differently after other objects were used",
                     expected=[b.hex(), repr(hb), repr(sb)], actual=[repr(x) for x in now])
    verify_held(ctx, held)


def verify_held(ctx, held):
    """objects built earlier and kept alive still serialise to the bytes recorded then (no state shared between objects)"""
    for kind, p, b, inp in held:
        ctx.count("held:re-verified")
        now = call(p.as_bytes)
        ln = call(len, p)
        if now != b or ln != len(b):
            ctx.fail("held-object-changed", inp, "a PDU kept alive serialises differently / reports another length after other PDUs were built and used",
                     expected=[b.hex(), len(b)], actual=[repr(now) if isinstance(now, Exc) else now.hex(), repr(ln)])


# ------------------------------------------------------------------------------------------------
# probes (round 3): deterministic functions of a json-able parameter record, so that generation and replay share the
# code path.  A failure carries {"probe": name, "params": …} plus the short parts of the usual input description.
#   provenance  WHERE the entries of an option list come from and HOW the list was filled: the SAME entry object at
#               several positions (also last), equal-but-not-identical entries, lists assigned directly / appended /
#               extended / built by add_option, entries made by the library (parsed, taken from another object)
#   alias       ONE sub-object (RadioIP, GPSData, settings dict, bytes, packet type, option object / list / entries,
#               payload) referenced from several fields / PDUs / wrappers, observed, changed through one reference
#   size        every repeatable / variable-length structure inside ONE PDU at the sizes the 16-bit length fields and a
#               64 kB datagram allow (option chains of 10^3..10^4 entries, payloads up to 65 535 octets, HRNP at 65 535)
#   ambient     a fixed sample answered again deep in the call stack, with logging at DEBUG and dead standard streams,
#               with failing calls in between, with `random` reseeded, and by a child `python -O`


def abbr(x, n=400):
    """long strings / lists shortened for the failure record (the probe's parameters reproduce the full input)"""
    if isinstance(x, str) and len(x) > n:
        return x[: n // 2] + f"…[{len(x)} characters]…" + x[-(n // 4) :]
    if isinstance(x, (list, tuple)):
        if len(x) > 24:
            return [abbr(e, n) for e in x[:12]] + [f"…[{len(x)} entries]…"] + [abbr(e, n) for e in x[-4:]]
        return [abbr(e, n) for e in x]
    if isinstance(x, dict):
        return {k: abbr(v, n) for k, v in x.items()}
    return x


PROBE_KEYS = ("service", "nesting", "hstrp", "hrnp", "fields", "text_as", "speed", "alias", "object", "after", "stack_remaining", "argtype", "rich",
              "ambient", "history", "fields0", "origin", "layer", "item")


class ProbeCtx:
    """routes the failures of one probe to the run context with the probe's replayable description as the input"""

    def __init__(self, ctx, name, params):
        self.ctx, self.name, self.params = ctx, name, params
        self.failures = ctx.failures  # the same list: helpers compare its length before / after

    def fail(self, kind, inp, what, expected=None, actual=None):
        d = {"probe": self.name, "params": self.params}
        if isinstance(inp, dict):
            d.update({k: abbr(inp[k]) for k in PROBE_KEYS if k in inp})
        self.ctx.fail(kind, d, what, expected=abbr(expected), actual=abbr(actual))

    def count(self, *a, **k):
        self.ctx.count(*a, **k)

    def case(self, *a, **k):
        self.ctx.case(*a, **k)


# ---- provenance of option lists ---------------------------------------------------------------

OptT = collections.namedtuple("OptT", ["command", "data"])  # a tuple all the same: what typed application code hands over

POOL_ORIGINS = ("literal", "namedtuple", "parsed", "donor")
OPT_HOWS = ("assign", "append", "extend-then-append", "insert-front", "slice-assign", "iadd", "mul", "add_option", "equal-fresh")
PICK_PATTERNS = ("all-same", "last-is-first", "last-is-middle", "last-is-previous", "first-recurs-inside",
                 "duplicates-before-a-unique-last", "sampled-from-small-pool", "palindrome", "all-distinct")


def clone_bytes(b: bytes) -> bytes:
    """an equal bytes object that is another object wherever CPython allows it (b"" and single octets are singletons)"""
    return bytes(bytearray(b))


def make_picks(rng, pattern, k):
    """position -> index into the pool of entry objects; the same index = the SAME object"""
    if k <= 1:
        return [0] * k
    if pattern == "all-same":
        return [0] * k
    if pattern == "last-is-first":
        return list(range(k - 1)) + [0]
    if pattern == "last-is-middle":
        return list(range(k - 1)) + [(k - 1) // 2]
    if pattern == "last-is-previous":
        return list(range(k - 1)) + [k - 2]
    if pattern == "first-recurs-inside":
        p = list(range(k))
        if k >= 3:
            p[rng.randrange(1, k - 1)] = 0
        return p
    if pattern == "duplicates-before-a-unique-last":
        p = [rng.randrange(max(1, (k - 1) // 2)) for _ in range(k - 1)]
        return p + [max(p) + 1]
    if pattern == "sampled-from-small-pool":
        m = rng.choice([1, 2, 3])
        return [rng.randrange(m) for _ in range(k)]
    if pattern == "palindrome":
        h = list(range((k + 1) // 2))
        return h + h[: k // 2][::-1]
    return list(range(k))


def gen_recipe(rng, k, pattern=None, origin=None, how=None):
    """a json-able description of an option list: pool of entries, which pool entry sits at which position, where the
    entry objects come from and how the list is filled"""
    pattern = pattern or rng.choice(PICK_PATTERNS)
    origin = origin or rng.choice(POOL_ORIGINS)
    how = how or rng.choice(OPT_HOWS)
    picks = make_picks(rng, pattern, k)
    if how == "mul" and len(set(picks)) > 1:
        how = "assign"
    pool = gen_option_list(rng, max(picks) + 1 if picks else 0)
    if len(pool) > 1 and rng.random() < 0.3:
        pool[rng.randrange(1, len(pool))] = pool[0]  # equal VALUES in two pool entries: two objects that compare equal
    return {"origin": origin, "how": how, "pattern": pattern, "pool": [[c.value, d.hex()] for c, d in pool], "picks": picks}


class ProvenanceSetup(Exception):
    """the library-made entries of a pool are not the values they were made from"""


def build_pool(origin, pool):
    """entry objects of a pool (one object per pool entry) and whatever has to stay alive with them"""
    H = L.hstrp
    vals = [(member(H.HSTRPOptionType, c), bytes.fromhex(h)) for c, h in pool]
    if origin == "literal" or not vals:
        return [(c, clone_bytes(d)) for c, d in vals], vals, None
    if origin == "namedtuple":
        return [OptT(c, clone_bytes(d)) for c, d in vals], vals, None
    if origin == "parsed":  # entries the library's parser made
        o = H.HSTRPOptions.from_bytes(spec_tlv([(c.value, d) for c, d in vals]))
    elif origin == "donor":  # entries the library's add_option made, taken out of another options object
        o = H.HSTRPOptions()
        for c, d in vals:
            o.add_option(c, d)
    else:
        raise ValueError("unknown origin " + origin)
    if [(c, bytes(d)) for c, d in o.options] != vals:
        raise ProvenanceSetup(f"{origin} entries are {opts_s(o)}")
    return list(o.options), vals, o


def build_options(recipe):
    """-> (HSTRPOptions object, the (command, data) VALUES by position, objects kept alive)"""
    entries, vals, keep = build_pool(recipe["origin"], recipe["pool"])
    picks, how = recipe["picks"], recipe["how"]
    o = L.hstrp.HSTRPOptions()
    seq = [entries[i] for i in picks]
    if how == "assign":
        o.options = seq
    elif how == "append":
        for e in seq:
            o.options.append(e)
    elif how == "extend-then-append":  # a relay: copy the request's entries over, then name one of them again
        o.options.extend(seq[:-1])
        o.options.append(seq[-1])
    elif how == "insert-front":
        for e in reversed(seq):
            o.options.insert(0, e)
    elif how == "slice-assign":
        o.options[:] = seq
    elif how == "iadd":
        o.options += seq
    elif how == "mul":
        o.options = seq[:1] * len(seq)
    elif how == "add_option":  # a fresh entry per call, the data objects shared
        for e in seq:
            o.add_option(e[0], e[1])
    elif how == "equal-fresh":  # equal but not identical: a new entry and a new data object at every position
        o.options = [(e[0], clone_bytes(e[1])) for e in seq]
    else:
        raise ValueError("unknown way to fill an option list: " + how)
    return o, [vals[i] for i in picks], (keep, entries)


def identity_stats(ctx, o):
    lst = o.options
    ids = [id(e) for e in lst]
    if len(set(ids)) < len(ids):
        ctx.count("prov:list-holds-one-object-several-times")
        if ids and ids[-1] in ids[:-1]:
            ctx.count("prov:last-entry-object-also-earlier")
        if ids and ids[0] in ids[1:]:
            ctx.count("prov:first-entry-object-also-later")
    elif len(lst) > 1 and len({(c, bytes(d)) for c, d in lst}) < len(lst):
        ctx.count("prov:equal-but-not-identical-entries")
    dids = [id(d) for _, d in lst if len(d) > 1]
    if len(set(dids)) < len(dids):
        ctx.count("prov:data-object-shared-between-entries")


def check_options_alone(ctx, o, values, inp):
    """the options object by itself: chain written out by hand, len(), independent walk, parse and serialise again"""
    H = L.hstrp
    want = [(c.value, d) for c, d in values]
    tlv = spec_tlv(want)
    ob, ln = call(o.as_bytes), call(len, o)
    if ob != tlv:
        ctx.fail("hstrp-options", inp, "options.as_bytes() differs from the chain written out by hand (continuation bit on every option but the last, by POSITION)",
                 expected=tlv.hex(), actual=repr(ob) if isinstance(ob, Exc) else ob.hex())
        return False
    if ln != len(tlv):
        ctx.fail("hstrp-options-len", inp, "len(options) differs from the octets of the chain", expected=len(tlv), actual=repr(ln))
    if want:
        o2 = call(H.HSTRPOptions.from_bytes, tlv + b"\x11\x00\x03")
        if isinstance(o2, Exc):
            ctx.fail("parse-raises", inp, f"HSTRPOptions.from_bytes of a serialised chain raised {o2}", actual=repr(o2))
        elif [(c.value, bytes(d)) for c, d in o2.options] != want or call(o2.as_bytes) != tlv or call(len, o2) != len(tlv):
            ctx.fail("roundtrip-fields", inp, "the parsed option chain differs from the list it was serialised from", expected=",".join(f"{c}:{hx(d)}" for c, d in want), actual=safe(opts_s, o2))
    return True


def probe_provenance(ctx, params, pairs):
    rng = random.Random(params["seed"])
    recipe = params["recipe"]
    pc = ProbeCtx(ctx, "provenance", params)
    built = call(build_options, recipe)
    base = {"fields": params.get("payload") or "NONE", "service": (params.get("payload") or "-").split(" ")[0]}
    hs = {"options-from": recipe["origin"], "filled-by": recipe["how"], "same-object-at": recipe["picks"]}
    if isinstance(built, Exc):
        pc.fail("hstrp-options-state", dict(base, nesting="HSTRP", hstrp=hs), f"filling an option list raised {built}", actual=repr(built))
        return
    o, values, keep = built
    identity_stats(ctx, o)
    ctx.count("prov:origin-" + recipe["origin"])
    ctx.count("prov:filled-by-" + recipe["how"])
    ctx.count("prov:pattern-" + recipe["pattern"])
    ctx.case(("provenance", json.dumps(recipe, sort_keys=True), params.get("payload")))
    hs["options"] = ",".join(f"{c.value}:{hx(d)}" for c, d in values) or "-"
    if not check_options_alone(pc, o, values, dict(base, nesting="HSTRP", hstrp=hs)):
        return
    p = b = None
    if params.get("payload"):
        p = build_from_tuple(params["payload"])
        b = p.as_bytes()
    check_hstrp(pc, rng, p, b, base, pairs, opts=o, spec=values, extra={"options-from": recipe["origin"], "filled-by": recipe["how"], "same-object-at": recipe["picks"]})
    # serialising did not change the list, and a second look gives the same octets
    if [(c, bytes(d)) for c, d in o.options] != values:
        pc.fail("hstrp-options-state", dict(base, nesting="HSTRP", hstrp=hs), "the option list holds other values after it was serialised", expected=hs["options"], actual=safe(opts_s, o))
    if pairs is not None and values:
        tlv = spec_tlv([(c.value, d) for c, d in values])
        pairs.append((f"opts.parse {hx(tlv)}", impl_opts_parse(tlv)))


def run_provenance(ctx, rng, pairs, payloads):
    """every origin x way of filling x identity pattern, each with a list length of its own"""
    for _round in range(ctx.budget(1, 4)):
        for origin in POOL_ORIGINS:
            for how in OPT_HOWS:
                for pattern in PICK_PATTERNS:
                    k = rng.choice([2, 2, 3, 3, 4, 5, 8]) if rng.random() < 0.93 else rng.choice([1, 17, 130, 257])
                    recipe = gen_recipe(rng, k, pattern, origin, how)
                    params = {"seed": rng.randrange(2**32), "recipe": recipe, "payload": None if rng.random() < 0.25 else rng.choice(payloads)}
                    r = call(probe_provenance, ctx, params, pairs)
                    if isinstance(r, Exc):
                        ctx.fail("hstrp-options-state", {"probe": "provenance", "params": params}, f"an option list of in-range entries could not be used: {r}", actual=repr(r))


# ---- one sub-object referenced from several places ----------------------------------------------


def hrnp_for(rng, p):
    H = L.hrnp
    return H.HRNP(opcode=H.HRNPOpcodes.DATA, data=p, source=pick_int(rng, 255, (0x20,)), destination=pick_int(rng, 255, (0x10,)),
                  block_number=pick_int(rng, 255), packet_number=pick_int(rng, 65535))


def hstrp_for(rng, p, o=None, t=None):
    H = L.hstrp
    if o is None:
        o = gen_options(rng, rng.choice([0, 1, 2, 3]))
    k = len(o.options)
    return H.HSTRP(pkt_type=t if t is not None else gen_pkt_type(rng, k, p is not None), sn=pick_int(rng, 65535), options=o, payload=p, version=rng.choice([0, 0, 1, 255]))


def verify_all(pc, states, expected, note, pairs):
    """every object of the probe, as it is now: attributes = the specification values, property + fresh object + hand-written
    wrappers + model (verify_state)"""
    ok = True
    for i, st in enumerate(states):
        inp = {"alias": pc.params["kind"], "object": i, "after": note}
        if expected is not None:
            want, got = safe(expected[i]), safe(pdu_tuple, st.p)
            if want != got:
                pc.fail("built-fields", dict(inp, fields=want, service=want.split(" ")[0]), "the PDU's attributes differ from the values its (shared) sub-objects now hold", expected=want, actual=got)
                ok = False
                continue
        ok = verify_state(pc, st, inp, pairs, deep=True) and ok
    return ok


def wrap_some(rng, states):
    for st in states:
        if rng.random() < 0.6:
            st.h = hrnp_for(rng, st.p)
        if rng.random() < 0.6:
            st.s = hstrp_for(rng, st.p)
            hstrp_make_consistent(st.s)


def alias_radio_ip(pc, rng, pairs):
    """one RadioIP object: source AND destination of a message, and the address of PDUs of other services"""
    S = L.tmp.TMPService
    ip = gen_ip(rng)
    c1, c2, c3, c4 = gen_rrs(rng), gen_lp(rng), gen_tmp(rng), gen_tmp(rng)
    c1.kw["radio_ip"] = c2.kw["radio_ip"] = ip
    c3.kw.update(opcode=rng.choice([S.SendPrivateMessage, S.PrivateShortData, S.GroupShortData]), destination_ip=ip, source_ip=ip)
    c3.kw.setdefault("text_data", gen_text(rng))
    c3.kw.pop("result_code", None)
    c4.kw["destination_ip"] = ip
    cases = [c1, c2, c3, c4]
    # the shared object comes from one of the library's own ways to make a RadioIP
    octets = bytes([ip.subnet]) + ip.radio_id.to_bytes(3, "big")
    path = rng.choice(["constructor", "constructor-id-as-octets", "from_bytes", "from_bytes-little", "from_ip"])
    pc.count("alias:radio-ip-made-by-" + path)
    made = {"constructor": lambda: ip.real(), "constructor-id-as-octets": lambda: L.RadioIP(radio_id=octets[1:], subnet=ip.subnet),
            "from_bytes": lambda: L.RadioIP.from_bytes(octets), "from_bytes-little": lambda: L.RadioIP.from_bytes(octets[::-1], endian="little"),
            "from_ip": lambda: L.RadioIP.from_ip(".".join(str(x) for x in octets))}[path]()
    memo = {id(ip): (ip, made)}
    states = [State(c.build(memo)) for c in cases]
    real = memo[id(ip)][1]
    if states[2].p.source_ip is not states[2].p.destination_ip or states[0].p.radio_ip is not real:
        raise RuntimeError("probe setup: the RadioIP object is not shared")
    wrap_some(rng, states)
    exp = [c.expected for c in cases]
    if not verify_all(pc, states, exp, "built", pairs):
        return
    for attr, v in (("radio_id", pick_int(rng, 2**24 - 1)), ("subnet", pick_int(rng, 255, (10,))), ("radio_id", pick_int(rng, 2**24 - 1))):
        for st in rng.sample(states, 2):  # some are looked at before the change, some only after
            call(st.p.as_bytes), call(len, st.p)
        setattr(real, attr, v)
        setattr(ip, attr, v)
        if not verify_all(pc, states[::-1] if attr == "subnet" else states, exp[::-1] if attr == "subnet" else exp, f"{attr} of the shared RadioIP set to {v}", pairs):
            return


def alias_settings_dict(pc, rng, pairs):
    """one settings dict (a plain dict or an OrderedDict) in two status-change requests; a third PDU holds a copy"""
    C = L.rcp
    O = C.RCPOpcode
    targets, settings = list(C.StatusChangeNotificationTargets), list(C.StatusChangeNotificationSetting)
    spec = {t: rng.choice(settings) for t in rng.sample(targets, rng.choice([0, 1, 3, 6]))}
    real = collections.OrderedDict(spec) if rng.random() < 0.4 else dict(spec)
    frozen = dict(spec)
    mk = lambda rel, d: C.RadioControlProtocol(opcode=O.StatusChangeNotificationRequest, is_reliable=rel, status_change_settings=d)  # noqa
    states = [State(mk(False, real)), State(mk(True, real)), State(mk(True, dict(frozen)))]
    for st in states:
        st.own_dict = True
    wrap_some(rng, states)
    tup = lambda rel, d: lambda: kw_tuple("RCP", dict(opcode=O.StatusChangeNotificationRequest, is_reliable=rel, status_change_settings=d))  # noqa
    exp = [tup(False, spec), tup(True, spec), tup(True, frozen)]
    if not verify_all(pc, states, exp, "built", pairs):
        return
    for _ in range(rng.choice([2, 3, 4])):
        r = rng.random()
        if r < 0.5 or not spec:
            t, v = rng.choice(targets), rng.choice(settings)
            real[t] = v
            spec[t] = v
            note = f"shared dict: [{t.value}] = {v.value}"
        elif r < 0.8:
            t = rng.choice(list(spec))
            del real[t]
            del spec[t]
            note = f"shared dict: del [{t.value}]"
        else:
            real.clear()
            spec.clear()
            note = "shared dict: clear()"
        if not verify_all(pc, states, exp, note, pairs):
            return


def alias_gps(pc, rng, pairs):
    """one GPSData object in two location reports"""
    S = L.lp.LocationProtocolSpecificService
    g = gen_gps(rng, "fit")
    cases = []
    for _ in range(2):
        cases.append(Case("LP", dict(opcode=S.StandardReport, request_id=pick_int(rng, 2**32 - 1), radio_ip=gen_ip(rng), is_reliable=rng.random() < 0.5,
                                     result=rng.choice([c.value for c in L.lp.LocationProtocolResultCodes]), gpsdata=g)))
    memo = {}
    states = [State(c.build(memo)) for c in cases]
    real = memo[id(g)][1]
    if states[0].p.gpsdata is not states[1].p.gpsdata:
        raise RuntimeError("probe setup: the GPSData object is not shared")
    wrap_some(rng, states)
    exp = [c.expected for c in cases]
    if not verify_all(pc, states, exp, "built", pairs):
        return
    for _ in range(3):
        which = rng.choice(["direction", "north", "east", "valid", "lat4", "speed"])
        if which == "direction":
            v = rng.choice([0, 1, 9, 10, 99, 100, 359])
            real.direction = v
        elif which == "north":
            v = rng.random() < 0.5
            real.north_south = "N" if v else "S"
        elif which == "east":
            v = rng.random() < 0.5
            real.east_west = "E" if v else "W"
        elif which == "valid":
            v = rng.random() < 0.5
            real.data_valid = "A" if v else "V"
        elif which == "lat4":
            v = rng.randrange(90000001)
            real.latitude = v / 10000
        else:
            v = rng.choice([0.0, 0.1, 9.9, 5.0])
            real.speed_knots = v
        g.d[which] = v
        if not verify_all(pc, states, exp, f"{which} of the shared GPSData set to {v}", pairs):
            return


def alias_bytes(pc, rng, pairs):
    """one bytes object as the value of every opaque field of several PDUs (and as data of several HSTRP options)"""
    T, C, H = L.tmp, L.rcp, L.hstrp
    S, O = T.TMPService, C.RCPOpcode
    blob = gen_blob(rng, [0, 1, 2, 4, 6, 30, 200])
    blob = blob[: len(blob) & ~1] if rng.random() < 0.7 else blob  # even: also a text
    even = len(blob) % 2 == 0
    ip1, ip2 = gen_ip(rng), gen_ip(rng)
    cases = [
        Case("TMP", dict(opcode=S.SendPrivateMessage if even else S.PrivateShortData, has_option=True, option_data=blob, text_data=blob if even else b"", short_data=blob,
                         request_id=pick_int(rng, 2**32 - 1), destination_ip=ip1, source_ip=ip2)),
        Case("TMP", dict(opcode=S.GroupShortData, has_option=rng.random() < 0.5, option_data=blob, short_data=blob, request_id=1, destination_ip=ip2, source_ip=ip1)),
        Case("RCP", dict(opcode=O.UnknownService, raw_opcode=gen_raw_opcode(rng), raw_payload=blob)),
        Case("RCP", dict(opcode=O.ZoneAndChannelOperationReply, raw_payload=blob, is_reliable=True)),
        Case("RCP", dict(opcode=O.SendTalkerAliasRequest, call_type=rng.choice(list(C.RCPCallType)), sender_id=pick_int(rng, 2**32 - 1), target_id=pick_int(rng, 2**32 - 1),
                         talker_alias_format=rng.choice(list(L.TAF)), talker_alias_data=blob)),
    ]
    states = [State(c.build()) for c in cases]
    for st in states:
        o = H.HSTRPOptions()
        for c in rng.sample(list(H.HSTRPOptionType), 3):
            o.add_option(c, blob)  # three entries, one data object
        st.s = hstrp_for(rng, st.p, o)
        hstrp_make_consistent(st.s)
        if rng.random() < 0.5:
            st.h = hrnp_for(rng, st.p)
    exp = [c.expected for c in cases]
    verify_all(pc, states, exp, "built", pairs) and verify_all(pc, states[::-1], exp[::-1], "looked at again, in the other order", pairs)


def hstrp_objects_ok(pc, objs, fb_of, note, pairs):
    ok = True
    for i, s in enumerate(objs):
        n0 = len(pc.failures)
        tup = "NONE" if s.payload is None else safe(pdu_tuple, s.payload)
        si = {"alias": pc.params["kind"], "object": i, "after": note, "nesting": "HSTRP", "fields": tup, "service": tup.split(" ")[0]}
        verify_hstrp_now(pc, s, fb_of(s), si, True, pairs, tup)
        ok = ok and len(pc.failures) == n0
    return ok


def alias_options(pc, rng, pairs):
    """the option lists of several packets share the options object / the list object / the entry objects; the packet type
    object is shared as well; changes go through one of the references"""
    H = L.hstrp
    recipe = gen_recipe(rng, rng.choice([2, 3, 4, 6]))
    o1, _values, keep = build_options(recipe)
    t = H.HSTRPPacketType(have_options=True, is_ack=rng.random() < 0.5)
    gens = [gen_rrs, gen_lp, gen_tmp, gen_rcp]
    p1, p2 = rng.choice(gens)(rng).build(), rng.choice(gens)(rng).build()
    fresh = {}

    def fb_of(s):
        if s.payload is None:
            return b""
        if id(s.payload) not in fresh:
            fresh[id(s.payload)] = build_from_tuple(pdu_tuple(s.payload)).as_bytes()
        return fresh[id(s.payload)]

    o3, o4, o5 = H.HSTRPOptions(), H.HSTRPOptions(), H.HSTRPOptions()
    o3.options = o1.options  # another options object, the SAME list object
    o4.options = o1.options[1:] + o1.options[:1]  # another list of the same entry objects: its last entry is o1's first
    o5.options = o1.options[:-1] or o1.options[:]  # … its last entry is one of o1's inner entries
    objs = [
        H.HSTRP(pkt_type=t, sn=pick_int(rng, 65535), options=o1, payload=p1),
        H.HSTRP(pkt_type=t, sn=pick_int(rng, 65535), options=o1, payload=None),  # same packet type object, same options object
        H.HSTRP(pkt_type=H.HSTRPPacketType(have_options=True), sn=pick_int(rng, 65535), options=o3, payload=p2),
        H.HSTRP(pkt_type=H.HSTRPPacketType(have_options=True, is_connect=True), sn=pick_int(rng, 65535), options=o4, payload=p1, version=1),
        H.HSTRP(pkt_type=H.HSTRPPacketType(have_options=True), sn=pick_int(rng, 65535), options=o5, payload=None),
    ]
    if not hstrp_objects_ok(pc, objs, fb_of, "built", pairs):
        return
    for _ in range(rng.choice([2, 3, 5])):
        r = rng.random()
        if r < 0.25:
            c, d = rng.choice(list(H.HSTRPOptionType)), gen_bytes(rng, rng.choice([0, 1, 4]))
            rng.choice([o1, o3]).add_option(c, d)
            note = f"add_option({c.value}, {hx(d)}) through one of the two options objects that share the list"
        elif r < 0.5:
            i = rng.randrange(len(o1.options))
            o1.options.append(o1.options[i])
            note = f"entry {i} of the shared list appended to it once more (the same object)"
        elif r < 0.65:
            i = rng.randrange(len(o4.options))
            o4.options.append(o4.options[i])
            note = f"entry {i} of the rotated list appended to it once more (the same object)"
        elif r < 0.8 and len(o1.options) > 1:
            i = rng.randrange(len(o1.options))
            o1.options.pop(i)
            note = f"entry {i} popped from the shared list"
        else:
            a = rng.choice(["is_ack", "is_reject", "is_close", "is_connect"])
            setattr(t, a, not getattr(t, a))
            note = f"{a} of the shared packet type object flipped"
        if not hstrp_objects_ok(pc, objs, fb_of, note, pairs):
            return


def alias_payload(pc, rng, pairs):
    """one PDU object inside an HRNP packet and two HSTRP packets at once; objects made by one parser nested by hand into
    the other wrapper (HRNP.from_bytes(...).data into HSTRP, HSTRP.from_bytes(...).payload / .options / .pkt_type into new packets)"""
    H, N = L.hstrp, L.hrnp
    gens = [gen_rrs, gen_lp, gen_tmp, gen_rcp]
    c = rng.choice(gens)(rng)
    p = c.build()
    origin = rng.choice(["built", "from-hrnp-parser", "from-hstrp-parser", "hrnp-constructor-given-octets", "deepcopy"])
    opts0 = None
    if origin == "from-hrnp-parser":
        p = N.HRNP.from_bytes(hrnp_for(rng, p).as_bytes()).data
    elif origin == "hrnp-constructor-given-octets":  # HRNP(data=<bytes>) parses them itself
        p = N.HRNP(opcode=N.HRNPOpcodes.DATA, data=p.as_bytes(), packet_number=pick_int(rng, 65535)).data
    elif origin == "deepcopy":
        p = copy.deepcopy(p)
    elif origin == "from-hstrp-parser":
        s0 = H.HSTRP.from_bytes(hstrp_for(rng, p, gen_options(rng, rng.choice([1, 2, 3])), H.HSTRPPacketType(have_options=True)).as_bytes())
        p, opts0 = s0.payload, s0.options
    pc.count("alias:payload-" + origin)
    st = State(p)
    st.h = hrnp_for(rng, p)
    st.s = hstrp_for(rng, p, opts0)
    hstrp_make_consistent(st.s)
    other = hstrp_for(rng, p, opts0)  # a second packet around the same payload (and, when parsed, the same options object)
    hstrp_make_consistent(other)
    if opts0 is not None and rng.random() < 0.6:
        opts0.options.append(opts0.options[0])  # the parser's own entry named again at the end
    exp = [c.expected] if origin == "built" else None
    for i in range(3):
        note = "built" if i == 0 else f"step {i}"
        if i:
            step = mutation(rng, st)
            note = json.dumps(step)
            r = call(apply_step, st, step)
            if isinstance(r, Exc):
                pc.fail("history-step-raises", {"alias": pc.params["kind"], "after": note}, f"step on an in-range object raised {r}", actual=repr(r))
                return
            other.payload = st.p
            exp = None
        if not verify_all(pc, [st], exp, note, pairs):
            return
        tup = safe(pdu_tuple, st.p)
        fb = build_from_tuple(tup).as_bytes()
        n0 = len(pc.failures)
        verify_hstrp_now(pc, other, fb, {"alias": pc.params["kind"], "object": "second HSTRP packet", "after": note, "nesting": "HSTRP", "fields": tup, "service": tup.split(" ")[0]}, True, pairs, tup)
        if len(pc.failures) != n0:
            return


ALIAS_KINDS = {"radio-ip": alias_radio_ip, "settings-dict": alias_settings_dict, "gps": alias_gps, "bytes": alias_bytes,
               "options": alias_options, "payload": alias_payload}


def probe_alias(ctx, params, pairs):
    rng = random.Random(params["seed"])
    pc = ProbeCtx(ctx, "alias", params)
    ctx.count("alias:" + params["kind"])
    ctx.case(("alias", params["kind"], params["seed"]))
    r = call(ALIAS_KINDS[params["kind"]], pc, rng, pairs)
    if isinstance(r, Exc):
        pc.fail("history-step-raises", {"alias": params["kind"]}, f"in-range PDUs that share a sub-object could not be built / observed: {r}", actual=repr(r))


def run_alias(ctx, rng, pairs):
    for _ in range(ctx.budget(8, 60)):
        for kind in ALIAS_KINDS:
            probe_alias(ctx, {"kind": kind, "seed": rng.randrange(2**32)}, pairs)
            if kind == "options":  # the class the identity idiom lives in: twice the share
                probe_alias(ctx, {"kind": kind, "seed": rng.randrange(2**32)}, pairs)


# ---- the call stack ------------------------------------------------------------------------------

DEEP_REMAINING = 100  # frames left below the interpreter's recursion limit; the library needs about a dozen


def at_depth(remaining, fn):
    """fn() called with only `remaining` frames left below the recursion limit (what a handler deep inside an event loop,
    a test runner or a recursive caller gets)"""
    depth, f = 0, sys._getframe()
    while f is not None:
        depth, f = depth + 1, f.f_back
    n = sys.getrecursionlimit() - depth - remaining

    def down(k):
        return fn() if k <= 0 else down(k - 1)

    return down(n)


def deep_compare(pc, inp, label, fn):
    """the same call near the top of the stack and deep inside it"""
    shallow = safe(fn)
    deep = call(at_depth, DEEP_REMAINING, lambda: safe(fn))
    pc.count("deep-stack:compared")
    if deep != shallow:
        pc.fail("deep-stack-differs", dict(inp, stack_remaining=DEEP_REMAINING), f"{label} gives another answer when called {DEEP_REMAINING} frames below the recursion limit",
                expected=shallow, actual=repr(deep) if isinstance(deep, Exc) else deep)
        return False
    return True


# ---- size extremes inside one PDU ----------------------------------------------------------------

MAXP = 65535  # the most a 16-bit length field can say
TMP_HEAD = 12  # request id, destination, source
HRNP_MAXP = MAXP - 12 - 7  # payload of the largest HDAP that fits an HRNP packet


def fill(n, pattern, seed):
    if pattern == "ff":
        return b"\xff" * n
    if pattern == "00":
        return b"\x00" * n
    if pattern == "etx":
        return b"\x03" * n
    if pattern == "7e":
        return b"\x7e" * n
    if pattern == "inc":
        return (bytes(range(256)) * (n // 256 + 1))[:n]
    if pattern == "ascii16":
        return (b"A\x00" * (n // 2 + 1))[:n]
    return random.Random(seed).randbytes(n)


def text_of(n, pattern, seed, as_str):
    """a text of n octets (n even)"""
    if pattern == "nonbmp":
        cps = [0x1F600] * (n // 4) + [0x41] * ((n % 4) // 2)
    elif pattern == "ascii16":
        cps = [0x41] * (n // 2)
    elif pattern == "ff":
        cps = [0xFFFF] * (n // 2)
    elif pattern == "bom":
        cps = [0xFEFF] * (n // 2)
    else:
        cps = spec_utf16le_decode(fill(n, pattern, seed))
    return Text(cps, as_str)


def size_case(r):
    """the PDU of a size recipe, as a Case of specification values"""
    seed = r["seed"]
    rng = random.Random(seed)
    w, n, pat = r["what"], r.get("octets", 0), r.get("pattern", "random")
    T, C = L.tmp, L.rcp
    S, O = T.TMPService, C.RCPOpcode
    rel = rng.random() < 0.5
    if w.startswith("tmp-"):
        kw = dict(is_reliable=rel, is_confirmed=rng.random() < 0.5, request_id=pick_int(rng, 2**32 - 1), destination_ip=gen_ip(rng), source_ip=gen_ip(rng))
        if r.get("option") is not None:
            kw.update(has_option=True, option_data=fill(r["option"], r.get("option_pattern", "random"), seed + 1))
        if w == "tmp-text":
            kw.update(opcode=S.SendGroupMessage if r.get("group") else S.SendPrivateMessage, text_data=text_of(n, pat, seed, r.get("as") == "str"))
        else:
            kw.update(opcode=S.GroupShortData if r.get("group") else S.PrivateShortData, short_data=fill(n, pat, seed))
        return Case("TMP", kw)
    if w == "rcp-unknown":
        return Case("RCP", dict(opcode=O.UnknownService, is_reliable=rel, raw_opcode=gen_raw_opcode(rng), raw_payload=fill(n, pat, seed)))
    if w == "rcp-zone-reply":
        return Case("RCP", dict(opcode=O.ZoneAndChannelOperationReply, is_reliable=rel, raw_payload=fill(n, pat, seed)))
    if w == "rcp-bcast-config":
        return Case("RCP", dict(opcode=O.BroadcastStatusConfigurationRequest, is_reliable=rel, broadcast_config_raw=bytes([r["n"]]) + fill(2 * r["n"], pat, seed)))
    if w == "rcp-talker-alias":
        return Case("RCP", dict(opcode=O.SendTalkerAliasRequest, is_reliable=rel, call_type=rng.choice(list(C.RCPCallType)), sender_id=pick_int(rng, 2**32 - 1),
                                target_id=pick_int(rng, 2**32 - 1), talker_alias_format=rng.choice(list(L.TAF)), talker_alias_data=fill(n, pat, seed)))
    if w == "rcp-status-all":
        targets = list(C.StatusChangeNotificationTargets)
        if r.get("order") == "reverse":
            targets.reverse()
        elif r.get("order") == "shuffled":
            rng.shuffle(targets)
        return Case("RCP", dict(opcode=O.StatusChangeNotificationRequest, is_reliable=rel,
                                status_change_settings={t: rng.choice(list(C.StatusChangeNotificationSetting)) for t in targets}))
    raise ValueError("unknown size recipe " + w)


def chain_values(r):
    """the option chain of a size recipe: k options, data length fixed / natural / mixed"""
    H = L.hstrp
    rng = random.Random(r["seed"])
    types = list(H.HSTRPOptionType)
    out = []
    dl = r.get("data_len", 0)
    for i in range(r["k"]):
        c = types[i % len(types)] if r.get("cmd") != "rtp" else H.HSTRPOptionType.RTP
        if dl == "natural":
            n = {H.HSTRPOptionType.RTP: 0, H.HSTRPOptionType.DeviceID: 4}.get(c, 1)
        elif dl == "mixed":
            n = rng.choice([0, 0, 1, 4, 127, 128, 255])
        else:
            n = dl
        out.append((c, bytes([(i + j) & 0xFF for j in range(n)]) if n else b""))
    return out


def probe_size(ctx, params, pairs):
    r = params
    rng = random.Random(r["seed"])
    pc = ProbeCtx(ctx, "size", params)
    ctx.count("size:" + r["what"])
    ctx.case(("size", json.dumps(r, sort_keys=True)))
    H = L.hstrp
    if r["what"] == "option-data-over":
        # not in range: the length octet cannot say 256.  Refusing is fine, a chain that reads back as something else is not
        values = [(H.HSTRPOptionType.DeviceID, b"\x01\x02\x03\x04"), (H.HSTRPOptionType.ChannelID, fill(r["octets"], r.get("pattern", "random"), r["seed"])), (H.HSTRPOptionType.RTP, b"")]
        o = H.HSTRPOptions()
        for c, d in values:
            o.add_option(c, d)
        ob = call(o.as_bytes)
        ctx.count("size:over-limit-refused" if isinstance(ob, Exc) else "size:over-limit-serialised")
        if not isinstance(ob, Exc):
            w = call(spec_walk_options, ob)
            if isinstance(w, Exc) or w[0] != [(c.value, d) for c, d in values]:
                pc.fail("hstrp-options", {"nesting": "HSTRP", "hstrp": {"options": f"option data of {r['octets']} octets"}, "fields": "NONE", "service": "-"},
                        "option data longer than 255 octets was serialised; the chain does not read back as the list", expected="an exception", actual=abbr(ob.hex()))
        return
    if r["what"] == "options":
        values = chain_values(r)
        o = H.HSTRPOptions()
        if r.get("filled-by") == "assign":
            o.options = list(values)
        else:
            for c, d in values:
                o.add_option(c, d)
        p = b = None
        if r.get("payload"):
            p = gen_rrs(rng).build()
            b = p.as_bytes()
        base = {"fields": "NONE" if p is None else safe(pdu_tuple, p), "service": "-" if p is None else "RRS"}
        hs = {"options": f"{r['k']} options, data {r.get('data_len', 0)}"}
        ctx.count("size:option-chain-" + ("<1000" if r["k"] < 990 else "1000.." if r["k"] < 10000 else ">=10000"))
        if not check_options_alone(pc, o, values, dict(base, nesting="HSTRP", hstrp=hs)):
            return
        big = pairs if r.get("correspond", True) else None
        sb = check_hstrp(pc, rng, p, b, base, big, opts=o, spec=values)
        tlv = spec_tlv([(c.value, d) for c, d in values])
        if big is not None:
            big.append((f"opts.parse {hx(tlv)}", impl_opts_parse(tlv)))
        if r.get("deep") and sb is not None:
            inp = dict(base, nesting="HSTRP", hstrp=hs)
            deep_compare(pc, inp, "HSTRPOptions.as_bytes / len", lambda: hx(o.as_bytes()) + " " + str(len(o)))
            deep_compare(pc, inp, "HSTRPOptions.from_bytes", lambda: impl_opts_parse(tlv))
            deep_compare(pc, inp, "HSTRP.from_bytes + as_bytes", lambda: impl_hstrp_parse(sb))
        return
    c = size_case(r)
    over = r.get("over")  # "hdap": the payload is longer than the length field can say; "hrnp": the HDAP does not fit an HRNP packet
    p = call(c.build)
    if isinstance(p, Exc):
        if over != "hdap":
            pc.fail("construct-raises", {"service": c.svc}, f"constructing an in-range {c.svc} PDU raised {p}", actual=repr(p))
        return
    inp = input_of(p, case=c)
    if over == "hdap":
        # not in range: the frame cannot say this length.  Refusing is fine, a frame with another length in it is not
        b = call(p.as_bytes)
        ctx.count("size:over-limit-refused" if isinstance(b, Exc) else "size:over-limit-serialised")
        if not isinstance(b, Exc):
            n = int.from_bytes(b[3:5], "little" if c.svc in LITTLE else "big")
            pc.fail("frame-length-field", inp, "a payload longer than 65535 octets was serialised; the length field cannot be the payload length", expected=len(b) - 7, actual=n)
        return
    check_built(pc, p, inp)
    b = check_frame(pc, p, inp)
    if b is None:
        return
    ctx.count("size:payload-" + ("65535" if len(b) - 7 == MAXP else ">=32768" if len(b) - 7 >= 32768 else ">=4096" if len(b) - 7 >= 4096 else "<4096"))
    check_roundtrip(pc, p, b, inp)
    big = pairs if r.get("correspond", True) else None
    if big is not None:
        big.append(("hdap.mk " + inp["fields"], hx(b) + " " + str(call(len, p))))
        big.append(("hdap.parse " + hx(b), impl_hdap_parse(b)))
        if c.text is not None:
            big.append(text_pair(c.text))
    if len(b) + 12 <= MAXP:
        if len(b) + 12 >= MAXP - 1:
            ctx.count("size:hrnp-at-16-bit-limit")
        check_hrnp(pc, rng, p, b, inp, big)
    else:
        # the HRNP length field cannot say 12 + len(HDAP): refusing is fine, a packet with another length in it is not
        h = call(hrnp_for, rng, p)
        hb = call(h.as_bytes) if not isinstance(h, Exc) else h
        ctx.count("size:hrnp-over-limit-refused" if isinstance(hb, Exc) else "size:hrnp-over-limit-serialised")
        if not isinstance(hb, Exc):
            pc.fail("hrnp-length", dict(inp, nesting="HRNP"), "an HDAP of more than 65523 octets was wrapped in HRNP; the length field cannot be the packet length",
                    expected=12 + len(b), actual=int.from_bytes(hb[8:10], "big"))
    sb = check_hstrp(pc, rng, p, b, inp, big, k=r.get("hstrp_k", rng.choice([0, 1, 2, 3])))
    if r.get("deep"):
        deep_compare(pc, inp, "as_bytes / len", lambda: bytes_len(p))
        deep_compare(pc, inp, "HDAP.from_bytes + as_bytes", lambda: impl_hdap_parse(b))
        deep_compare(pc, inp, "constructor", lambda: bytes_len(c.build()))
        if sb is not None:
            deep_compare(pc, dict(inp, nesting="HSTRP"), "HSTRP.from_bytes + as_bytes", lambda: impl_hstrp_parse(sb))
        if len(b) + 12 <= MAXP:
            h = hrnp_for(rng, p)
            deep_compare(pc, dict(inp, nesting="HRNP"), "HRNP.as_bytes + from_bytes", lambda: impl_hrnp_parse(h.as_bytes()))


def size_recipes(ctx, rng):
    """the fixed list of extremes (quick) plus, thorough, the neighbours of every threshold"""
    R = []
    add = lambda **kw: R.append(dict(kw, seed=rng.randrange(2**32)))  # noqa
    oracle_only = {} if ctx.thorough() else {"correspond": False}  # quick: the model answers about half of the 64 kB packets
    tmax = MAXP - TMP_HEAD  # 65523: most octets of text / short data without option data
    hmax = HRNP_MAXP - TMP_HEAD  # 65504: … that still fit an HRNP packet
    # TMP text / short data / option data at the limits of the HDAP and of the HRNP length field
    add(what="tmp-text", octets=tmax - 1, pattern="ff", deep=True)
    add(what="tmp-text", octets=tmax - 1, pattern="nonbmp", **{"as": "str"}, **oracle_only)
    add(what="tmp-text", octets=hmax, pattern="ascii16", **{"as": "str"}, group=True)
    add(what="tmp-text", octets=hmax, pattern="ff", hstrp_k=255)
    add(what="tmp-text", octets=hmax - 2, pattern="random", **oracle_only)
    add(what="tmp-short", octets=tmax, pattern="random")
    add(what="tmp-short", octets=hmax - 1, pattern="etx", group=True, **oracle_only)
    add(what="tmp-text", octets=40, pattern="bom", option=MAXP - TMP_HEAD - 2 - 40, option_pattern="inc")
    add(what="tmp-text", octets=32768, pattern="random", option=MAXP - TMP_HEAD - 2 - 32768, option_pattern="ff")
    add(what="tmp-short", octets=0, option=hmax - 2, option_pattern="00", **oracle_only)
    # RCP raw payloads, counted lists at the most their count octet can say
    add(what="rcp-unknown", octets=MAXP, pattern="etx", deep=True)
    add(what="rcp-unknown", octets=HRNP_MAXP, pattern="ff")
    add(what="rcp-zone-reply", octets=MAXP, pattern="inc")
    add(what="rcp-zone-reply", octets=HRNP_MAXP - 1, pattern="random", **oracle_only)
    add(what="rcp-bcast-config", n=255, pattern="random")
    add(what="rcp-bcast-config", n=128, pattern="ff")
    add(what="rcp-talker-alias", octets=255, pattern="ff")
    add(what="rcp-status-all", order=rng.choice(["forward", "reverse", "shuffled"]))
    # one past the limits: refuse or be right
    add(what="tmp-text", octets=tmax + 1, pattern="ascii16", over="hdap")
    add(what="rcp-unknown", octets=MAXP + 1, pattern="00", over="hdap")
    add(what="rcp-unknown", octets=HRNP_MAXP + 1, pattern="random", over="hrnp", **oracle_only)
    add(what="option-data-over", octets=256, pattern="random")
    add(what="option-data-over", octets=rng.choice([257, 384, 511, 512, 65536]), pattern="ff")
    # thresholds a shortcut may have inside (one octet, signed 16 bit, 4 k buffers)
    for n in (255, 256, 4095, 4096, 32767, 32768):
        add(what=rng.choice(["rcp-unknown", "rcp-zone-reply", "tmp-short"]), octets=n, pattern=rng.choice(["random", "ff", "etx"]))
    # option chains inside ONE packet: counters, the interpreter's recursion limit, a full datagram
    add(what="options", k=128, data_len=0)
    add(what="options", k=256, data_len="natural", payload=True)
    add(what="options", k=1000, data_len=0, deep=True)
    add(what="options", k=1000, data_len="natural", payload=True, **{"filled-by": "assign"})
    add(what="options", k=5000, data_len=0, payload=True)
    add(what="options", k=20000, data_len=0, deep=True)
    add(what="options", k=32760, data_len=0, cmd="rtp")  # 65 520 octets of options: what one UDP datagram can carry
    add(what="options", k=255, data_len=255)  # every option at the most its length octet can say
    add(what="options", k=600, data_len="mixed", payload=True)
    add(what="options", k=90, data_len="natural", deep=True, payload=True)  # short chain, deep stack
    if ctx.thorough():
        for n in (tmax - 3, tmax - 5, hmax - 4, 65536 // 2 - 2, 65536 // 2 + 2, 16384, 49152):
            add(what="tmp-text", octets=n, pattern=rng.choice(["random", "nonbmp", "ff", "bom"]), **{"as": rng.choice(["str", "octets"])}, deep=rng.random() < 0.3)
        for n in (MAXP - 1, MAXP - 2, HRNP_MAXP - 1, HRNP_MAXP - 2, 257, 1023, 1024, 16383, 16384, 49151, 65279, 65280):
            add(what=rng.choice(["rcp-unknown", "rcp-zone-reply"]), octets=n, pattern=rng.choice(["random", "ff", "00", "etx", "7e", "inc"]))
            add(what="tmp-short", octets=min(n, tmax), pattern="random", group=rng.random() < 0.5)
        for n in (0, 1, 127, 129, 254):
            add(what="rcp-bcast-config", n=n, pattern="random")
        for k in (127, 129, 255, 257, 990, 999, 1001, 1024, 2000, 4096, 10000, 32767, 32768, 40000, 65535, 65536, 70000):
            add(what="options", k=k, data_len=rng.choice([0, 0, "natural"]), payload=rng.random() < 0.5, deep=rng.random() < 0.3, **{"filled-by": rng.choice(["add_option", "assign"])})
        for k, dl in ((2000, 30), (500, 128), (257, 255), (3000, "mixed")):
            add(what="options", k=k, data_len=dl, payload=True)
    return R


def run_sizes(ctx, rng, pairs):
    for r in size_recipes(ctx, rng):
        x = call(probe_size, ctx, r, pairs)
        if isinstance(x, Exc):
            ctx.fail("serialise-raises", {"probe": "size", "params": r}, f"a PDU at a size extreme could not be built / serialised / parsed: {x}", actual=repr(x))


# ---- ambient interpreter / process state ---------------------------------------------------------


def ambient_items(rng, n):
    """a fixed sample: field tuples with the wrappers' own fields (everything json-able: the child process gets the same)"""
    gens = [gen_rrs, gen_lp, gen_tmp, gen_rcp]
    out = []
    while len(out) < n:
        c = gens[len(out) % 4](rng)
        t = safe(c.expected)
        if t.startswith("ERR"):
            continue
        k = rng.choice([0, 1, 2, 3, 3, 40, 120])
        ty = gen_pkt_type(rng, k, True)
        out.append({"fields": t, "text_as": "str" if (c.text is not None and c.text.as_str) else "octets",
                    "hrnp": [pick_int(rng, 255), pick_int(rng, 255), pick_int(rng, 255), pick_int(rng, 65535)],
                    "hstrp": {"type": ty.as_bytes()[0], "sn": pick_int(rng, 65535), "version": rng.choice([0, 1, 255]),
                              "options": [[c2.value, d.hex()] for c2, d in gen_option_list(rng, k)]}})
    return out


def eval_item(it):
    """canonical answers of the real code for one item: build, serialise, parse, the same inside HRNP and HSTRP"""
    H, N = L.hstrp, L.hrnp
    out = []
    p = call(build_from_tuple, it["fields"], it["text_as"])
    if isinstance(p, Exc):
        return [repr(p)]
    out.append(safe(pdu_tuple, p) + " => " + bytes_len(p))
    b = call(p.as_bytes)
    if isinstance(b, Exc):
        return out
    out.append(impl_hdap_parse(b))

    def hrnp():
        src, dst, blk, pn = it["hrnp"]
        h = N.HRNP(opcode=N.HRNPOpcodes.DATA, data=p, source=src, destination=dst, block_number=blk, packet_number=pn)
        hb = h.as_bytes()
        return hx(hb) + " " + str(len(h)) + " | " + impl_hrnp_parse(hb)

    def hstrp():
        o = H.HSTRPOptions()
        for c, d in it["hstrp"]["options"]:
            o.add_option(member(H.HSTRPOptionType, c), bytes.fromhex(d))
        s = H.HSTRP(pkt_type=H.HSTRPPacketType.from_bytes(bytes([it["hstrp"]["type"]])), sn=it["hstrp"]["sn"], options=o, payload=p, version=it["hstrp"]["version"])
        sb = s.as_bytes()
        return hx(sb) + " " + str(len(o)) + " | " + impl_hstrp_parse(sb)

    out.append(safe(hrnp))
    out.append(safe(hstrp))
    return out


class _Broken:
    """a standard stream whose reader went away"""

    encoding, errors, closed = "utf-8", "strict", False

    def _fail(self, *a, **k):
        raise OSError(32, "Broken pipe")

    write = writelines = flush = _fail

    def isatty(self):
        return False

    def fileno(self):
        raise OSError(9, "Bad file descriptor")


class _Formatting(logging.Handler):
    """what a configured application has: every record is formatted (lazily formatted arguments are consumed); the text goes nowhere"""

    def emit(self, record):
        try:
            record.getMessage()
        except Exception:  # noqa  (a real handler reports the formatting error on stderr and goes on)
            pass


GARBAGE = [b"", b"\x00", b"2B", b"2B\x00\x20\x00\x01\x83", b"\x7e\x04\x00\x00", b"\x7e\x04\x00\x00\x20\x10\x00\x00\xff\xff\x00\x00", b"\x09\x00\xa1\x00", b"\x02\x41\x08",
           b"\x08\xa0\x02\x00\x32" + b"\x00" * 10, b"\x11\x00\x80\x00\x09\x0a", b"\x55" * 9, b"2B\x00\x20\x00\x01" + b"\x81\x00" * 5, b"\x91\x00\x80\x00\x09\x0a\x00\x00\x50\x00\x00\x00\x00\x00\x31\x03"]


def failing_calls(rng):
    """calls that raise (wrong lengths / values / types): whatever they leave behind must not change the next valid call"""
    H, N = L.hstrp, L.hrnp
    g = rng.choice(GARBAGE)
    for f in (L.hdap.HDAP.from_bytes, N.HRNP.from_bytes, H.HSTRP.from_bytes, H.HSTRPOptions.from_bytes, L.RadioIP.from_bytes, L.lp.GPSData.from_bytes):
        call(f, g)
    call(L.rrs.RadioRegistrationService, opcode=L.rrs.RRSTypes.RadioRegistrationAnswer, radio_ip=L.RadioIP(radio_id=1), renew_time_seconds=0)
    call(L.tmp.TextMessageProtocol(opcode=L.tmp.TMPService.SendPrivateMessage).as_bytes)  # no addresses: AttributeError
    call(L.rcp.RadioControlProtocol(opcode=L.rcp.RCPOpcode.RadioIDAndRadioIPQueryReply, raw_value=b"\x01").as_bytes)
    call(L.rcp.RadioControlProtocol(opcode=L.rcp.RCPOpcode.CallRequest, target_id=2**32).as_bytes)
    call(N.HRNP(opcode=N.HRNPOpcodes.DATA, data=None).as_bytes)
    o = H.HSTRPOptions()
    o.options = [(H.HSTRPOptionType.RTP, b"\x00" * 256)]
    call(o.as_bytes)
    call(H.HSTRP(pkt_type=H.HSTRPPacketType(), sn=70000).as_bytes)


def ambient_setting(name):
    """context manager of one ambient setting"""
    import contextlib

    @contextlib.contextmanager
    def logging_and_streams():
        root = logging.getLogger()
        names = [n for n in list(logging.root.manager.loggerDict) if n.startswith("okdmr") or n in ("HDAP", "HSTRP", "LocationProtocol", "RadioControlProtocol", "TextMessageProtocol", "RadioRegistrationService")]
        saved = (root.level, list(root.handlers), logging.root.manager.disable, [(n, logging.getLogger(n).level) for n in names], sys.stdout, sys.stderr)
        h = _Formatting()
        try:
            logging.disable(logging.NOTSET)
            root.setLevel(logging.DEBUG)
            root.addHandler(h)
            for n in names:
                logging.getLogger(n).setLevel(logging.DEBUG)
            sys.stdout = sys.stderr = _Broken()
            yield
        finally:
            sys.stdout, sys.stderr = saved[4], saved[5]
            root.setLevel(saved[0])
            root.handlers[:] = saved[1]
            logging.disable(saved[2])
            for n, lv in saved[3]:
                logging.getLogger(n).setLevel(lv)

    @contextlib.contextmanager
    def nothing():
        yield

    return logging_and_streams() if name == "logging-debug+dead-stdout-stderr" else nothing()


AMBIENT = ("deep-stack", "logging-debug+dead-stdout-stderr", "failing-calls-in-between", "random-reseeded")


def eval_under(name, items, frng):
    """the items answered under one in-process ambient setting (everything restored afterwards)"""
    state = random.getstate()
    got = []
    try:
        with ambient_setting(name):
            for i, it in enumerate(items):
                if name == "deep-stack":
                    got.append(call(at_depth, DEEP_REMAINING, lambda: eval_item(it)))
                    continue
                if name == "failing-calls-in-between":
                    call(failing_calls, frng)
                elif name == "random-reseeded":
                    random.seed(i % 3)
                got.append(eval_item(it))
    finally:
        random.setstate(state)
    return got


def run_ambient(ctx, rng):
    items = ambient_items(rng, ctx.budget(160, 800))
    base = [eval_item(it) for it in items]
    child = child_start(items)
    fseed = rng.randrange(2**32)
    for name in AMBIENT:
        ambient_compare(ctx, name, items, base, eval_under(name, items, random.Random(fseed)), fseed)
    ambient_compare(ctx, CHILD, items, base, child_result(child), fseed)


CHILD = "child python -O"


def ambient_compare(ctx, name, items, base, got, fseed):
    ctx.count("ambient:" + name, len(items))
    bad = 0
    for it, a, b in zip(items, base, got):
        if a != b and bad < 3:
            bad += 1
            which = next((i for i, (x, y) in enumerate(zip(a, b)) if x != y), len(a)) if isinstance(b, list) else 0
            ctx.fail("ambient-dependent-result", {"probe": "ambient", "params": {"setting": name, "item": it, "fseed": fseed}, "ambient": name, "fields": abbr(it["fields"]), "service": it["fields"].split(" ")[0],
                                                  "layer": ["build+serialise", "parse", "HRNP", "HSTRP"][min(which, 3)]},
                     f"the same PDU gives another answer under [{name}]", expected=abbr(a[which] if which < len(a) else a), actual=abbr(b[which] if isinstance(b, list) and which < len(b) else repr(b)))


HARNESS_DIR = os.path.dirname(os.path.dirname(os.path.abspath(__file__)))


def child_start(items):
    """ONE child interpreter `python -O` (asserts stripped, __debug__ False) answers the same items; job and answer travel in files"""
    d = tempfile.mkdtemp(prefix="verif-c12-child-")
    with open(os.path.join(d, "job.json"), "w") as fh:
        json.dump({"items": items}, fh)
    env = dict(os.environ)
    env.pop("PYTHONOPTIMIZE", None)
    env["PYTHONDONTWRITEBYTECODE"] = "1"  # no *.opt-1.pyc next to the sources under test
    env["PYTHONHASHSEED"] = "4242"
    code = f"import sys; sys.path.insert(0, {HARNESS_DIR!r}); import props.c12 as m; sys.exit(m.child_main(sys.argv[1]))"
    err = open(os.path.join(d, "stderr"), "w")
    p = subprocess.Popen([sys.executable, "-O", "-c", code, d], stdin=subprocess.DEVNULL, stdout=subprocess.DEVNULL, stderr=err, env=env, cwd=HARNESS_DIR)
    return {"dir": d, "proc": p, "err": err, "n": len(items)}


def child_main(d):
    with open(os.path.join(d, "job.json")) as fh:
        job = json.load(fh)
    load()
    frng = random.Random(0)
    for _ in range(len(GARBAGE) * 2):  # the FIRST calls this interpreter makes on the classes are failing ones
        call(failing_calls, frng)
    out = {"optimize": sys.flags.optimize, "answers": [eval_item(it) for it in job["items"]]}
    with open(os.path.join(d, "answer.json.tmp"), "w") as fh:
        json.dump(out, fh)
    os.replace(os.path.join(d, "answer.json.tmp"), os.path.join(d, "answer.json"))
    return 0


def child_result(ch):
    import shutil

    from common import Infra

    try:
        try:
            rc = ch["proc"].wait(timeout=300)
        except subprocess.TimeoutExpired:
            ch["proc"].kill()
            raise Infra("the python -O child of the C12 check did not answer within 300 s")
        ch["err"].close()
        try:
            with open(os.path.join(ch["dir"], "answer.json")) as fh:
                ans = json.load(fh)
        except (OSError, ValueError):
            tail = open(os.path.join(ch["dir"], "stderr")).read()[-600:]
            raise Infra(f"the python -O child of the C12 check gave no answer (rc={rc}): {tail}")
        if ans.get("optimize") != 1 or len(ans["answers"]) != ch["n"]:
            raise Infra("the python -O child of the C12 check did not run optimised / answered another number of items")
        return ans["answers"]
    finally:
        shutil.rmtree(ch["dir"], ignore_errors=True)


# ------------------------------------------------------------------------------------------------
# round 4 — the same field value handed over as another Python type / shape (argtype:*)
#
# Every constructor argument has a KIND (what the signature says it takes); every kind has FORMS: other Python objects that denote the
# same serialised value —
#   * objects that carry MORE than is serialised: datetime.time with microseconds / tzinfo / fold, a datetime (date + time of day, naive
#     or aware) where a date is expected;
#   * subclasses: of time / date / datetime / float / int (IntEnum, bool, a plain subclass) / str / bytes / dict (OrderedDict,
#     defaultdict) / RadioIP, numpy.float64 (a float), numpy.bool_ for a flag;
#   * the other member of a Union the signature names: octets for Union[bytes, X] (time, date, coordinates, speed, direction, request id,
#     radio ip, result, opcode, GPS record, RCP ids, HRNP version / header / data), the bare int for Union[int, Enum];
#   * numbers of the other numeric types for a float on the 10^-4 grid: int, Decimal, Fraction, numpy.float32 (when exact);
#   * other buffer types for opaque octets: bytearray, memoryview;
#   * a RadioIP made by another path of the library (id as octets, from_ip, from_bytes little-endian).
# One probe = one PDU (field tuple) + a list of (path, form) substitutions (+ substitutions in the HRNP / HSTRP wrapper arguments); the PDU
# built from the substituted arguments must serialise to the octets of the PDU built from the plain values, report that length, parse back
# to the same fields, and nest in HRNP / HSTRP to the packets written out by hand.  The GPS argument forms are also answered by the model
# (`arg.gps` lines: Model/Hdap.lean TimeArg / DateArg / NumArg, theorems in Props/C12d.lean).


class NotApplicable(Exception):
    pass


class TimeSub(time):
    pass


class DateSub(date):
    pass


class DateTimeSub(datetime):
    pass


class FloatSub(float):
    pass


class IntSub(int):
    pass


class StrSub(str):
    pass


class BytesSub(bytes):
    pass


class DictSub(dict):
    pass


def tz_of(minutes):
    return None if minutes is None else timezone(timedelta(minutes=minutes))


def rich_time(t, r):
    """the same wall-clock h:m:s as an object that carries more: microseconds, a UTC offset, fold, a subclass"""
    cls = TimeSub if r.get("sub") else time
    return cls(t.hour, t.minute, t.second, r.get("us", 0), tzinfo=tz_of(r.get("tz")), fold=r.get("fold", 0))


def rich_date(d, r):
    """the same calendar day as a datetime (time of day, microseconds, UTC offset) or a subclass of date"""
    if r.get("tod") is None:
        return DateSub(d.year, d.month, d.day) if r.get("sub") else d
    h, m, s, us = r["tod"]
    return (DateTimeSub if r.get("sub") else datetime)(d.year, d.month, d.day, h, m, s, us, tzinfo=tz_of(r.get("tz")), fold=r.get("fold", 0))


TZ_MINUTES = [0, 60, -60, 330, -480, 840, -720, 1, -1, 1439, -1439, 345]
MICROS = [1, 999999, 500000, 100000, 999, 1000]


def gen_rich_time(rng):
    r = {}
    k = rng.random()
    if k < 0.55:
        r["us"] = rng.choice(MICROS + [rng.randrange(1, 10**6)])
    if k > 0.4:
        r["tz"] = rng.choice(TZ_MINUTES)
    if rng.random() < 0.15:
        r["fold"] = 1
    if rng.random() < 0.15:
        r["sub"] = True
    return r or {"us": 1}


def gen_rich_date(rng):
    r = {"tod": [rng.choice([0, 23, rng.randrange(24)]), rng.choice([0, 59, rng.randrange(60)]), rng.choice([0, 59, rng.randrange(60)]), rng.choice([0] + MICROS)]}
    if rng.random() < 0.4:
        r["tz"] = rng.choice(TZ_MINUTES)
    if rng.random() < 0.2:
        r["sub"] = True
    if rng.random() < 0.15:
        r = {"sub": True}
    return r


def gen_rich(rng, gps):
    """a rich descriptor for the time / date a Gps specification value holds (None when it holds neither)"""
    r = {}
    if gps.d["tm"] is not None and rng.random() < 0.8:
        r["time"] = gen_rich_time(rng)
    if gps.d["dt"] is not None and (not r or rng.random() < 0.4):
        r["date"] = gen_rich_date(rng)
    return r or None


def np():
    try:
        import numpy  # noqa
        return numpy
    except Exception:  # noqa
        raise NotApplicable("numpy is not installed")


def int_enum(v):
    return enum.IntEnum("Code", {"V": v}).V


def need(cond):
    if not cond:
        raise NotApplicable()


def ascii_num(v, width_fmt):
    return format(v, width_fmt).encode("ascii")


def int_forms(octets=None):
    """forms of an int argument; octets = (width, byteorder) when the signature also takes bytes"""
    f = {
        "bool": lambda v, rng: (need(v in (0, 1)), bool(v))[1],
        "IntEnum": lambda v, rng: int_enum(v),
        "int-subclass": lambda v, rng: IntSub(v),
    }
    if octets:
        f["octets"] = lambda v, rng: v.to_bytes(octets[0], octets[1])
        f["octets-subclass"] = lambda v, rng: BytesSub(v.to_bytes(octets[0], octets[1]))
    return f


def enum_int_forms(octets=None):
    """a member where Union[int, Enum] / Union[bytes, Enum] is accepted: the bare value"""
    f = {}
    if octets:
        f["octets"] = lambda m, rng: ev(m).to_bytes(octets[0], octets[1])
    else:
        f["int-value"] = lambda m, rng: ev(m)
        f["IntEnum-value"] = lambda m, rng: int_enum(ev(m))
        f["bool-value"] = lambda m, rng: (need(ev(m) in (0, 1)), bool(ev(m)))[1]
    return f


def coord_forms(fmt):
    def exact32(v, rng):
        x = np().float32(v)
        need(float(x) == v)
        return x

    return {
        "int": lambda v, rng: (need(float(v).is_integer()), int(v))[1],
        "bool": lambda v, rng: (need(v in (0.0, 1.0)), bool(v))[1],
        "numpy.float64": lambda v, rng: np().float64(v),
        "numpy.float32-exact": exact32,
        "float-subclass": lambda v, rng: FloatSub(v),
        "Decimal": lambda v, rng: decimal.Decimal(round(v * 10000)) / 10000,
        "Fraction": lambda v, rng: fractions.Fraction(round(v * 10000), 10000),
        "octets": lambda v, rng: ascii_num(v, fmt),
        "octets-unpadded": lambda v, rng: ascii_num(v, ".4f"),
    }


def time_form(**r):
    return lambda v, rng: (need(isinstance(v, time)), rich_time(v, {k: (x(rng) if callable(x) else x) for k, x in r.items()}))[1]


def date_form(**r):
    return lambda v, rng: (need(isinstance(v, date)), rich_date(v, {k: (x(rng) if callable(x) else x) for k, x in r.items()}))[1]


_us = lambda rng: rng.choice(MICROS + [rng.randrange(1, 10**6)])  # noqa
_tz = lambda rng: rng.choice(TZ_MINUTES)  # noqa
_tod = lambda rng: [rng.randrange(24), rng.randrange(60), rng.randrange(60), rng.choice([0] + MICROS)]  # noqa

FORMS = {
    "flag": {"int": lambda v, rng: int(v), "numpy.bool_": lambda v, rng: np().bool_(v)},
    "int": int_forms(),
    "int|be4": int_forms((4, "big")),
    "int|be3": int_forms((3, "big")),
    "int|be2": int_forms((2, "big")),
    "int|le4": int_forms((4, "little")),
    "int|bytes1": int_forms((1, "big")),
    "enum|int": enum_int_forms(),
    "enum|be2": enum_int_forms((2, "big")),
    "lit": {"str-subclass": lambda v, rng: StrSub(v)},
    "time": {
        "microsecond-1": time_form(us=1), "microsecond-999999": time_form(us=999999), "microsecond": time_form(us=_us),
        "tz-utc": time_form(tz=0), "tz-offset": time_form(tz=_tz), "tz-offset+microsecond": time_form(tz=_tz, us=_us),
        "fold": time_form(fold=1), "fold+microsecond": time_form(fold=1, us=_us), "subclass": time_form(sub=True), "subclass+microsecond+tz": time_form(sub=True, us=_us, tz=_tz),
        "from-datetime.time()": lambda v, rng: (need(isinstance(v, time)), datetime(2024, 2, 29, v.hour, v.minute, v.second, _us(rng), tzinfo=tz_of(_tz(rng))).time())[1],
        "from-datetime.timetz()": lambda v, rng: (need(isinstance(v, time)), datetime(2024, 2, 29, v.hour, v.minute, v.second, _us(rng), tzinfo=tz_of(_tz(rng))).timetz())[1],
        "octets": lambda v, rng: (need(isinstance(v, time)), v.strftime("%H%M%S").encode("ascii"))[1] if isinstance(v, time) else BytesSub(v),
    },
    "date": {
        "datetime": date_form(tod=_tod), "datetime-aware": date_form(tod=_tod, tz=_tz), "datetime-midnight": date_form(tod=[0, 0, 0, 0]), "datetime-23:59:59.999999": date_form(tod=[23, 59, 59, 999999]),
        "subclass": date_form(sub=True), "datetime-subclass": date_form(tod=_tod, sub=True),
        "octets": lambda v, rng: ("%02d%02d%02d" % (v.day, v.month, v.year - 2000)).encode("ascii") if isinstance(v, date) else BytesSub(v),
    },
    "lat": coord_forms("09.4f"),
    "lon": coord_forms("010.4f"),
    "speed": {
        "numpy.float64": lambda v, rng: np().float64(v), "float-subclass": lambda v, rng: FloatSub(v),
        "octets": lambda v, rng: b"\x00\x00\x00" if v <= 0 else (need(len(format(v, "03")) == 3), format(v, "03").encode("ascii"))[1],
    },
    "dir": dict(int_forms(), octets=lambda v, rng: b"\x00\x00\x00" if v == 0 else (need(v < 1000), b"%03d" % v)[1]),
    "text": {"subclass": lambda v, rng: StrSub(v) if isinstance(v, str) else BytesSub(v)},
    "blob": {"bytes-subclass": lambda v, rng: (need(v is not None), BytesSub(v))[1], "bytearray": lambda v, rng: (need(v is not None), bytearray(v))[1],
             "memoryview": lambda v, rng: (need(v is not None), memoryview(bytes(v)))[1]},
    "dict": {"OrderedDict": lambda v, rng: collections.OrderedDict(v.items()), "dict-subclass": lambda v, rng: DictSub(v),
             "defaultdict": lambda v, rng: collections.defaultdict(lambda: None, v)},
    "class": {"subclass": lambda v, rng: "subclass"},
}


def ip_octets(d):
    return bytes([d["subnet"]]) + d["radio_id"].to_bytes(3, "big")


def ip_forms(with_octets):
    class IPSub(L.RadioIP):
        pass

    f = {
        "subclass": lambda d, rng: IPSub(radio_id=d["radio_id"], subnet=d["subnet"]),
        "id-as-octets": lambda d, rng: L.RadioIP(radio_id=ip_octets(d)[1:], subnet=d["subnet"]),
        "from_bytes": lambda d, rng: L.RadioIP.from_bytes(ip_octets(d)),
        "from_bytes-little": lambda d, rng: L.RadioIP.from_bytes(ip_octets(d)[::-1], endian="little"),
        "from_ip": lambda d, rng: L.RadioIP.from_ip(".".join(str(x) for x in ip_octets(d))),
    }
    if with_octets:
        f["octets"] = lambda d, rng: ip_octets(d)
        f["octets-subclass"] = lambda d, rng: BytesSub(ip_octets(d))
    return f


def gps_record(g) -> bytes:
    """the 40-octet record of plain GPS arguments, written out by hand (NotApplicable when a field does not fit its width)"""
    tm, dt = g["greenwich_time"], g["greenwich_date"]
    lat, lon, sp, di = round(g["latitude"] * 10000), round(g["longitude"] * 10000), g["speed_knots"], g["direction"]
    need(lat < 10**8 and lon < 10**9 and di < 1000)
    spd = b"\x00\x00\x00" if sp <= 0 else repr(float(sp)).encode("ascii")
    need(len(spd) == 3)
    out = (g["data_valid"].encode() + (b"%02d%02d%02d" % (tm.hour, tm.minute, tm.second) if isinstance(tm, time) else NUL6)
           + (b"%02d%02d%02d" % (dt.day, dt.month, dt.year - 2000) if isinstance(dt, date) else NUL6) + g["north_south"].encode()
           + b"%04d.%04d" % divmod(lat, 10000) + g["east_west"].encode() + b"%05d.%04d" % divmod(lon, 10000) + spd + (b"\x00\x00\x00" if di == 0 else b"%03d" % di))
    need(len(out) == 40)
    return out


def forms_of(kind):
    if kind == "ip|bytes":
        return ip_forms(True)
    if kind == "ip":
        return ip_forms(False)
    if kind == "gps|bytes":
        return {"octets": lambda g, rng: gps_record(g), "octets-subclass": lambda g, rng: BytesSub(gps_record(g))}
    return FORMS[kind]


ARG_KINDS = {
    "RRS": {"is_reliable": "flag", "radio_ip": "ip|bytes", "result": "enum|int!", "renew_time_seconds": "int", "radio_state": "enum|int!"},
    "LP": {"opcode": "enum|be2", "request_id": "int|be4", "radio_ip": "ip|bytes", "result": "int|be2", "gpsdata": "gps|bytes", "is_reliable": "flag"},
    "GPS": {"data_valid": "lit", "greenwich_time": "time", "greenwich_date": "date", "north_south": "lit", "latitude": "lat", "east_west": "lit",
            "longitude": "lon", "speed_knots": "speed", "direction": "dir"},
    "TMP": {"source_ip": "ip", "destination_ip": "ip", "is_reliable": "flag", "is_confirmed": "flag", "has_option": "flag", "request_id": "int",
            "text_data": "text", "option_data": "blob", "short_data": "blob"},
    "RCP": {"opcode": "enum|be2", "raw_payload": "blob", "raw_opcode": "blob", "call_type": "enum|int", "target_id": "int|le4", "sender_id": "int|le4", "is_reliable": "flag",
            "broadcast_type": "int", "raw_value": "blob", "broadcast_config_raw": "blob", "talker_alias_data": "blob", "status_change_settings": "dict",
            "status_change_value": "int"},
    "IP": {"radio_id": "int|be3", "subnet": "int"},
    "HRNP": {"source": "int", "destination": "int", "block_number": "int", "packet_number": "int", "version": "int|bytes1", "header": "int|bytes1", "data": "hdap|bytes"},
    "HSTRP": {"sn": "int", "version": "int", "option-data": "blob", "flags": "flag", "classes": "class"},
}


def arg_paths(svc, plan):
    """[(path, kind)] of every argument of the plan that has other forms (nested constructor arguments as a.b); __class__: the PDU
    class itself as a subclass"""
    out = [("__class__", "class")]
    for k, v in plan.items():
        kind = ARG_KINDS[svc].get(k)
        if kind is None or v is None or k == "__class__":
            continue
        if kind.endswith("!"):  # the plan holds the bare int of a Union[int, Enum] argument: the forms start from the member's value
            kind = "int"
        out.append((k, kind))
        if isinstance(v, dict) and (v.get("__ip__") or v.get("__gps__")):
            sub = "IP" if v.get("__ip__") else "GPS"
            out += [(k + "." + k2, ARG_KINDS[sub][k2]) for k2 in v if k2 in ARG_KINDS[sub]]
    return out


def kind_of(svc, plan, path):
    for p, k in arg_paths(svc, plan):
        if p == path:
            return k
    raise KeyError(path)


# forms today's code has no reading of, by (service, argument, form): not part of what the signature promises
EXCLUDED_FORMS = {
    ("RCP", "raw_opcode", "memoryview"): "get_opcode slices the raw opcode and puts it in front: memoryview + bytes is undefined (signature: bytes)",
}


def substitute(svc, plan, path, form, rng):
    """replace one argument of the plan by another form of the same value; returns the object handed over"""
    kind = kind_of(svc, plan, path)
    if (svc, path, form) in EXCLUDED_FORMS:
        raise NotApplicable(EXCLUDED_FORMS[(svc, path, form)])
    keys = path.split(".")
    holder = plan if len(keys) == 1 else plan[keys[0]]
    if isinstance(holder, Made):
        raise NotApplicable("the enclosing argument was replaced as a whole")
    plain = holder.get(keys[-1]) if path == "__class__" else holder[keys[-1]]
    if isinstance(plain, Made):
        raise NotApplicable("already replaced")
    v = forms_of(kind)[form](plain, rng)
    holder[keys[-1]] = Made(v)
    return v


def copy_plan(plan):
    return {k: (dict(v) if isinstance(v, dict) and (v.get("__ip__") or v.get("__gps__")) else v) for k, v in plan.items()}


# ---- the model's reading of the GPS argument forms ----------------------------------------------------------------


def tz_tok(t):
    off = t.utcoffset() if isinstance(t, time) else t.utcoffset()
    return "N" if off is None else str(int(off.total_seconds() // 60))


def arg_token(k, v):
    """the form of one GPSData constructor argument as the model reads it (None: a form the model has no reading of)"""
    if k in ("data_valid", "north_south", "east_west"):
        return b01(str(v) in ("A", "N", "E"))
    if isinstance(v, (bytes, bytearray)):
        return "b:" + hx(v)
    if k == "greenwich_time":
        return f"t:{v.hour}:{v.minute}:{v.second}:{v.microsecond}:{tz_tok(v)}:{v.fold}"
    if k == "greenwich_date":
        if isinstance(v, datetime):
            return f"dt:{v.day}:{v.month}:{v.year - 2000}:{v.hour}:{v.minute}:{v.second}:{v.microsecond}:{tz_tok(v)}"
        return f"d:{v.day}:{v.month}:{v.year - 2000}"
    if k in ("latitude", "longitude"):
        if isinstance(v, int):
            return f"i:{int(v)}"
        return f"f:{fixed4(v)}"
    if k == "speed_knots":
        return "f:" + speed_s(v)
    if k == "direction":
        return f"i:{int(v)}"
    return None


GPS_ORDER = ("data_valid", "greenwich_time", "greenwich_date", "north_south", "latitude", "east_west", "longitude", "speed_knots", "direction")


def gps_arg_pair(gkw):
    """model line for a GPSData built from these (materialised) constructor arguments and the real code's answer"""
    toks = [safe(arg_token, k, gkw[k]) for k in GPS_ORDER]
    if any(t is None or t.startswith("ERR") for t in toks):
        return None

    def go():
        b = L.lp.GPSData(**gkw).as_bytes()
        return hx(b) + " " + str(len(b))

    return ("arg.gps " + " ".join(toks), safe(go))


# ---- the probe ----------------------------------------------------------------------------------------------------


def hrnp_by_hand(kw, inner: bytes) -> bytes:
    head = bytes([kw.get("header", 0x7E), kw.get("version", 4), kw["block_number"], 0x00, kw["source"], kw["destination"]]) + kw["packet_number"].to_bytes(2, "big") + (12 + len(inner)).to_bytes(2, "big")
    return head + spec_hrnp_checksum(head + inner).to_bytes(2, "big") + inner


def probe_argtype(ctx, params, pairs):
    """params: payload (field tuple), text_as, subs [[path, form]], hrnp {kw: plain ints, subs: [[arg, form]]}, hstrp {type, sn, version, options [[cmd, hex]], subs}, seed"""
    pc = ProbeCtx(ctx, "argtype", params)
    rng = random.Random(params["seed"])
    svc, plan0 = ctor_plan(params["payload"], params.get("text_as", "octets"))
    inp = {"fields": params["payload"], "service": svc, "argtype": params["subs"]}
    if params.get("text_as"):
        inp["text_as"] = params["text_as"]
    p0 = build_plan(svc, copy_plan(plan0))
    b0 = check_frame(pc, p0, inp)
    if b0 is None:
        return
    plan1 = copy_plan(plan0)
    handed = []
    for path, form in params["subs"]:
        handed.append((path, form, substitute(svc, plan1, path, form, rng)))
        ctx.count(f"argtype:{kind_of(svc, plan0, path)}:{form}")
    shown = [f"{path} as {form}: {v!r}"[:200] for path, form, v in handed]
    snapshot = [bytes(v) if isinstance(v, (bytearray, memoryview)) else None for _p, _f, v in handed]
    ctx.case(("argtype", params["payload"], params.get("text_as"), json.dumps([params["subs"], params.get("hrnp"), params.get("hstrp")], sort_keys=True), params["seed"]))
    p1 = call(build_plan, svc, plan1)
    if isinstance(p1, Exc):
        pc.fail("argtype-construct-raises", inp, f"constructing the PDU from the same values handed over as other types raised {p1} ({'; '.join(shown)})", actual=repr(p1))
        return
    b1 = call(p1.as_bytes)
    if isinstance(b1, Exc) or bytes(b1) != b0 or not isinstance(b1, (bytes, bytearray)):
        pc.fail("argtype-bytes", inp, "the PDU built from the same field values handed over as other Python types does not serialise to the same octets (" + "; ".join(shown) + ")",
                expected=b0.hex(), actual=repr(b1) if isinstance(b1, Exc) else bytes(b1).hex())
        return
    n1 = call(len, p1)
    if n1 != len(b0):
        pc.fail("len-mismatch", inp, "len(p) of the PDU built from other argument types differs from the number of bytes produced (" + "; ".join(shown) + ")", expected=len(b0), actual=repr(n1))
    q = call(L.hdap.HDAP.from_bytes, bytes(b1))
    if isinstance(q, Exc) or q is None:
        pc.fail("parse-raises", inp, f"HDAP.from_bytes of the serialisation gave {q!r}", actual=repr(q))
    else:
        fq, f0 = safe(relevant_tuple, q), safe(relevant_tuple, p0)
        if fq != f0:
            pc.fail("roundtrip-fields", inp, "parsed fields differ from the fields the PDU was built from", expected=f0, actual=fq)
        b2 = call(q.as_bytes)
        if isinstance(b2, Exc) or b2 != b0:
            pc.fail("roundtrip-bytes", inp, "parse then serialise does not reproduce the bytes", expected=b0.hex(), actual=repr(b2) if isinstance(b2, Exc) else b2.hex())
    for (path, form, v), snap in zip(handed, snapshot):
        if snap is not None and bytes(v) != snap:
            pc.fail("argtype-argument-changed", inp, f"the {form} handed over as {path} was changed by building / serialising the PDU", expected=snap.hex(), actual=bytes(v).hex())
    # GPS argument forms: the model's reading
    if pairs is not None and isinstance(plan1.get("gpsdata"), dict):
        pr = gps_arg_pair({k: materialise(x) for k, x in plan1["gpsdata"].items() if k != "__gps__"})
        if pr is not None:
            pairs.append(pr)
    # ---- nested: HRNP / HSTRP around the PDU built from the other forms; the wrappers' own arguments in other forms too
    H, S = L.hrnp, L.hstrp
    hp = params.get("hrnp")
    if hp is not None:
        kw = dict(hp["kw"])
        hi = dict(inp, nesting="HRNP", hrnp=dict(kw, forms=hp["subs"]))
        want = hrnp_by_hand(kw, b0)
        real = dict(kw, opcode=H.HRNPOpcodes.DATA, data=p1)
        if "header" in real:
            real["header"] = bytes([real["header"]])
        if "version" in real:
            real["version"] = bytes([real["version"]])
        for arg, form in hp["subs"]:
            ctx.count(f"argtype:hrnp-{arg}:{form}")
            if arg == "__class__":
                real["__class__"] = True
            elif arg == "data":
                real["data"] = {"octets": lambda: bytes(b1), "octets-subclass": lambda: BytesSub(b1)}[form]()
            elif arg in ("version", "header") and form == "int":
                real[arg] = kw[arg]
            else:
                real[arg] = forms_of(ARG_KINDS["HRNP"][arg])[form](kw[arg], rng)
        h = call(subclass_of(H.HRNP) if real.pop("__class__", None) else H.HRNP, **real)
        hb = call(h.as_bytes) if not isinstance(h, Exc) else h
        if isinstance(hb, Exc):
            pc.fail("hrnp-serialise-raises", hi, f"HRNP around the PDU raised {hb}", actual=repr(hb))
        else:
            if hb != want:
                pc.fail("argtype-hrnp-bytes", hi, "the HRNP packet around a PDU built from other argument types differs from the packet written out by hand (" + "; ".join(shown) + ")", expected=want.hex(), actual=hb.hex())
            hl = call(len, h)
            if hl != len(want):
                pc.fail("hrnp-length", hi, "len() of the HRNP packet differs from the octets written out by hand", expected=len(want), actual=repr(hl))
            h2 = call(H.HRNP.from_bytes, hb)
            if isinstance(h2, Exc) or not h2.checksum_correct or call(h2.as_bytes) != hb:
                pc.fail("roundtrip-bytes", hi, "HRNP parse then serialise does not reproduce the bytes (or the checksum is not verified)", expected=hb.hex(), actual=repr(h2))
    sp = params.get("hstrp")
    if sp is not None:
        si = dict(inp, nesting="HSTRP", hstrp=sp)
        optv = [(member(S.HSTRPOptionType, c), bytes.fromhex(d)) for c, d in sp["options"]]
        want = b"2B" + bytes([sp["version"], sp["type"]]) + sp["sn"].to_bytes(2, "big") + spec_tlv([(c.value, d) for c, d in optv]) + b0
        real = {"sn": sp["sn"], "version": sp["version"]}
        dform = None
        flagform = None
        OptCls, TypeCls, PktCls = S.HSTRPOptions, S.HSTRPPacketType, S.HSTRP
        for arg, form in sp["subs"]:
            ctx.count(f"argtype:hstrp-{arg}:{form}")
            if arg == "option-data":
                dform = form
            elif arg == "flags":
                flagform = form
            elif arg == "classes":
                OptCls, TypeCls, PktCls = subclass_of(OptCls), subclass_of(TypeCls), subclass_of(PktCls)
            else:
                real[arg] = forms_of(ARG_KINDS["HSTRP"][arg])[form](sp[arg], rng)
        o = OptCls()
        for c, d in optv:
            o.add_option(c, d if dform is None else FORMS["blob"][dform](d, rng))
        bits = [bool((sp["type"] >> i) & 1) for i in (5, 4, 3, 2, 1, 0)]
        if flagform is not None:
            bits = [FORMS["flag"][flagform](x, rng) for x in bits]
        s = call(lambda: PktCls(pkt_type=TypeCls(*bits), options=o, payload=p1, **real))
        sb = call(s.as_bytes) if not isinstance(s, Exc) else s
        if isinstance(sb, Exc):
            pc.fail("hstrp-serialise-raises", si, f"HSTRP around the PDU raised {sb}", actual=repr(sb))
        else:
            if sb != want:
                pc.fail("argtype-hstrp-bytes", si, "the HSTRP packet around a PDU built from other argument types differs from the packet written out by hand (" + "; ".join(shown) + ")", expected=want.hex(), actual=sb.hex())
            if consistent(S.HSTRPPacketType.from_bytes(bytes([sp["type"]])), len(optv), True):
                s2 = call(S.HSTRP.from_bytes, sb)
                if isinstance(s2, Exc) or s2 is None or call(s2.as_bytes) != sb:
                    pc.fail("roundtrip-bytes", si, "HSTRP parse then serialise does not reproduce the bytes", expected=sb.hex(), actual=repr(s2))
    # afterwards the plain PDU still answers the same (nothing was cached under a key the two objects share)
    if call(p0.as_bytes) != b0 or call(len, p0) != len(b0):
        pc.fail("held-object-changed", inp, "the PDU built from the plain values serialises differently after the one built from other argument types was used", expected=b0.hex(), actual=repr(call(p0.as_bytes)))


def wrapper_params(rng, subs_p=0.0):
    """plain HRNP / HSTRP arguments (+ with probability subs_p some of them in another form)"""
    S = L.hstrp
    kw = dict(source=pick_int(rng, 255, (0x20,)), destination=pick_int(rng, 255, (0x10,)), block_number=pick_int(rng, 255), packet_number=pick_int(rng, 65535))
    if rng.random() < 0.4:
        kw["version"] = rng.choice([0, 1, 2, 3, 4])
    if rng.random() < 0.2:
        kw["header"] = 0x7E
    hs = []
    if rng.random() < subs_p:
        for arg in rng.sample(sorted(kw) + ["data", "__class__"], rng.choice([1, 1, 2, 3])):
            if arg == "__class__":
                hs.append([arg, "subclass"])
                continue
            kind = ARG_KINDS["HRNP"][arg]
            names = ["octets", "octets-subclass"] if arg == "data" else (["int"] + [n for n in FORMS[kind] if not n.startswith("octets")] if arg in ("version", "header") else sorted(FORMS[kind]))
            form = rng.choice(names)
            if form == "bool" and kw[arg] not in (0, 1):
                form = "IntEnum"
            hs.append([arg, form])
    k = rng.choice([0, 1, 2, 3])
    spec = gen_option_list(rng, k)
    t = gen_pkt_type(rng, k, True)
    sp = {"type": t.as_bytes()[0], "sn": pick_int(rng, 65535), "version": rng.choice([0, 0, 1, 255]), "options": [[c.value, d.hex()] for c, d in spec], "subs": []}
    if rng.random() < subs_p:
        for arg in rng.sample(["sn", "version", "option-data", "flags", "classes"], rng.choice([1, 1, 2])):
            kind = ARG_KINDS["HSTRP"][arg]
            form = rng.choice(sorted(FORMS[kind])) if arg != "flags" else "int"  # bitarray takes ints, not numpy.bool_
            if form == "bool" and sp.get(arg) not in (0, 1):
                form = "int-subclass"
            sp["subs"].append([arg, form])
    return {"kw": kw, "subs": hs}, sp


def run_argtype(ctx, rng, pairs):
    """every service x opcode: every argument x every form, one at a time; then several at once; the wrappers' own arguments"""
    gens = [("RRS", gen_rrs, 5), ("LP", gen_lp, 2), ("TMP", gen_tmp, 8), ("RCP", gen_rcp, 17)]

    def one(params):
        r = call(probe_argtype, ctx, params, pairs)
        if isinstance(r, Exc):
            if r.s == "ERR NotApplicable":
                ctx.count("argtype:not-applicable")
                return False
            ctx.fail("argtype-construct-raises", {"probe": "argtype", "params": params, "fields": params["payload"], "service": params["payload"].split(" ")[0]},
                     f"a PDU of in-range values handed over as other Python types could not be built / used: {r}", actual=repr(r))
        return True

    for _round in range(ctx.budget(1, 5)):
        for svc, g, n_ops in gens:
            seen = {}
            for _ in range(60 * n_ops):
                c = g(rng)
                key = c.kw["opcode"]
                if key in seen and (svc != "LP" or rng.random() < 0.9):
                    continue
                t = safe(c.expected)
                if not t.startswith("ERR"):
                    seen[key] = (t, c)
                if len(seen) == n_ops:
                    break
            for key, (t, c) in seen.items():
                text_as = "str" if (c.text is not None and c.text.as_str) else "octets"
                _svc, plan = ctor_plan(t, text_as)
                paths = arg_paths(svc, plan)
                base = {"payload": t, "text_as": text_as}
                # one argument at a time, every form
                for path, kind in paths:
                    for form in sorted(forms_of(kind)):
                        hp, sp = wrapper_params(rng)
                        one(dict(base, subs=[[path, form]], hrnp=hp, hstrp=sp, seed=rng.randrange(2**32)))
                # several at once (an application that uses its own types throughout), wrappers in other forms too
                for _k in range(3):
                    subs = []
                    for path, kind in rng.sample(paths, min(len(paths), rng.choice([2, 3, 5, len(paths)]))):
                        if any(path.startswith(p + ".") or p.startswith(path + ".") for p, _f in subs):
                            continue
                        subs.append([path, rng.choice(sorted(forms_of(kind)))])
                    hp, sp = wrapper_params(rng, 0.8)
                    seed = rng.randrange(2**32)
                    # drop the substitutions that do not apply to this value (bool for an id above 1 …)
                    ok = []
                    for path, form in subs:
                        try:
                            substitute(svc, copy_plan(plan), path, form, random.Random(0))
                            ok.append([path, form])
                        except NotApplicable:
                            pass
                        except BaseException:  # noqa  (reported by the probe itself)
                            ok.append([path, form])
                    if ok:
                        ctx.count("argtype:several-at-once")
                        one(dict(base, subs=ok, hrnp=hp, hstrp=sp, seed=seed))
    # the time / date forms against the clock boundaries (h:m:s at 00:00:00 / 23:59:59 / noon, every form)
    S = L.lp.LocationProtocolSpecificService
    for tm in ((0, 0, 0), (23, 59, 59), (12, 0, 0), (9, 5, 7), (rng.randrange(24), rng.randrange(60), rng.randrange(60))):
        for dt in ((1, 1, 0), (31, 12, 99), (29, 2, 24)):
            g = gen_gps(rng, "fit")
            g.d.update(tm=tm, dt=dt)
            t = safe(Case("LP", dict(opcode=S.StandardReport, request_id=pick_int(rng, 2**32 - 1), radio_ip=gen_ip(rng), is_reliable=rng.random() < 0.5, result=0, gpsdata=g)).expected)
            for form in sorted(FORMS["time"]):
                for dform in rng.sample(sorted(FORMS["date"]), 2) + [None]:
                    subs = [["gpsdata.greenwich_time", form]] + ([["gpsdata.greenwich_date", dform]] if dform else [])
                    hp, sp = wrapper_params(rng)
                    one({"payload": t, "text_as": "octets", "subs": subs, "hrnp": hp if dform is None else None, "hstrp": sp if dform is None else None, "seed": rng.randrange(2**32)})
    # every GPS argument x every form on values where every form applies (integral / 0 / 1 coordinates, direction 0 / 1, absent time / date, speed 0)
    bases = [dict(lat4=0, lon4=0, speed=0.0, direction=0, tm=None, dt=None), dict(lat4=10000, lon4=10000, speed=0.1, direction=1), dict(lat4=47000000, lon4=179000000, speed=9.9, direction=359),
             dict(lat4=89599999, lon4=179599999, speed=5.0, direction=7), dict(lat4=12345000, lon4=100000000, speed=0.5, direction=10), {}]
    for _round in range(ctx.budget(1, 4)):
        for bd in bases:
            g = gen_gps(rng, "fit")
            g.d.update(bd)
            t = safe(Case("LP", dict(opcode=S.StandardReport, request_id=pick_int(rng, 2**32 - 1), radio_ip=gen_ip(rng), is_reliable=rng.random() < 0.5,
                                     result=rng.choice([c.value for c in L.lp.LocationProtocolResultCodes]), gpsdata=g)).expected)
            _svc, plan = ctor_plan(t)
            for path, kind in arg_paths("LP", plan):
                if path.startswith("gpsdata"):
                    for form in sorted(forms_of(kind)):
                        hp, sp = wrapper_params(rng)
                        one({"payload": t, "text_as": "octets", "subs": [[path, form]], "hrnp": hp if rng.random() < 0.3 else None, "hstrp": sp if rng.random() < 0.3 else None, "seed": rng.randrange(2**32)})


PROBES = {"provenance": probe_provenance, "alias": probe_alias, "size": probe_size, "argtype": probe_argtype}


# ------------------------------------------------------------------------------------------------
# round 5: constant tables (Enum members, dict-literal keys, class-level constants) — see the module docstring and
# props/hytera_tables.py.  The catalogue (c12.enums.json) says which wire values were documented when it was taken and
# directs the search; every verdict is the oracle's on a concrete frame / PDU.

TABLE_FAILURE_CAP = 300  # failing inputs after which the table sweeps stop adding more (a removed class fails thousands of frames)


class TableRun:
    """state of one run of the table sweeps"""

    def __init__(self, ctx, rng, pairs):
        self.ctx, self.rng, self.pairs = ctx, rng, pairs
        self.rd = HT.Reading(PROP, HT.roots_pdu())
        self.cat, self.cur, self.diff, self.cand, self.changed = self.rd.cat, self.rd.cur, self.rd.diff, self.rd.cand, self.rd.changed
        self.sn = 0
        self.n0 = len(ctx.failures)

    def enough(self):
        return len(self.ctx.failures) - self.n0 >= TABLE_FAILURE_CAP

    def next_sn(self):
        self.sn = (self.sn * 257 + 4099) % 65536
        return self.sn


def site_expectation(tr, site, v, own):
    """(must, lossy, judge): must = the catalogue documents the frame with v in this field, so it has to parse and re-encode to itself;
    lossy = unknown values fold onto a member (re-encoding an undocumented value differs by design); judge = a frame that happens to
    parse although it is not documented is still a PDU of this kind, so it has to re-encode to itself"""
    cat, cur = tr.cat, tr.cur
    if site.cls == HT.RAW:
        return True, False, False
    if site.label == "service":
        return v == own, False, False
    if site.opcode:
        if v == own:
            return True, False, False
        if cat.folds(site.cls):  # raw pass-through: every value the catalogue does not list travels as UnknownService
            return v not in cat.values(site.cls), False, False
        return False, False, False
    lossy = cat.folds(site.cls) or tr.rd.now_folds(site.cls)
    return v in cat.values(site.cls), lossy, not lossy


def frame_entry_points(frame: bytes, sn: int, opts: bytes):
    """the hand-written wrappers around an HDAP frame"""
    return (HT.hrnp_packet(0x00, frame, source=0x20 + sn % 7, destination=0x10, block=sn % 256, number=sn),
            HT.hstrp_packet(0x20 if opts else 0x00, sn, opts, frame))


TABLE_OPTS = HT.tlv([(3, b"\x00\x23\x38\x3b"), (4, b"\x01")])


def table_frame(tr, frame: bytes, must: bool, where: dict, deep=False, lossy=False, judge=True, pairs=None):
    """one hand-written HDAP frame through every entry point.  must: documented, has to parse; whatever parses (and is not a lossy
    fold) has to re-encode to the frame, report its length, and nest; deep: rebuilt through the constructor + the whole oracle"""
    ctx = tr.ctx
    inp = dict(where, frame=frame.hex(), layer="hdap", documented=bool(must))
    q = call(L.hdap.HDAP.from_bytes, frame)
    if isinstance(q, Exc) or q is None:
        if must:
            ctx.fail("documented-frame-parse", inp, f"a frame that carries documented values only is not parsed: HDAP.from_bytes gave {q!r}", expected="a PDU", actual=repr(q))
        return None
    if not must and (lossy or not judge):
        return q
    ok = True
    b2, n = call(q.as_bytes), call(len, q)
    if isinstance(b2, Exc) or b2 != frame:
        ctx.fail("roundtrip-bytes", inp, "parse then serialise does not reproduce the frame", expected=frame.hex(), actual=repr(b2) if isinstance(b2, Exc) else b2.hex())
        ok = False
    elif n != len(frame):
        ctx.fail("len-mismatch", inp, "len() of the parsed PDU differs from the number of octets of its frame", expected=len(frame), actual=repr(n))
        ok = False
    t = safe(pdu_tuple, q)
    # the service class's own parser
    q1 = call(type(q).from_bytes, frame)
    if isinstance(q1, Exc) or q1 is None or safe(pdu_tuple, q1) != t or call(q1.as_bytes) != frame:
        ctx.fail("roundtrip-fields", inp, f"{type(q).__name__}.from_bytes and HDAP.from_bytes read the frame differently", expected=t, actual=repr(q1) if isinstance(q1, Exc) or q1 is None else safe(pdu_tuple, q1))
        ok = False
    sn = tr.next_sn()
    hb, sb = frame_entry_points(frame, sn, TABLE_OPTS if sn % 2 else b"")
    h = call(L.hrnp.HRNP.from_bytes, hb)
    if isinstance(h, Exc):
        ctx.fail("parse-raises", dict(inp, layer="hrnp", packet=hb.hex()), f"HRNP.from_bytes of the frame in a hand-written HRNP DATA packet raised {h}", actual=repr(h))
        ok = False
    else:
        hb2 = call(h.as_bytes)
        if not h.checksum_correct or isinstance(hb2, Exc) or hb2 != hb or safe(pdu_tuple, h.data) != t:
            ctx.fail("roundtrip-bytes", dict(inp, layer="hrnp", packet=hb.hex()), "the frame in a hand-written HRNP DATA packet does not parse to the same PDU / verify / re-encode",
                     expected=[hb.hex(), t, True], actual=[repr(hb2) if isinstance(hb2, Exc) else hb2.hex(), safe(pdu_tuple, h.data), h.checksum_correct])
            ok = False
    s = call(L.hstrp.HSTRP.from_bytes, sb)
    if isinstance(s, Exc) or s is None:
        ctx.fail("parse-raises", dict(inp, layer="hstrp", packet=sb.hex()), f"HSTRP.from_bytes of the frame in a hand-written HSTRP packet gave {s!r}", actual=repr(s))
        ok = False
    else:
        sb2 = call(s.as_bytes)
        if isinstance(sb2, Exc) or sb2 != sb or safe(pdu_tuple, s.payload) != t:
            ctx.fail("roundtrip-bytes", dict(inp, layer="hstrp", packet=sb.hex()), "the frame in a hand-written HSTRP packet does not parse to the same PDU / re-encode",
                     expected=[sb.hex(), t], actual=[repr(sb2) if isinstance(sb2, Exc) else sb2.hex(), safe(pdu_tuple, s.payload)])
            ok = False
    if deep and ok and not t.startswith("ERR"):
        # the library's own output: the PDU its constructor builds from these field values, through the whole oracle and the model
        p = call(build_from_tuple, t)
        if isinstance(p, Exc):
            ctx.fail("construct-raises", dict(inp, fields=t, service=t.split(" ")[0]), f"constructing the PDU a documented frame parses to raised {p}", actual=repr(p))
        else:
            b = one_pdu(ctx, tr.rng, p, "table:" + str(where.get("kind", "frame")), pairs if pairs is not None else tr.pairs)
            if b is not None and b != frame:
                ctx.fail("roundtrip-bytes", dict(inp, fields=t, service=t.split(" ")[0]), "the PDU built from the parsed field values serialises to other octets than the frame they were parsed from",
                         expected=frame.hex(), actual=b.hex())
    return q


def passthrough_light(v: int, payload: bytes, reliable: bool, sn: int) -> bool:
    """an UnknownService PDU built by the library with raw opcode v: frame written out by hand, len(), the four parsers, re-encoding"""
    C = L.rcp
    ro = v.to_bytes(2, "little")
    try:
        p = C.RadioControlProtocol(opcode=C.RCPOpcode.UnknownService, raw_opcode=ro, raw_payload=payload, is_reliable=reliable)
        b = p.as_bytes()
        if b != HT.hdap_frame(SERVICE["RCP"] | (0x80 if reliable else 0), ro, payload, True) or len(p) != len(b):
            return False
        hb, sb = frame_entry_points(b, sn, TABLE_OPTS if sn % 2 else b"")
        for q in (L.hdap.HDAP.from_bytes(b), C.RadioControlProtocol.from_bytes(b), L.hrnp.HRNP.from_bytes(hb).data, L.hstrp.HSTRP.from_bytes(sb).payload):
            if type(q) is not C.RadioControlProtocol or q.opcode != C.RCPOpcode.UnknownService or q.raw_opcode != ro or q.raw_payload != payload \
                    or q.is_reliable != reliable or q.as_bytes() != b or len(q) != len(b):
                return False
        return L.hrnp.HRNP.from_bytes(hb).as_bytes() == hb and L.hstrp.HSTRP.from_bytes(sb).as_bytes() == sb
    except BaseException:  # noqa
        return False


def table_passthrough(tr, v: int, payload: bytes, reliable: bool, deep: bool):
    """the pass-through PDU with raw opcode v; deep (or when the light check fails): through one_pdu, which records the failing input"""
    ctx = tr.ctx
    if not deep and passthrough_light(v, payload, reliable, tr.next_sn()):
        return True
    O = L.rcp.RCPOpcode
    c = Case("RCP", dict(opcode=O.UnknownService, is_reliable=reliable, raw_opcode=v.to_bytes(2, "little"), raw_payload=payload))
    n0 = len(ctx.failures)
    p = build_case(ctx, c)
    if p is not None:
        one_pdu(ctx, tr.rng, p, "table:rcp-pass-through", tr.pairs, case=c)
    if not deep and len(ctx.failures) == n0:
        ctx.fail("roundtrip-fields", input_of(p, case=c) if p is not None else {"service": "RCP", "fields": safe(c.expected)},
                 "an UnknownService PDU does not survive serialise / parse through HDAP, RadioControlProtocol, HRNP and HSTRP with its raw opcode and payload")
    return len(ctx.failures) == n0


def run_tables(ctx, rng, pairs):
    tr = TableRun(ctx, rng, pairs)
    cat, cur = tr.cat, tr.cur
    n_enums = sum(1 for _ in cur.all_enums())
    ctx.count("table:enum-classes-harvested", n_enums)
    ctx.count("table:enum-members-harvested", sum(len(e["members"]) for _r, _q, e in cur.all_enums()))
    ctx.count("table:dict-key-tables-harvested", sum(len(m["dicts"]) for m in cur.mods.values()))
    ctx.count("table:differences-from-catalogue", len(tr.diff))
    if tr.diff:
        ctx.notes.append("constant tables differ from the catalogue c12.enums.json (directs the sweeps only): " + tr.rd.describe())
    for need in ("RCPOpcode", HT.SERVICE_ENUM, "HSTRPOptionType", "HRNPOpcodes"):
        if cat.enum(need) is None:
            raise RuntimeError(f"the catalogue harness/props/c12.enums.json has no table {need}: regenerate it (--rebaseline)")
    parts = 16 if ctx.thorough() else min(16, ctx.boost)

    def share_for(cls):
        return HT.share16(ctx.seed, 16 if cls in tr.changed else parts)

    # ---- A: the documented frame of every implemented kind, plain and reliable
    base = {}
    for k in HT.KINDS:
        for rel in (False, True):
            f = k.frame(cat, reliable=rel)
            if f is None:
                raise RuntimeError(f"the catalogue lacks a table the kind {k.name} needs: regenerate it (--rebaseline)")
            ctx.count("table:documented-kind-frame")
            ctx.case(("table-kind", k.name, rel))
            table_frame(tr, f, True, {"kind": k.name, "site": "-", "value": None}, deep=True)
            if not rel:
                base[k.name] = f
    # catalogued opcodes the library lists without implementing them: outside "implemented opcodes"
    for svc, en in HT.OPCODE_ENUM.items():
        for name, _v in cat.members(en):
            if (svc, name) not in HT.IMPLEMENTED and name != "UnknownService":
                ctx.count("precondition:catalogued-opcode-not-implemented")
    # ---- B: every documented member of every enum in every field where it is parsed; what the current source adds is judged as parsed
    for k in HT.KINDS:
        own_svc, own_op = cat.value_of(HT.SERVICE_ENUM, HT.SVC[k.svc][0]), cat.value_of(k.op_enum, k.op_name)
        for site in k.sites():
            if site.opcode or site.label == "service":
                continue
            vals = list(cat.members(site.cls)) + [(n, v) for n, v in tr.rd.now_members(site.cls) if v not in cat.values(site.cls)]
            for name, v in vals:
                if v >= site.space or tr.enough():
                    continue
                must, lossy, judge = site_expectation(tr, site, v, None)
                ctx.count("table:member-in-field")
                ctx.case(("table-member", site.name(), v))
                table_frame(tr, site.put(base[k.name], v), must, {"kind": k.name, "site": site.name(), "value": v, "member": name}, deep=True, lossy=lossy, judge=judge)
    if pairs is not None:
        ctx.correspond("constant tables: documented frames and members", pairs)
        del pairs[:]
    # ---- C: directed by the differences: every value that is new, gone or changed (±1) in every field of every kind, as raw opcode …
    for v, why in sorted(tr.cand.items()):
        if tr.enough():
            break
        # as the raw opcode of a pass-through PDU built by the library (unless the value is catalogued then and now: a known opcode is not pass-through)
        if not (v in cat.values("RCPOpcode") and v in tr.rd.now_values("RCPOpcode")):
            for pl in HT.PASS_PAYLOADS:
                for rel in (False, True):
                    ctx.count("table:difference-directed-pass-through")
                    ctx.case(("table-cand-pass", v, pl, rel))
                    table_passthrough(tr, v, pl, rel, deep=True)
        for k in HT.KINDS:
            own_svc, own_op = cat.value_of(HT.SERVICE_ENUM, HT.SVC[k.svc][0]), cat.value_of(k.op_enum, k.op_name)
            for site in k.sites():
                if v >= site.space:
                    continue
                must, lossy, judge = site_expectation(tr, site, v, own_svc if site.label == "service" else own_op)
                ctx.count("table:difference-directed-frame")
                ctx.case(("table-cand", site.name(), v))
                table_frame(tr, site.put(base[k.name], v), must, {"kind": k.name, "site": site.name(), "value": v, "directed-by": why[:3]}, deep=must, lossy=lossy, judge=judge)
    if pairs is not None and pairs:
        ctx.correspond("constant tables: difference-directed frames", pairs)
        del pairs[:]
    # ---- D: every value of every 8-bit field (the service field once per service)
    seen_service = set()
    for k in HT.KINDS:
        own_svc, own_op = cat.value_of(HT.SERVICE_ENUM, HT.SVC[k.svc][0]), cat.value_of(k.op_enum, k.op_name)
        for site in k.sites():
            if site.width != 1 or tr.enough():
                continue
            if site.label == "service":
                if k.svc in seen_service:
                    continue
                seen_service.add(k.svc)
            for v in range(site.space):
                must, lossy, judge = site_expectation(tr, site, v, own_svc if site.label == "service" else own_op)
                ctx.count("table:8-bit-field-value")
                ctx.case(("table-8", site.name(), v), nontrivial=must)
                table_frame(tr, site.put(base[k.name], v), must, {"kind": k.name, "site": site.name(), "value": v}, lossy=lossy, judge=judge)
    # ---- E: 16-bit fields of hand-written frames: the seed-rotated share (all of it when the field's table differs / thorough) + neighbourhood
    for k in HT.KINDS:
        own_op = cat.value_of(k.op_enum, k.op_name)
        for site in k.sites():
            if site.width != 2 or site.cls == HT.RAW or tr.enough():
                continue
            if site.opcode and k.svc == "RCP" and k.op_name != "CallRequest":
                continue  # the raw pass-through space is swept once by hand (here, in the call request frame) and once through the constructor (F)
            near = HT.neighbourhood(cat.values(site.cls) | tr.rd.now_values(site.cls))
            vals = list(share_for(site.cls))
            chosen = set(vals)
            vals += sorted(near - chosen)
            ctx.count(f"table:16-bit-field-share:{site.name()}", len(vals))
            f0 = base[k.name]
            for v in vals:
                must, lossy, judge = site_expectation(tr, site, v, own_op)
                ctx.case(("table-16", site.name(), v), nontrivial=must)
                if must or site.opcode:
                    table_frame(tr, site.put(f0, v), must, {"kind": k.name, "site": site.name(), "value": v}, lossy=lossy, judge=judge)
                else:
                    # not documented: nothing is asked of the parser; what it accepts nevertheless is judged like every parsed frame
                    f = site.put(f0, v)
                    q = call(L.hdap.HDAP.from_bytes, f)
                    if not isinstance(q, Exc) and q is not None and judge and not lossy:
                        table_frame(tr, f, False, {"kind": k.name, "site": site.name(), "value": v}, lossy=lossy, judge=judge)
    # ---- F: the raw pass-through opcode of an UnknownService PDU built by the library
    known_both = cat.values("RCPOpcode") & tr.rd.now_values("RCPOpcode")
    vals = list(share_for("RCPOpcode"))
    chosen = set(vals)
    vals += sorted(HT.neighbourhood(cat.values("RCPOpcode") | tr.rd.now_values("RCPOpcode")) - chosen)
    n_pass = 0
    for i, v in enumerate(vals):
        if v in known_both:
            ctx.count("precondition:raw-opcode-is-a-catalogued-opcode")
            continue
        if tr.enough():
            break
        n_pass += 1
        pl = HT.PASS_PAYLOADS[(v ^ (v >> 8)) % len(HT.PASS_PAYLOADS)]
        ctx.case(("table-pass", v))
        table_passthrough(tr, v, pl, bool((v >> 3) & 1), deep=(i % 512 == 0))
    ctx.count("table:pass-through-opcode", n_pass)
    # ---- G: HSTRP option types (7 bits) and HRNP opcodes (8 bits), all values; difference candidates are among them
    H, S = L.hrnp, L.hstrp
    opt_names = {v: n for n, v in cat.members("HSTRPOptionType")}
    for v in range(128):
        must = v in opt_names
        d = bytes([0x11] * HT.OPTION_LEN.get(opt_names.get(v), 1))
        for chain in ([(v, d)], [(v, d), (4, b"\x02")], [(3, b"\x00\x01\x86\x9f"), (v, d)]):
            ob = HT.tlv(chain)
            sb = HT.hstrp_packet(0x20, 0x0100 + v, ob, base["RCP.CallRequest"])
            ctx.count("table:hstrp-option-type")
            ctx.case(("table-opt", v, len(chain)), nontrivial=must)
            inp = {"frame": sb.hex(), "layer": "hstrp", "site": "hstrp option type", "value": v, "documented": must}
            o = call(S.HSTRPOptions.from_bytes, ob)
            s = call(S.HSTRP.from_bytes, sb)
            if isinstance(s, Exc) or s is None or isinstance(o, Exc):
                if must:
                    ctx.fail("documented-frame-parse", inp, f"an HSTRP packet whose options carry documented types only is not parsed: {s!r} / {o!r}", expected="a packet", actual=repr(s))
                continue
            got = [(c.value, bytes(x)) for c, x in s.options.options]
            if call(s.as_bytes) != sb or call(o.as_bytes) != ob or got != chain or len(o) != len(ob):
                ctx.fail("hstrp-options", inp, "an HSTRP option chain does not parse to its (type, data) list / re-encode to itself", expected=[(c, x.hex()) for c, x in chain], actual=[(c, x.hex()) for c, x in got])
    hops = cat.values("HRNPOpcodes")
    data_op = cat.value_of("HRNPOpcodes", "DATA")
    for v in range(256):
        must = v in hops
        for inner in ((b"",) if v != data_op else (base["RCP.CallRequest"], base["TMP.SendPrivateMessage"])):  # a DATA packet carries an HDAP frame
            hb = HT.hrnp_packet(v, inner, number=0x0200 + v)
            ctx.count("table:hrnp-opcode")
            ctx.case(("table-hrnp", v, len(inner)), nontrivial=must)
            inp = {"frame": hb.hex(), "layer": "hrnp", "site": "hrnp opcode", "value": v, "documented": must}
            h = call(H.HRNP.from_bytes, hb)
            if isinstance(h, Exc):
                if must:
                    ctx.fail("documented-frame-parse", inp, f"an HRNP packet with a documented opcode is not parsed: {h!r}", expected="a packet", actual=repr(h))
                continue
            if not h.checksum_correct or call(h.as_bytes) != hb or h.opcode.value != v or call(len, h) != len(hb):
                ctx.fail("roundtrip-bytes", inp, "an HRNP packet does not verify / re-encode to itself / report its length", expected=hb.hex(), actual=repr(call(h.as_bytes)))
    if pairs is not None and pairs:
        ctx.correspond("constant tables: field sweeps", pairs)
        del pairs[:]


def replay_frame(inp):
    """re-run of a table-sweep input: the recorded frame (and the hand-written wrapper around it) through its parser"""
    data = bytes.fromhex(inp["frame"])
    layer = inp.get("layer", "hdap")
    print(f"frame (kind {inp.get('kind')}, field {inp.get('site')}, value {inp.get('value')}, documented in the catalogue: {inp.get('documented')}): {data.hex()}")
    todo = [("hdap" if "packet" in inp else layer, data)] + ([(layer, bytes.fromhex(inp["packet"]))] if "packet" in inp else [])
    still = 0
    for lay, d2 in todo:
        cls = {"hstrp": L.hstrp.HSTRP, "hrnp": L.hrnp.HRNP, "hdap": L.hdap.HDAP}[lay]
        o = call(cls.from_bytes, d2)
        parsed = not (isinstance(o, Exc) or o is None)
        b = call(o.as_bytes) if parsed else o
        print(f"implementation [{lay}] {d2.hex()}: parse ->", type(o).__name__ if parsed else repr(o), "; re-encode ->", repr(b) if isinstance(b, Exc) or b is None else b.hex())
        print(f"model: run `echo '{lay}.parse {d2.hex()}' | lean/.lake/build/bin/drv_c12`")
        if (parsed and b != d2) or (not parsed and inp.get("documented")):
            still = 1
    return still


# ------------------------------------------------------------------------------------------------
# corpus


def corpus_hex():
    out = []
    for fn in sorted(glob.glob(os.path.join(TESTS, "**", "*.py"), recursive=True)):
        try:
            src = open(fn, encoding="utf-8").read()
        except OSError:
            continue
        for m in re.finditer(r"\"([0-9a-fA-F]{16,})\"", src):
            h = m.group(1).lower()
            if len(h) % 2 == 0 and h not in out:
                out.append(h)
    # byte literals of test_rrs.py and the captures quoted in the test-suite, kept here as well
    out += [h for h in STATIC_CORPUS if h not in out]
    return [h for h in out if h[:4] == "3242" or h[:2] in ("7e", "02", "82", "08", "88", "09", "89", "11", "91")]


STATIC_CORPUS = [
    "91008000090a0000500000000e103103",
    "91000200040a0000140e03",
    "11008200050a000021008003",
    "0980a10022000000010a01b2070a03640e4f004c004900560045005200200054004500530054007a03",
    "0980a2000d000000010a01b2070a030000003103",
    "09c0a200120003000000020a01b2070a03000000010203e203",
    "08a0020032000000010a2110dd0000413138333634383236313031354e343731382e383035314530313835342e34333837302e313132310b03",
    "08a002003200000003002337fb0000410000000000000000000000004e353030332e383737314530313432362e353330320000000000007003",
    "024108050000d20400000e03",
    "0241880100006803",
    "0245b810000100040004000000fd080000fa372300c303",
    "0245b81000010005000000000000000000000000001f03",
    "02471808000000000000000000cb03",
    "0247880100006203",
    "02c7100900040b010601050012012303",
    "02c8b003000b0400a803",
    "02c910050002000101014f03",
    "025284060000010a0003e95f03",
    "02040005006400000001c403",
    "0204800600000f690600012903",
    "324200000001024108050000d20400000e03",
    "32420020000183040001869f04010211000300040a000064bd03",
    "32420020000b830400066b0e0401010245b810000100040004000000fd080000fa372300c303",
    "32420020001383040001869f0401010241880100006803",
    "7e0400fe20100000000c60e1",
    "7e0300fe20100000000c60e2",
    "7e0400fd10200000000c70d2",
    "7e04001010200001000c71be",
    "7e04000020100001001b43b502471808000700000000000000c403",
    "7e04000010200004002767790980b1001400000001000000010a000835610068006f006a000203",
    "7e04000020100000001c03f502c7100900040b010601050012012303",
]


def run_corpus(ctx, pairs):
    for h in corpus_hex():
        data = bytes.fromhex(h)
        kind = "hstrp" if h[:4] == "3242" else ("hrnp" if h[:2] == "7e" else "hdap")
        cls = {"hstrp": L.hstrp.HSTRP, "hrnp": L.hrnp.HRNP, "hdap": L.hdap.HDAP}[kind]
        o = call(cls.from_bytes, data)
        inp = {"corpus": h, "layer": kind}
        ctx.count("corpus:" + kind)
        ctx.case(("corpus", h), sample={"kind": "captured " + kind, "bytes": h[:120]} if h.startswith("0980a1") else None)
        if isinstance(o, Exc) or o is None:
            ctx.fail("corpus-parse", inp, f"captured packet no longer parses: {o!r}", actual=repr(o))
        else:
            b = call(o.as_bytes)
            if isinstance(b, Exc) or b != data:
                ctx.fail("corpus-reencode", inp, "captured packet does not re-encode to itself", expected=h, actual=repr(b) if isinstance(b, Exc) else b.hex())
            if kind == "hrnp" and not o.checksum_correct:
                ctx.fail("corpus-checksum", inp, "captured HRNP packet's checksum does not verify", expected=True, actual=False)
            if kind == "hrnp" and not spec_ones_complement_ok(data):
                ctx.fail("corpus-checksum", inp, "captured HRNP packet's ones-complement sum is not 0xFFFF")
            inner = o if kind == "hdap" else (o.data if kind == "hrnp" else o.payload)
            if inner is not None and not isinstance(inner, Exc):
                ib = call(inner.as_bytes)
                if not isinstance(ib, Exc):
                    if ib[-2] != spec_hdap_checksum(ib[1:-2]) or call(len, inner) != len(ib):
                        ctx.fail("corpus-frame", inp, "captured PDU's checksum / len() differ from the independent computation")
        if pairs is not None:
            pairs.append((f"{kind}.parse {h}", {"hstrp": impl_hstrp_parse, "hrnp": impl_hrnp_parse, "hdap": impl_hdap_parse}[kind](data)))


HRNP_LENGTH_WITNESS = ("7e040000201000070024f4e90900ae0011000000010a0007d10a0007d2b6000000f8ff03",
                       "7e040000201000070020f4e90900ae0011000000010a0007d10a0007d2b6000000f8ff03")


def run_hrnp_length_witness(ctx, pairs):
    """the repaired defect of the HRNP length octets (C04): a library-serialised TMP-in-HRNP packet and the same with
    bit 2 of octet 9 inverted (36 -> 32), whose truncated octet range satisfied the checksum; model and code compared on
    both, the corrupted one must not be checksum_correct"""
    sent, bad = (bytes.fromhex(h) for h in HRNP_LENGTH_WITNESS)
    for tag, data in (("sent", sent), ("length-bit-inverted", bad), ("length-bit-inverted+trailing", bad + b"\x7e\x04")):
        o = call(L.hrnp.HRNP.from_bytes, data)
        ctx.case(("corpus", "hrnp-length-witness", tag))
        ctx.count("corpus:hrnp-length-witness")
        inp = {"corpus": data.hex(), "layer": "hrnp", "witness": tag}
        if tag == "sent":
            if isinstance(o, Exc) or o.checksum_correct is not True:
                ctx.fail("corpus-checksum", inp, "the library-serialised HRNP packet of the length witness does not verify", expected=True, actual=repr(o) if isinstance(o, Exc) else False)
        elif not isinstance(o, Exc) and o.checksum_correct:
            ctx.fail("hrnp-length-bit-accepted", inp, "HRNP packet with one inverted bit in the packet-length field is reported checksum_correct (defect repaired by the length cross-check in HRNP.from_bytes)",
                     expected="checksum_correct false or a decode error", actual="checksum_correct true")
        if pairs is not None:
            pairs.append((f"hrnp.parse {data.hex()}", impl_hrnp_parse(data)))


def regression_pdus():
    """inputs of the two repaired defects (eccf836, 858bc10) and the shapes the captures never contain"""
    lp, T = L.lp, L.tmp
    out = []
    out.append(("regress:lp-reliable-request", lp.LocationProtocol(opcode=lp.LocationProtocolSpecificService.StandardRequest, request_id=7, radio_ip=L.RadioIP(radio_id=1001), is_reliable=True)))
    for op in (T.TMPService.SendPrivateMessage, T.TMPService.SendPrivateMessageAck, T.TMPService.GroupShortData, T.TMPService.SendGroupMessageAck):
        out.append(("regress:tmp-empty-option", T.TextMessageProtocol(opcode=op, has_option=True, option_data=b"", source_ip=L.RadioIP(radio_id=2), destination_ip=L.RadioIP(radio_id=3),
                                                                     request_id=9, text_data="ab", result_code=T.TMPResultCodes.OK, short_data=b"\x01\x02")))
    g = lp.GPSData(data_valid="A", greenwich_time=time(12, 34, 56), greenwich_date=date(2024, 2, 29), north_south="N", latitude=4718.8051,
                   east_west="E", longitude=1854.4387, speed_knots=9.9, direction=359)
    out.append(("regress:lp-report-9.9kn", lp.LocationProtocol(opcode=lp.LocationProtocolSpecificService.StandardReport, request_id=1, radio_ip=L.RadioIP(radio_id=1), gpsdata=g, is_reliable=True)))
    return out


# ------------------------------------------------------------------------------------------------
# malformed / mutated byte strings: correspondence of the parsers (and their error kinds)

ASCII_ALPHABET = list(b"0123456789") + [0x2E, 0x00, 0x58]


def mutate(rng, b: bytes, is_lp_report: bool):
    r = rng.random()
    if r < 0.35 and len(b) > 0:
        return b[: rng.randrange(len(b))]  # truncation
    if r < 0.5:
        return b + gen_bytes(rng, rng.choice([1, 2, 5]))
    m = bytearray(b)
    for _ in range(rng.choice([1, 1, 2])):
        i = rng.randrange(len(m))
        if is_lp_report and 15 <= i < 55:
            if i - 15 in (0, 13, 23):
                m[i] = rng.choice(list(b"AVNSEW") + [rng.randrange(256)])
            else:
                m[i] = rng.choice(ASCII_ALPHABET)
        else:
            m[i] = rng.choice([m[i] ^ (1 << rng.randrange(8)), rng.randrange(256), 0, 0xFF])
    return bytes(m)


def lp_report_unmodelled(data: bytes) -> bool:
    """an LP StandardReport whose ASCII number fields leave the alphabet / grid the model covers"""
    if len(data) < 3 or (data[0] & 0x7F) != 0x08 or data[1:3] != b"\xa0\x02":
        return False
    g = data[15:55]
    if len(g) != 40:
        return False
    num = g[1:13] + g[14:23] + g[24:40]
    if any(x not in ASCII_ALPHABET for x in num):
        return True
    for f in (g[14:23], g[24:34]):
        if b"." in f and len(f) - f.index(b".") - 1 > 4:
            return True
    return False


# ------------------------------------------------------------------------------------------------


def speed_overflow(f) -> bool:
    """known finding: an LP report whose speed does not fit the 3-octet field"""
    inp = f.get("input") or {}
    sp = inp.get("speed")
    return (
        inp.get("service") == "LP"
        and isinstance(sp, (int, float))
        and sp > 0
        and len(format(float(sp), "03")) > 3
        and f.get("kind") in ("parse-raises", "roundtrip-bytes", "roundtrip-fields", "hrnp-construct-raises", "hrnp-checksum-verify")
    )


MATCHERS = {"lp_speed_longer_than_three_characters": speed_overflow}


def run_transl(ctx):
    """Differential validation of the source translator (tools/py2lean.py) and its prelude (Model/Py.lean), trusted base of
    Props/C12t: the definitions TRANSLATED from the source of HDAP.get_hdap_checksum and HRNP.calculate_checksum
    (`Gen/TranslHytera.lean`, driver operations `t.hy.*`) against the real functions on empty / short / odd / even / long /
    constant / random byte strings and on strings whose word sum needs several end-around-carry passes.  A difference is a
    translator or prelude bug, never a finding about /repo."""
    if ctx.search_only or not ctx.driver_ok:
        return
    from okdmr.dmrlib.hytera.pdu.hdap import HDAP as _HDAP
    from okdmr.dmrlib.hytera.pdu.hrnp import HRNP as _HRNP
    rng = ctx.rng

    def hx(b):
        return b.hex() if b else "-"

    def res(fn, d):
        try:
            return hx(fn(d))
        except Exception as e:  # noqa
            return impl_error(e)

    data = [b"", b"\x00", b"\xff", b"\xff\xff", b"\x00" * 7, b"\xff" * 9, bytes(range(256)), bytes.fromhex("7e0400fe20100000000c60e1")]
    data += [bytes([v]) * k for v in (0, 1, 0x7F, 0x80, 0xCC, 0xFF) for k in (2, 3, 255, 256, 257, 514)]
    # two carry passes need a first fold that reaches 0x10000 again: word sum 0x1FFFF (ffff ffff 0001) and neighbours; the long
    # all-ones strings (word sums around 2^32) cost the list-based driver O(n^2) — 40 s each — and run in the thorough tier only
    data += [bytes.fromhex(h) for h in ("ffffffff0001", "ffffffff0000", "ffffffff0002", "fffffffe0002", "ffffffffffff0003", "ffff0001ffff", "0001ffffffff00")]
    data += [b"\xff" * k for k in ((2046, 2048, 4095) if not ctx.thorough() else (65534, 65536, 131070, 131072, 131074))]
    data += [bytes(rng.randrange(256) for _ in range(rng.choice((1, 2, 3, 5, 8, 12, 13, 20, 31, 64, 100, 300, 1500)))) for _ in range(ctx.budget(400, 4000))]
    data += [bytes(rng.choice((0, 0xFF, 0xFE, 1)) for _ in range(rng.randrange(0, 40))) for _ in range(ctx.budget(200, 2000))]
    pairs = []
    for d in data:
        pairs.append(("t.hy.hdapsum " + hx(d), res(_HDAP.get_hdap_checksum, d)))
        pairs.append(("t.hy.hrnpsum " + hx(d), res(_HRNP.calculate_checksum, d)))
    ctx.count("transl:get_hdap_checksum", len(data))
    ctx.count("transl:calculate_checksum", len(data))
    ctx.correspond("transl", pairs)


# ------------------------------------------------------------------------------------------------
# history / object-identity probes (harness/histories.py): HDAP PDUs of the four services, HRNP, HSTRP with options, RadioIP
def ENTRY_POINTS():
    import histories as H

    load()
    gens = {"RRS": gen_rrs, "LP": gen_lp, "TMP": gen_tmp, "RCP": gen_rcp}

    def view(q):
        b = call(q.as_bytes) if hasattr(q, "as_bytes") else None
        return {"as_bytes": repr(b) if isinstance(b, Exc) else H.canon(b), "fields": H.canon(q)}

    ser = lambda o: o.as_bytes()  # noqa: E731
    eps = []

    def pdu(rng, svc=None):
        for _ in range(20):
            c = gens[svc or rng.choice(sorted(gens))](rng)
            p = call(c.build)
            if not isinstance(p, Exc):
                return p
        raise ValueError("no PDU")

    for svc in sorted(gens):
        def kw(rng, svc=svc):
            c = gens[svc](rng)
            return ({k: realise(v) for k, v in c.kw.items()},)

        def new(kwargs, svc=svc):
            return Case.CLS[svc]()(**kwargs)

        def wire(rng, svc=svc):
            b = call(pdu(rng, svc).as_bytes)
            return (b if isinstance(b, bytes) else b"\x02\x00\x00\x00\x00\x00\x03",)

        eps.append(H.EP(f"hdap.{svc}.build", new, kw, kind="build", serialise=ser, canon=view, group="hdap"))
        eps.append(H.EP(f"hdap.{svc}.from_bytes", L.hdap.HDAP.from_bytes, wire, kind="parse", serialise=ser, canon=view, group="hdap", domain="hdap-wire"))

    def hrnp_args(rng):
        p = pdu(rng) if rng.random() < 0.8 else None
        HR = L.hrnp
        return (p, HR.HRNPOpcodes.DATA if p is not None else rng.choice([o for o in HR.HRNPOpcodes if o != HR.HRNPOpcodes.DATA]),
                pick_int(rng, 255, (0x20,)), pick_int(rng, 255, (0x10,)), pick_int(rng, 255), pick_int(rng, 65535))

    def hrnp_new(data, opcode, source, destination, block_number, packet_number):
        return L.hrnp.HRNP(data=data, opcode=opcode, source=source, destination=destination, block_number=block_number, packet_number=packet_number)

    def hstrp_args(rng):
        p = pdu(rng) if rng.random() < 0.8 else None
        k = rng.choice([0, 0, 1, 2, 3])
        o = gen_options(rng, k)
        return (gen_pkt_type(rng, k, p is not None), pick_int(rng, 65535), o, p, rng.choice([0, 0, 1, 255]))

    def hstrp_new(pkt_type, sn, options, payload, version):
        return L.hstrp.HSTRP(pkt_type=pkt_type, sn=sn, options=options, payload=payload, version=version)

    def wire_of(args, new):
        def make(rng):
            b = call(lambda: new(*args(rng)).as_bytes())
            return (b,) if isinstance(b, bytes) else (b"\x00",)
        return make

    eps.append(H.EP("hrnp.build", hrnp_new, hrnp_args, kind="build", serialise=ser, canon=view, group="hrnp", draws=2))
    eps.append(H.EP("hrnp.from_bytes", L.hrnp.HRNP.from_bytes, wire_of(hrnp_args, hrnp_new), kind="parse", serialise=ser, canon=view, group="hrnp"))
    eps.append(H.EP("hstrp.build", hstrp_new, hstrp_args, kind="build", serialise=ser, canon=view, group="hstrp", draws=3))
    eps.append(H.EP("hstrp.from_bytes", L.hstrp.HSTRP.from_bytes, wire_of(hstrp_args, hstrp_new), kind="parse", serialise=ser, canon=view, group="hstrp", draws=2))
    eps.append(H.EP("hstrp.options.from_bytes", L.hstrp.HSTRPOptions.from_bytes, lambda rng: (gen_options(rng, rng.choice([1, 2, 3])).as_bytes(),), kind="parse", canon=view, group="hstrp"))

    def ip4(rng):
        return (bytes(rng.choice([10, 0, 255, rng.randrange(256)]) for _ in range(4)),)

    eps.append(H.EP("radio_ip.from_bytes", L.RadioIP.from_bytes, ip4, kind="parse", serialise=ser, canon=view, group="ip", draws=2))
    eps.append(H.EP("radio_ip.from_bytes(little)", lambda b: L.RadioIP.from_bytes(b, "little"), ip4, kind="parse", canon=view, group="ip", domain="ip"))
    return eps


def run(ctx):
    load()
    rng = ctx.rng
    ctx.rule = (
        "corpus: every hex capture quoted in /repo/okdmr/tests/dmrlib/hytera (+ the byte literals of test_rrs, the inputs of "
        "the two repaired defects); generated: per service a field generator over all implemented opcodes (RRS 5, LP 2, TMP 8, "
        "RCP 17) with boundary-favouring integers (radio ids 0..2^24-1, request/ids 0..2^32-1), random UTF-16 text incl. "
        "surrogate pairs and NULs, option data 0..300 octets, GPS values over the NMEA range on the 10^-4 grid, every PDU alone, "
        "nested in HRNP DATA (random addresses / numbers) and nested in HSTRP with 0..4 options of 0..255 octets and a random "
        "consistent packet type (now and then 9..40 options); plus mutated / truncated serialisations for the parsers' correspondence. "
        "Every PDU is built from specification values and the constructed attributes are compared with them. Special-token "
        "dictionary: ~45 code-point tokens (BOM U+FEFF/U+FFFE, NUL, CR LF, surrogate pairs, unpaired surrogates, U+FFFF, combining / "
        "normalisation / case sensitive characters, whitespace, frame delimiters) x {alone, start, middle, end} of a message text handed "
        "over as str and as octets, ~19 octet tokens x 4 positions x every opaque byte-string field; the same tokens are mixed into the "
        "random stream. Object histories: 3..10 steps on ONE object out of {len, as_bytes, repr, accessors, wrap in / observe a kept HRNP "
        "or HSTRP, assign a field (same / other size), change a RadioIP / GPSData / settings dict / option list / packet type in place, "
        "switch the opcode, parse or deepcopy and carry on, change the wrapper's own fields}, started from a built or a parsed PDU of "
        "every service, property + fresh-object + hand-written packet + model compared after every step; objects are kept and "
        "re-verified at the end. Round 3 probes: option lists by provenance recipe (4 origins of the entry objects x 9 ways of filling the list x 9 identity "
        "patterns incl. the same entry object several times / last, equal-but-not-identical entries); one sub-object shared by several fields / PDUs / "
        "wrappers and changed through one reference (6 kinds); size extremes inside one PDU (option chains up to 32 760 / 70 000 entries, payloads at "
        "65 535 - overhead, HRNP at 65 535, thresholds 2^8 / 2^12 / 2^15 / 2^16, one past each limit refused) with the model driven at these sizes; a fixed "
        "sample answered again 100 frames below the recursion limit, with logging at DEBUG and dead standard streams, with failing calls in between, with "
        "`random` reseeded and in a child `python -O`. Round 4 argument forms: for every service x opcode every constructor argument x every other form of the "
        "same value (time with microseconds / tzinfo / fold, datetime as date, subclasses of time / date / float / int / str / bytes / dict / RadioIP, IntEnum, bool, "
        "numpy.float64 / bool_, octets for Union[bytes, X], bare int for Union[int, Enum], int / Decimal / Fraction coordinates, bytearray / memoryview blobs, RadioIP "
        "from other library paths), one at a time and several at once, HRNP / HSTRP arguments too, all 13 time forms x clock boundaries, all GPS forms x 6 base records; "
        "expected = octets of the PDU built from the plain values + hand-written wrappers + the model's reading of the GPS argument forms; rich time / date objects also "
        "in 20 % of the LP reports of the random stream and in history steps. Round 5 constant tables: every Enum member / dict-literal key / class constant of "
        "okdmr/dmrlib/hytera/pdu/*.py and of what they import, read with ast from the current source and compared with the catalogue c12.enums.json (direction only): hand-written "
        "frames of the 40 implemented message kinds (plain / reliable), every documented member in every field where its enum is parsed, every value of every 8-bit field, "
        "the seed-rotated sixteenth (thorough: all) of 0..65535 + the neighbourhood of every catalogue entry in every 16-bit field and as raw opcode of an UnknownService PDU "
        "built by the library, all 128 HSTRP option types, all 256 HRNP opcodes, and every value that differs from the catalogue (old, new, each +-1) in every field of every kind; "
        "entry points: service class, HDAP, HRNP and HSTRP from_bytes of hand-written wrappers; what parses is rebuilt through the constructor and goes through the whole oracle. "
        "A case is one PDU (distinct = distinct field tuple and text hand-over), one history, one probe or one frame; all are non-trivial except table frames that carry an undocumented value."
    )
    ctx.trusted_base += [
        "tools/py2lean.py + tools/extract_transl.py (source translator: Gen/TranslHytera.lean from inspect.getsource of HDAP.get_hdap_checksum / HRNP.calculate_checksum) and "
        "lean/DmrVerif/Model/Py.lean (semantics of the Python subset); validated on every run by the differential operations t.hy.* (run_transl); "
        "Props/C12t proves the translated definitions equal to the model's hdapChecksum / hrnpCheck for all byte strings",
    ]
    run_transl(ctx)
    ctx.trusted_base += [
        "Lean 4.33 kernel",
        "tools/extract_hytera.py (member values of the Hytera enums, complete value graphs checked against member-or-missing)",
        "hand-written model Model/Hdap.lean, Hrnp.lean, Hstrp.lean tied to the code by this run's correspondence",
        "Python float formatting / parsing of the LP ASCII fields is modelled over exact decimals (latitude/longitude in 10^-4 units, "
        "speed as its repr digits) and only cross-checked by the correspondence, not verified",
        "the readings of the constructor argument forms (Model/Hdap.lean TimeArg / DateArg / CoordArg / SpeedArg / DirArg: strftime / format read h, m, s / d, m, y / the "
        "numeric value only) are modelled and tied to the code by the `arg.gps` correspondence lines; forms of the other services' arguments are compared on the real code only "
        "(octets of the PDU built from the plain values, which the model answers)",
        "Python's strict UTF-16-LE codec is modelled (Model/Hdap.lean utf16le, theorems in Props/C12c.lean) and compared on every text handed over as str "
        "(`tmp.text` lines) and with a hand-written encoder in the oracle; datetime.strftime, bitarray are trusted",
        "the model has no object state: histories are tied to it by evaluating the model on the object's current field values after every step",
        "the model has no object identity either: provenance / alias probes hand it the option VALUES by position (Props/C12b options_position_not_identity, "
        "options_replicate state that the chain depends on nothing else); the interpreter's call stack is not modelled (the Lean parser is total by fuel = "
        "input length) — stack depth is exercised on the real code only",
    ]
    ctx.assumptions += [
        "in-range fields: enum-typed attributes are members, integers fit their wire width, GPS coordinates are multiples of 10^-4 "
        "below 10^4 / 10^5 minutes, dates lie in 2000..2099, RCP raw payloads have the length their opcode fixes "
        "(zone/channel request 5, id/ip reply 4, broadcast configuration 1+2n), an UnknownService raw opcode is not a known opcode "
        "(table sweeps: not an opcode that is listed both in the catalogue c12.enums.json and in the current source), "
        "status-change settings are a dict (distinct targets)",
        "HSTRP packets are 'consistent': options only with the option bit and without the heartbeat bit; option bit without options only without payload",
        "fields compared are the attributes the opcode serialises (relevant_tuple); attributes an opcode never writes are not fields of that PDU",
        "text: a str of Unicode scalar values, or any even number of octets (unpaired surrogates travel as octets only; the strict codec refuses them in a str); "
        "odd-length octet strings are not UTF-16 text and appear only in the parsers' correspondence",
        "sizes: payloads up to 65 535 octets, HRNP packets up to 65 535 octets, option data up to 255 octets are in range; one octet more is out of range and "
        "only has to be refused (or, if something is serialised, to be right): OverflowError / ValueError there is not a failure",
        "option list entries are 2-tuples (tuple or a tuple subclass) of (HSTRPOptionType member, bytes); lists / generators as entries, bytearray / memoryview data are not exercised",
        "argument forms: a form is in range when the signature's type (or a subclass of it / the other member of its Union) describes it and its serialised meaning is the "
        "plain value's: a time / date object may carry microseconds, a UTC offset (the wall-clock h:m:s is what is sent), fold, a time of day; forms that only work by duck "
        "typing today (Decimal / Fraction / int coordinates, bytearray / memoryview octets, numpy.bool_ flags) are exercised where the unchanged code has a reading of them; "
        "not exercised because the unchanged code has no reading of them and the signature does not name them: speed as int / Decimal / numpy.float32, direction as float / "
        "numpy integer, text as bytearray, raw RCP opcode as memoryview, numpy.bool_ flags of an HSTRP packet type, -0.0 coordinates",
        "table sweeps: a hand-written frame is documented when every enum-typed field carries a member value of the catalogue c12.enums.json (taken by `--rebaseline`; "
        "a difference from it is never a verdict) and the opcode is the kind's own or, for RCP, one the catalogue does not list (pass-through); documented frames have to parse and "
        "re-encode to themselves; frames with other values only have to be consistent if they parse (not asked of enums that fold unknown values onto a reserved member)",
        "object histories keep every intermediate state in range (option data present before the option flag is set, an opcode is switched only to one whose "
        "fields the object holds) and never change the constructors' shared default objects (GPSData.zero(), the default settings dict) in place",
    ]
    do_corr = (not ctx.search_only) and ctx.driver_ok
    pairs = [] if do_corr else None

    # -------- corpus and regression inputs first
    run_corpus(ctx, pairs)
    run_hrnp_length_witness(ctx, pairs)
    for kind, p in regression_pdus():
        one_pdu(ctx, rng, p, kind, pairs, sample=kind.endswith("request"))
    if pairs is not None:
        ctx.correspond("corpus and regression inputs", pairs)
        pairs = []
    # -------- round 5: constant tables (enum members / dict keys) read from the current source, swept through every field and entry point
    run_tables(ctx, rng, pairs)

    gens = [("RRS", gen_rrs), ("LP", gen_lp), ("TMP", gen_tmp), ("RCP", gen_rcp)]
    # -------- round 3: where arguments come from (one object at several places), sizes at the limits of the length fields
    payloads = [t for t in (safe(g(rng).expected) for _n, g in gens * 3) if not t.startswith("ERR")]
    run_provenance(ctx, rng, pairs, payloads)
    run_alias(ctx, rng, pairs)
    run_sizes(ctx, rng, pairs)
    if pairs is not None:
        ctx.correspond("provenance / shared sub-objects / size extremes", pairs)
        pairs = []
    # -------- round 4: the same field values handed over as other Python types / shapes
    run_argtype(ctx, rng, pairs)
    if pairs is not None:
        ctx.correspond("argument forms (GPS record from rich / other-typed arguments)", pairs)
        pairs = []
    # -------- the special-token dictionary (every token x position x field, text as str and as octets)
    held = []  # objects kept alive with the bytes they serialised to: re-verified after everything else ran
    for kind, c in token_cases(rng):
        p = build_case(ctx, c)
        if p is not None:
            ctx.count("token:" + kind.split(":")[1])
            b = one_pdu(ctx, rng, p, kind, pairs, case=c)
            if b is not None and len(held) < 400 and rng.random() < 0.2:
                held.append((kind, p, b, input_of(p, case=c)))
    # -------- generated PDUs
    n = ctx.budget(2500, 25000)
    gens = [("RRS", gen_rrs), ("LP", lambda r: gen_lp(r, rich_p=0.2)), ("TMP", gen_tmp), ("RCP", gen_rcp)]
    for i in range(n):
        for name, g in gens:
            c = g(rng)
            p = build_case(ctx, c)
            if p is None:
                continue
            b = one_pdu(ctx, rng, p, name, pairs, sample=i == 3, case=c)
            if b is not None and i % 40 == 0 and len(held) < 400:
                held.append((name, p, b, input_of(p, case=c)))
        if pairs is not None and len(pairs) > 20000:
            ctx.correspond("pdu build/parse (alone, HRNP, HSTRP)", pairs)
            pairs = []
    # big payloads (length field beyond one octet, up to the 16-bit limit)
    for i in range(ctx.budget(6, 60)):
        c = gen_tmp(rng, True)
        p = build_case(ctx, c)
        if p is not None:
            one_pdu(ctx, rng, p, "TMP-big", pairs, case=c)
    # -------- known finding: speeds that do not fit (kept separate so that the fitting stream stays clean)
    for i in range(ctx.budget(40, 400)):
        c = gen_lp(rng, "over")
        p = build_case(ctx, c)
        if p is not None:
            one_pdu(ctx, rng, p, "LP-speed-over", pairs, nest=i % 4 == 0, case=c)
    # -------- object histories: one object observed, wrapped, changed, observed again
    run_histories(ctx, rng, pairs, held)
    # -------- round 3: a fixed sample answered again under other interpreter / process states
    run_ambient(ctx, rng)
    if pairs is not None and len(pairs) > 20000:
        ctx.correspond("pdu build/parse (alone, HRNP, HSTRP)", pairs)
        pairs = []
    # -------- HRNP without data, HSTRP without payload
    H, S = L.hrnp, L.hstrp
    for i in range(ctx.budget(60, 600)):
        op = rng.choice([o for o in H.HRNPOpcodes if o != H.HRNPOpcodes.DATA])
        h = H.HRNP(opcode=op, source=pick_int(rng, 255), destination=pick_int(rng, 255), block_number=pick_int(rng, 255), packet_number=pick_int(rng, 65535))
        hb = call(h.as_bytes)
        inp = {"layer": "hrnp", "opcode": op.value, "fields": safe(hrnp_tuple, h)}
        ctx.case(("hrnp-nodata", inp["fields"]))
        ctx.count("hrnp:no-data")
        if isinstance(hb, Exc) or len(hb) != 12 or int.from_bytes(hb[8:10], "big") != 12 or len(h) != 12 or not spec_ones_complement_ok(hb):
            ctx.fail("hrnp-length", inp, "HRNP without data is not a 12-octet packet with verifying checksum", expected=12, actual=repr(hb))
        else:
            h2 = call(H.HRNP.from_bytes, hb)
            if isinstance(h2, Exc) or not h2.checksum_correct or call(h2.as_bytes) != hb or hrnp_fields(h2) != hrnp_fields(h):
                ctx.fail("roundtrip-bytes", inp, "HRNP without data does not round-trip", expected=hb.hex(), actual=repr(h2))
            if pairs is not None:
                pairs.append((f"hrnp.mk {hx(h.header)} {hx(h.version)} {h.block_number} {h.opcode.value} {h.source} {h.destination} {h.packet_number} NONE", hx(hb) + " 12"))
                pairs.append((f"hrnp.parse {hx(hb)}", impl_hrnp_parse(hb)))
    for i in range(ctx.budget(120, 1200)):
        ctx.count("hstrp:no-payload")
        ctx.case(("hstrp-nopayload", i, ctx.seed))
        check_hstrp(ctx, rng, None, None, {"fields": "NONE", "service": "-"}, pairs)
    # all 256 packet type octets
    if pairs is not None:
        for v in range(256):
            t = S.HSTRPPacketType.from_bytes(bytes([v]))
            pairs.append((f"type.byte {v}", f"{t.as_bytes()[0]} {b01(t.has_options)} {b01(t.has_data)}"))
    for v in range(64):
        bits = [(v >> (5 - i)) & 1 == 1 for i in range(6)]
        t = S.HSTRPPacketType(*bits)
        t2 = S.HSTRPPacketType.from_bytes(t.as_bytes())
        ctx.case(("pkt-type", v))
        if t.as_bytes() != bytes([v]) or [t2.have_options, t2.is_reject, t2.is_close, t2.is_connect, t2.is_heartbeat, t2.is_ack] != bits:
            ctx.fail("hstrp-type-bits", {"layer": "hstrp", "type": v}, "packet type bits do not round-trip", expected=v, actual=t.as_bytes().hex())

    # -------- parsers on mutated input (correspondence only: error kinds, fields, re-serialisation)
    if pairs is not None:
        def fresh_base():
            out = []
            for name, g in gens * 3:
                p = call(g(rng).build)
                b = call(p.as_bytes) if not isinstance(p, Exc) else p
                if not isinstance(b, Exc):
                    out.append((name, p, b))
            return out

        base = fresh_base()
        m = ctx.budget(4000, 30000)
        for i in range(m):
            if i % 50 == 0:
                base = fresh_base()
            name, p, b = rng.choice(base)
            is_rep = name == "LP" and b[1:3] == b"\xa0\x02"
            layer = rng.choice(["hdap", "hdap", "hrnp", "hstrp", "opts"])
            if layer == "hdap":
                d = mutate(rng, b, is_rep)
                if lp_report_unmodelled(d):
                    ctx.count("mutated:skipped-unmodelled")
                    continue
                pairs.append((f"hdap.parse {hx(d)}", impl_hdap_parse(d)))
            elif layer == "hrnp":
                hb = L.hrnp.HRNP(opcode=L.hrnp.HRNPOpcodes.DATA, data=p, packet_number=rng.randrange(65536)).as_bytes()
                d = bytearray(hb)
                r = rng.random()
                if r < 0.3:
                    d = d[: rng.randrange(len(d))]
                elif r < 0.8:
                    i2 = rng.randrange(12)
                    d[i2] = rng.choice([d[i2] ^ (1 << rng.randrange(8)), rng.randrange(256)])
                else:
                    d = d + gen_bytes(rng, 3)
                d = bytes(d)
                if lp_report_unmodelled(d[12 : int.from_bytes(d[8:10], "big")]):
                    ctx.count("mutated:skipped-unmodelled")
                    continue
                pairs.append((f"hrnp.parse {hx(d)}", impl_hrnp_parse(d)))
            elif layer == "hstrp":
                k = rng.choice([0, 1, 2, 3])
                opts = call(gen_options, rng, k)
                if isinstance(opts, Exc):
                    continue
                t = L.hstrp.HSTRPPacketType(*[rng.random() < 0.4 for _ in range(6)])  # not necessarily consistent
                sb = bytearray(L.hstrp.HSTRP(pkt_type=t, sn=rng.randrange(65536), options=opts, payload=p if rng.random() < 0.7 else None).as_bytes())
                r = rng.random()
                if r < 0.3:
                    sb = sb[: rng.randrange(len(sb) + 1)]
                elif r < 0.6:
                    i2 = rng.randrange(min(len(sb), 6 + len(opts) + 1))
                    sb[i2] = rng.choice([sb[i2] ^ (1 << rng.randrange(8)), rng.randrange(256)])
                sb = bytes(sb)
                # the payload the parser will look at must stay inside what the model covers
                skip = any(lp_report_unmodelled(sb[j:]) for j in range(6, min(len(sb), 6 + len(opts) + 8)))
                if skip:
                    ctx.count("mutated:skipped-unmodelled")
                    continue
                pairs.append((f"hstrp.parse {hx(sb)}", impl_hstrp_parse(sb)))
            else:
                o4 = call(gen_options, rng, rng.choice([1, 2, 3, 4]))
                if isinstance(o4, Exc):
                    continue
                ob = bytearray(o4.as_bytes() + gen_bytes(rng, rng.choice([0, 0, 3])))
                r = rng.random()
                if r < 0.4:
                    ob = ob[: rng.randrange(len(ob) + 1)]
                elif r < 0.7:
                    i2 = rng.randrange(len(ob))
                    ob[i2] = rng.choice([ob[i2] ^ (1 << rng.randrange(8)), rng.randrange(256)])
                pairs.append((f"opts.parse {hx(bytes(ob))}", impl_opts_parse(bytes(ob))))
            ctx.count("mutated:" + layer)
        # checksums on arbitrary byte strings
        for i in range(ctx.budget(300, 3000)):
            d = gen_bytes(rng, rng.choice([0, 1, 2, 3, 10, 11, 64, 255, 256, 1000]))
            pairs.append((f"hdap.cksum {hx(d)}", str(L.hdap.HDAP.get_hdap_checksum(d)[0])))
            if L.hdap.HDAP.get_hdap_checksum(d)[0] != spec_hdap_checksum(d):
                ctx.fail("frame-checksum", {"layer": "hdap", "checked": d.hex()}, "get_hdap_checksum differs from the independent formula")
        ctx.correspond("pdu build/parse (alone, HRNP, HSTRP), mutated parsers, checksums", pairs)
    import histories

    histories.run(ctx, ENTRY_POINTS, max_eps=16)
    verify_held(ctx, held)


# ------------------------------------------------------------------------------------------------


class ReplayCtx:
    """minimal context to re-run the oracle on one input"""

    def __init__(self):
        self.failures = []

    def fail(self, kind, i, what, expected=None, actual=None):
        self.failures.append((kind, what, expected, actual))

    def count(self, *a):
        pass

    def case(self, *a, **k):
        pass


def replay(obj):
    load()
    f = obj.get("failure") or {}
    inp = f.get("input") or {}
    if str(f.get("kind", "")).startswith("history:"):
        import histories

        return histories.replay(inp, ENTRY_POINTS)
    print(obj.get("type"), "-", f.get("what"))
    print("input:", inp)
    still = 0
    if inp.get("probe") in PROBES:
        c = ReplayCtx()
        print(f"probe {inp['probe']} with parameters {json.dumps(inp['params'])[:2000]}")
        r = call(PROBES[inp["probe"]], c, inp["params"], None)
        if isinstance(r, Exc):
            c.fail("probe-raises", None, f"the probe raised {r}")
        for kf in c.failures:
            print("oracle:", kf[0], "-", kf[1], "| expected", str(kf[2])[:600], "| actual", str(kf[3])[:600])
        if inp["probe"] == "provenance":
            o, values, _keep = build_options(inp["params"]["recipe"])
            print("implementation options.as_bytes():", safe(lambda: o.as_bytes().hex()), " written out by hand:", spec_tlv([(c2.value, d) for c2, d in values]).hex())
            print("model: run `echo 'opts.parse <hex written out by hand>' | lean/.lake/build/bin/drv_c12` (the model has no object identity: it is given the values by position)")
        still = 1 if c.failures else 0
    elif inp.get("probe") == "ambient":
        pr = inp["params"]
        base = eval_item(pr["item"])
        if pr["setting"] == CHILD:
            got = child_result(child_start([pr["item"]]))[0]
        else:
            got = eval_under(pr["setting"], [pr["item"]], random.Random(pr.get("fseed", 0)))[0]
        print("plain answer:          ", abbr(base))
        print(f"under [{pr['setting']}]:", abbr(got))
        still = 0 if got == base else 1
    elif "frame" in inp and "fields" not in inp:
        still = replay_frame(inp)
    elif "corpus" in inp:
        data = bytes.fromhex(inp["corpus"])
        cls = {"hstrp": L.hstrp.HSTRP, "hrnp": L.hrnp.HRNP, "hdap": L.hdap.HDAP}[inp.get("layer", "hdap")]
        o = call(cls.from_bytes, data)
        b = call(o.as_bytes) if not isinstance(o, Exc) and o is not None else o
        print("implementation: parse ->", repr(o) if isinstance(o, Exc) else type(o).__name__, "; re-encode ->", repr(b) if isinstance(b, Exc) or b is None else b.hex())
        still = 0 if (not isinstance(b, Exc) and b == data) else 1
    elif "history" in inp and isinstance(inp.get("fields0"), str):
        c = ReplayCtx()
        st = call(start_state, inp["fields0"], inp.get("origin", "built"))
        if isinstance(st, Exc):
            print("cannot rebuild the starting object:", st)
            return 1
        print("start:", inp.get("origin", "built"), "from", inp["fields0"])
        verify_state(c, st, {"fields0": inp["fields0"]}, None, True)
        for i, step in enumerate(inp["history"]):
            r = call(apply_step, st, step)
            b, n = call(st.p.as_bytes), call(len, st.p)
            print(f"step {i + 1}: {json.dumps(step)} -> fields {safe(pdu_tuple, st.p)}")
            print(f"         as_bytes {repr(b) if isinstance(b, Exc) else b.hex()} len() {n!r}" + ("" if st.h is None else f" HRNP {safe(lambda: st.h.as_bytes().hex())}")
                  + ("" if st.s is None else f" HSTRP {safe(lambda: st.s.as_bytes().hex())}"))
            if isinstance(r, Exc):
                c.fail("history-step-raises", None, f"step raised {r}")
                break
            if not verify_state(c, st, {"fields0": inp["fields0"]}, None, True):
                break
        for kf in c.failures:
            print("oracle:", kf[0], "-", kf[1], "| expected", kf[2], "| actual", kf[3])
        still = 1 if c.failures else 0
        print("model: the model has no object state; run `echo 'hdap.mk <fields>' | lean/.lake/build/bin/drv_c12` for the fields printed at the failing step")
    elif inp.get("fields") == "NONE" and inp.get("nesting") == "HSTRP":
        c = ReplayCtx()
        replay_hstrp(c, None, None, {"fields": "NONE", "service": "-"}, inp)
        for kf in sorted(set((k[0], k[1]) for k in c.failures)):
            print("oracle:", kf)
        still = 1 if c.failures else 0
    elif isinstance(inp.get("fields"), str) and inp["fields"].split(" ")[0] in SERVICE:
        p = call(build_from_tuple, inp["fields"], inp.get("text_as", "octets"), inp.get("rich"))
        if isinstance(p, Exc):
            print("cannot rebuild the PDU from its field tuple:", p)
            return 1
        c = ReplayCtx()
        if inp.get("text_as"):
            print("text handed to the constructor as", inp["text_as"])
        if inp.get("rich"):
            print("GPS time / date handed to the constructor as", safe(lambda: repr(p.gpsdata.greenwich_time)), "/", safe(lambda: repr(p.gpsdata.greenwich_date)))
        check_built(c, p, dict(inp))
        b = call(p.as_bytes)
        print("implementation as_bytes:", repr(b) if isinstance(b, Exc) else b.hex(), "len():", call(len, p))
        if not isinstance(b, Exc):
            q = call(L.hdap.HDAP.from_bytes, b)
            print("implementation from_bytes ->", repr(q) if isinstance(q, Exc) else safe(pdu_tuple, q))
            b2 = call(q.as_bytes) if not isinstance(q, Exc) and q is not None else q
            print("implementation re-serialised:", repr(b2) if isinstance(b2, Exc) or b2 is None else b2.hex())
            i2 = dict(input_of(p), fields=inp["fields"])
            bb = check_frame(c, p, i2)
            if bb is not None:
                check_roundtrip(c, p, bb, i2)
            if inp.get("nesting") == "HRNP":
                for s in range(20):
                    check_hrnp(c, random.Random(s), p, bb, i2, None)
            if inp.get("nesting") == "HSTRP":
                replay_hstrp(c, p, bb, i2, inp)
            for kf in sorted(set((k[0], k[1]) for k in c.failures)):
                print("oracle:", kf)
            still = 1 if c.failures else 0
        else:
            still = 1
        print("model: run `echo 'hdap.mk " + inp["fields"] + "' | lean/.lake/build/bin/drv_c12`")
    else:
        print("expected:", f.get("expected"), "actual:", f.get("actual"))
        still = 1
    print("expected:", f.get("expected"))
    print("actual:  ", f.get("actual"))
    return still


def replay_hstrp(c, p, bb, i2, inp):
    """the recorded option list (filled by add_option) around the PDU, then other option lists / packet types"""
    H = L.hstrp
    ol = (inp.get("hstrp") or {}).get("options")
    if isinstance(ol, str) and ol != "-" and "…" not in ol and " " not in ol:
        spec = [(member(H.HSTRPOptionType, int(e.split(":")[0])), b"" if e.split(":")[1] == "-" else bytes.fromhex(e.split(":")[1])) for e in ol.split(",")]
        for s in range(3):
            check_hstrp(c, random.Random(s), p, bb, i2, None, opts=gen_options(None, len(spec), spec), spec=spec)
    for s in range(20):
        check_hstrp(c, random.Random(s), p, bb, i2, None)


def ip_plan(s):
    return None if s == "N" else {"__ip__": True, "subnet": int(s.split(":")[0]), "radio_id": int(s.split(":")[1])}


def ctor_plan(t: str, text_as: str = "octets"):
    """(service, constructor arguments) a field tuple denotes — inverse of pdu_tuple.  Plain values; a RadioIP / GPSData argument is a
    dict of ITS constructor arguments (marked __ip__ / __gps__) so that a single argument of the nested constructor can be replaced
    by another form of the same value (argtype probes) before materialise() makes the real objects"""
    a = t.split(" ")
    unhx = lambda s: b"" if s == "-" else bytes.fromhex(s)  # noqa
    if a[0] == "RRS":
        R = L.rrs
        return "RRS", dict(opcode=R.RRSTypes(int(a[2])), is_reliable=a[1] == "1", radio_ip=ip_plan(a[3]), result=int(a[4]), renew_time_seconds=int(a[5]), radio_state=int(a[6]))
    if a[0] == "LP":
        lp = L.lp
        kw = dict(opcode=lp.LocationProtocolSpecificService(int(a[2])), is_reliable=a[1] == "1", request_id=int(a[3]), radio_ip=ip_plan(a[4]))
        if len(a) > 5:
            tr = lambda s: None if s == "N" else [int(x) for x in s.split(":")]  # noqa
            tm, dt = tr(a[7]), tr(a[8])
            kw["result"] = int(a[5])
            kw["gpsdata"] = {"__gps__": True, "data_valid": "A" if a[6] == "1" else "V", "greenwich_time": NUL6 if tm is None else time(*tm),
                             "greenwich_date": NUL6 if dt is None else date(2000 + dt[2], dt[1], dt[0]), "north_south": "N" if a[9] == "1" else "S",
                             "latitude": int(a[10]) / 10000, "east_west": "E" if a[11] == "1" else "W", "longitude": int(a[12]) / 10000,
                             "speed_knots": float(a[13]), "direction": int(a[14])}
        return "LP", kw
    if a[0] == "TMP":
        T = L.tmp
        return "TMP", dict(opcode=T.TMPService(int(a[4])), is_reliable=a[1] == "1", is_confirmed=a[2] == "1", has_option=a[3] == "1", request_id=int(a[5]),
                           destination_ip=ip_plan(a[6]), source_ip=ip_plan(a[7]),
                           text_data="".join(chr(c) for c in spec_utf16le_decode(unhx(a[8]))) if text_as == "str" else unhx(a[8]), option_data=None if a[9] == "N" else unhx(a[9]),
                           result_code=None if a[10] == "N" else T.TMPResultCodes(int(a[10])), short_data=unhx(a[11]))
    if a[0] == "RCP":
        C = L.rcp
        O = C.RCPOpcode
        op = O(int(a[2]))
        kw = dict(opcode=op, is_reliable=a[1] == "1")
        r = a[3:]
        if op == O.UnknownService:
            kw.update(raw_opcode=unhx(r[0]), raw_payload=unhx(r[1]))
        elif op == O.CallRequest:
            kw.update(call_type=int(r[0]), target_id=int(r[1]))
        elif op in (O.CallReply, O.BroadcastMessageConfigurationReply, O.BroadcastStatusConfigurationReply, O.StatusChangeNotificationReply):
            kw.update(result=C.RCPResult(int(r[0])))
        elif op == O.RepeaterBroadcastTransmitStatus:
            kw.update(repeater_mode=C.RepeaterMode(int(r[0])), repeater_status=C.RepeaterStatus(int(r[1])), repeater_service_type=C.RepeaterServiceType(int(r[2])),
                      call_type=C.RCPCallType(int(r[3])), target_id=int(r[4]), sender_id=int(r[5]))
        elif op == O.BroadcastMessageConfigurationRequest:
            kw.update(broadcast_type=int(r[0]))
        elif op == O.RadioIDAndRadioIPQueryRequest:
            kw.update(target=C.RadioIpIdTarget(int(r[0])))
        elif op == O.RadioIDAndRadioIPQueryReply:
            kw.update(result=C.RCPResult(int(r[0])), target=C.RadioIpIdTarget(int(r[1])), raw_value=unhx(r[2]))
        elif op == O.BroadcastStatusConfigurationRequest:
            kw.update(broadcast_config_raw=unhx(r[0]))
        elif op == O.SendTalkerAliasRequest:
            kw.update(call_type=C.RCPCallType(int(r[0])), sender_id=int(r[1]), target_id=int(r[2]), talker_alias_format=L.TAF(int(r[3])), talker_alias_data=unhx(r[4]))
        elif op == O.SendTalkerAliasReply:
            kw.update(result=C.RCPResult(int(r[0])), call_type=C.RCPCallType(int(r[1])), sender_id=int(r[2]), target_id=int(r[3]))
        elif op in (O.ZoneAndChannelOperationRequest, O.ZoneAndChannelOperationReply):
            kw.update(raw_payload=unhx(r[0]))
        elif op == O.StatusChangeNotificationRequest:
            kw.update(status_change_settings={} if r[0] == "-" else {C.StatusChangeNotificationTargets(int(e.split(":")[0])): C.StatusChangeNotificationSetting(int(e.split(":")[1])) for e in r[0].split(",")})
        elif op == O.RadioStatusReport:
            kw.update(status_change_target=C.StatusChangeNotificationTargets(int(r[0])), status_change_value=int(r[1]))
        return "RCP", kw
    raise ValueError("unknown tuple " + t)


class Made:
    """an argument that is already the real object (a substituted form): materialise() hands it over as it is"""

    def __init__(self, v):
        self.v = v


def materialise(v):
    """the real constructor argument of a plan value"""
    if isinstance(v, Made):
        return v.v
    if isinstance(v, dict) and v.get("__ip__"):
        return L.RadioIP(radio_id=materialise(v["radio_id"]), subnet=materialise(v["subnet"]))
    if isinstance(v, dict) and v.get("__gps__"):
        return L.lp.GPSData(**{k: materialise(x) for k, x in v.items() if k != "__gps__"})
    return v


_SUBCLASSES = {}


def subclass_of(cls):
    """an application's own subclass of a library class (nothing overridden)"""
    if cls not in _SUBCLASSES:
        _SUBCLASSES[cls] = type("App" + cls.__name__, (cls,), {})
    return _SUBCLASSES[cls]


def build_plan(svc, plan):
    cls = Case.CLS[svc]()
    if isinstance(plan.get("__class__"), Made):
        cls = subclass_of(cls)
    return cls(**{k: materialise(v) for k, v in plan.items() if k != "__class__"})


def build_from_tuple(t: str, text_as: str = "octets", rich=None):
    """the real PDU a field tuple denotes (text_as = "str": the TMP text goes to the constructor as a str; rich: the GPS time / date
    handed over as objects that carry more than is serialised, see rich_time / rich_date)"""
    svc, plan = ctor_plan(t, text_as)
    if rich and isinstance(plan.get("gpsdata"), dict):
        g = plan["gpsdata"]
        if rich.get("time") and isinstance(g["greenwich_time"], time):
            g["greenwich_time"] = rich_time(g["greenwich_time"], rich["time"])
        if rich.get("date") and isinstance(g["greenwich_date"], date):
            g["greenwich_date"] = rich_date(g["greenwich_date"], rich["date"])
    return build_plan(svc, plan)


if __name__ == "__main__":
    # maintainer switch: after an INTENDED change of an enum / dict table of the Hytera PDU modules, make the current tables the catalogue
    if sys.argv[1:] == ["--rebaseline"]:
        print("written", HT.rebaseline(PROP, HT.roots_pdu()))
    else:
        print("usage: /venv/bin/python harness/props/c12.py --rebaseline   (the check itself runs through harness/check.py C12)")
        sys.exit(2)
