"""C16 — Motorola TMS and ARS messages keep length framing and fields over a round trip (DESIGN §5 C16)."""
import json

from common import impl_error

PROP = "C16"
MODULES = ["C16", "C16t"]
GEN = ["Tms", "Ars", "TranslArs", "TranslTms"]
MATCHERS = {}

TMS_TYPES = ["SERVICE_AVAILABILITY", "TMS_ACKNOWLEDGEMENT", "SIMPLE_TEXT_MESSAGE"]
TMS_ENCS = ["UNDEFINED", "UCS2_LE"]
ARS_TYPES = [
    "DEVICE_REGISTRATION_REQUEST",
    "DEVICE_DEREGISTATION_NOTICE",
    "USER_REGISTRATION_REQUEST",
    "USER_DEREGISTRATION_REQUEST",
    "USER_REGISTRATION_RESPONSE",
    "STATUS_QUERY_REQUEST",
    "ARS_DEVICE_OR_QUERY_RESPONSE",
]
ARS_IMPLEMENTED = (0, 1, 2, 5, 6)
ARS_REG = (0, 2)
ARS_RESPONSE = 6
ARS_EVENTS = ["DONT_CARE", "INITIAL", "REFRESH"]
ARS_FAILS = ["DEVICE_NOT_AUTHORIZED", "USER_ID_NOT_VALID", "USER_VALIDATION_TIMEOUT", "TRANSMISSION_FAILURE"]


def T():
    import okdmr.dmrlib.motorola.text_messaging_service as m

    return m


def A():
    import okdmr.dmrlib.motorola.automatic_registration_service as m

    return m


def hx(b) -> str:
    return b.hex() if len(b) else "-"


def ohx(b) -> str:
    return "N" if b is None else hx(b)


def onat(v) -> str:
    return "-" if v is None else str(int(v))


def unhx(s):
    return b"" if s in ("-", "") else bytes.fromhex(s)


def call(fn, *a):
    try:
        return fn(*a)
    except BaseException as e:  # noqa: every exception of the real code is an observable
        return impl_error(e)


def is_err(x) -> bool:
    return isinstance(x, str) and x.startswith("ERR ")


# ------------------------------------------------------------------------------------------------
# TMS
# ------------------------------------------------------------------------------------------------
def tms_build(f):
    m = T()
    ty = getattr(m.TMSPDUType, TMS_TYPES[f["type"]])
    if f.get("ctor") == "int":
        # the constructor form FirstHeader.from_bytes uses: (is_control_message, int)
        hdr = m.FirstHeader(
            has_more_headers=f["more"], is_acknowledged=f["ack"], is_reserved=f["res"],
            is_control_message=int(ty.value[0]), pdu_type=int(ty.value[1]),
        )
    else:
        hdr = m.FirstHeader(
            has_more_headers=bool(f["more"]), is_acknowledged=bool(f["ack"]), is_reserved=bool(f["res"]), pdu_type=ty
        )
    cap = None if f["cap"] is None else m.AvailabilitySecondHeader(m.TMSDeviceCapability(f["cap"]))
    enc = None if f["enc"] is None else getattr(m.TMSEncoding, TMS_ENCS[f["enc"]])
    msg = None if f["msg"] is None else unhx(f["msg"])
    return m.TextMessagingService(
        first_header=hdr, address=unhx(f["addr"]), availability_header=cap,
        sequence_number=f["seq"], encoding=enc, message=msg,
    )


def tms_enc_line(f) -> str:
    return "tms.enc %d %d %d %d %s %s %s %s %s" % (
        f["more"], f["ack"], f["res"], f["type"], f["addr"] or "-", onat(f["cap"]), onat(f["seq"]), onat(f["enc"]),
        "N" if f["msg"] is None else (f["msg"] or "-"),
    )


def tms_view(q):
    """observable fields of a parsed / built TextMessagingService"""
    m = T()
    return {
        "more": int(bool(q.header.has_more_headers)),
        "ack": int(bool(q.header.is_acknowledged)),
        "res": int(bool(q.header.is_reserved)),
        "ctl": int(bool(q.header.is_control_message)),
        "type": TMS_TYPES.index(q.header.pdu_type.name),
        "addr": hx(q.address),
        "cap": None if q.availability_header is None else int(q.availability_header.capability.value),
        "seq": q.sequence_number,
        "enc": None if q.encoding is None else TMS_ENCS.index(q.encoding.name),
        "msg": None if q.message is None else hx(q.message),
    }


def tms_show(v) -> str:
    return "%d %d %d %d %d %s %s %s %s %s" % (
        v["more"], v["ack"], v["res"], v["ctl"], v["type"], v["addr"], onat(v["cap"]), onat(v["seq"]), onat(v["enc"]),
        "N" if v["msg"] is None else v["msg"],
    )


def tms_dec(data: bytes) -> str:
    q = call(T().TextMessagingService.from_bytes, data)
    if is_err(q):
        return q
    if q is None:
        return "NONE"
    return tms_show(tms_view(q))


def tms_in_range(f) -> bool:
    """the messages the property quantifies over"""
    if len(unhx(f["addr"])) > 255:
        return False
    if f["type"] == 0:
        return True
    if f["type"] == 1:
        if f["seq"] is None:
            return f["enc"] is None
        return 0 <= f["seq"] <= 127
    return f["seq"] is not None and 0 <= f["seq"] <= 127 and f["msg"] is not None and len(unhx(f["msg"])) <= 400


def tms_norm(f):
    """what the parser must return for an in-range message: the listed normalisations only"""
    ty = f["type"]
    enc = 1 if f["enc"] == 1 else None  # UNDEFINED is the wire value 0 = "no encoding"
    ctl = int(bool(getattr(T().TMSPDUType, TMS_TYPES[ty]).value[0]))
    v = {"ack": f["ack"], "ctl": ctl, "type": ty, "addr": f["addr"] or "-", "cap": None, "seq": None, "enc": None, "msg": None}
    v["res"] = int(bool(f["res"]) or ty == 2)  # reserved bit forced for text messages
    if ty == 0:
        v["cap"] = f["cap"]
        v["more"] = int(f["cap"] is not None)
    elif ty == 1:
        v["seq"] = f["seq"]
        v["enc"] = enc if f["seq"] is not None else None
        v["more"] = int(f["seq"] is not None)
    else:
        v["seq"] = f["seq"]
        v["enc"] = enc
        v["msg"] = f["msg"] or "-"
        v["more"] = 1
    return v


def tms_oracle(f):
    """the property on the real code; returns None or (kind, what, expected, actual)"""
    m = T()
    p = call(tms_build, f)
    if is_err(p):
        return ("tms-build-raises", "building the message from fields raised", "object", p)
    b = call(p.as_bytes)
    if is_err(b):
        return ("tms-serialise-raises", "as_bytes raised for an in-range message", "bytes", b)
    if len(b) < 2 or int.from_bytes(b[:2], "big") != len(b) - 2:
        return ("tms-length-prefix", "leading length differs from the number of bytes that follow", len(b) - 2, b.hex())
    q = call(m.TextMessagingService.from_bytes, b)
    if is_err(q) or q is None:
        return ("tms-parse-raises", "from_bytes rejected the library's own serialisation", "object", str(q))
    want, got = tms_norm(f), tms_view(q)
    if want != got:
        return ("tms-fields", "parsed fields differ from the fields the message was built from", want, got)
    if f["type"] == 2 and f.get("text") is not None:
        # canonical str of the text's code units (a low+high surrogate sequence "dc00 d800 dc00" reads back with the
        # inner pair joined, which is the same UCS-2 text)
        want_t = u16(f["text"]).decode("utf-16-le", "surrogatepass")
        t = call(lambda: q.message.decode("utf-16-le", "surrogatepass"))
        if t != want_t:
            return ("tms-text", "UCS-2 text differs after the round trip", ascii(want_t), ascii(t))
    b2 = call(q.as_bytes)
    if b2 != b:
        return ("tms-reserialise", "serialising the parsed message gives different bytes", b.hex(), b2 if is_err(b2) else b2.hex())
    return None


# ------------------------------------------------------------------------------------------------
# ARS
# ------------------------------------------------------------------------------------------------
def ars_build(f):
    m = A()
    ty = getattr(m.ARSPDUType, ARS_TYPES[f["type"]])
    if f.get("ctor") == "int":
        hdr = m.FirstHeader(
            has_more_headers=f["more"], is_acknowledged=f["ack"], is_priority=f["prio"],
            is_control_message=f["ctl"], pdu_type=int(ty.value),
        )
    else:
        hdr = m.FirstHeader(
            has_more_headers=bool(f["more"]), is_acknowledged=bool(f["ack"]), is_priority=bool(f["prio"]),
            is_control_message=bool(f["ctl"]), pdu_type=ty,
        )
    rrh = None
    if f["rrh"] is not None:
        rrh = m.RegistrationRequestHeader(
            event=getattr(m.RegistrationEvent, ARS_EVENTS[f["rrh"][0]]), encoding=m.Encoding.UTF8
        )
    rsh = None
    if f["rsh"] is not None:
        r = f["rsh"]
        fr = None if r["f"] is None else getattr(m.FailureReason, ARS_FAILS[r["f"]])
        rsh = m.ResponseSecondHeader(failure_reason=fr, refresh_time=r["r"])
        if r["ctx"] == "self":
            rsh.context(hdr)
        elif r["ctx"] == "other":
            rsh.context(m.FirstHeader(is_acknowledged=not f["ack"], pdu_type=ty))
    ident = lambda s: None if s is None else unhx(s).decode("utf-8")  # noqa: E731
    first = hdr.as_bytes() if f.get("ctor") == "bytes" else hdr
    return m.AutomaticRegistrationService(
        first_header=first, registration_request_header=rrh, response_second_header=rsh,
        device_identifier=ident(f["dev"]), user_identifier=ident(f["user"]), password=ident(f["pw"]),
        is_csbk_ars=bool(f["csbk"]),
    )


def rsh_show(r) -> str:
    if r is None:
        return "-"
    return "%s.%s.%s" % (onat(r["f"]), onat(r["r"]), r["c"])


def ars_enc_line(f) -> str:
    r = f["rsh"]
    if r is not None:
        c = {"none": "-", "self": str(int(bool(f["ack"]))), "other": str(int(not f["ack"]))}[r["ctx"]]
        r = {"f": r["f"], "r": r["r"], "c": c}
    return "ars.enc %d %d %d %d %d %s %s %s %s %s %d" % (
        f["more"], f["ack"], f["prio"], f["ctl"], f["type"],
        "-" if f["rrh"] is None else "%d.%d" % tuple(f["rrh"]),
        rsh_show(r),
        "N" if f["dev"] is None else (f["dev"] or "-"),
        "N" if f["user"] is None else (f["user"] or "-"),
        "N" if f["pw"] is None else (f["pw"] or "-"),
        f["csbk"],
    )


def ars_view(q):
    m = A()
    # "surrogatepass": a str the strict codec cannot encode must still be shown (it is then a difference)
    sid = lambda s: None if s is None else hx(s.encode("utf-8", "surrogatepass") if isinstance(s, str) else bytes(s))  # noqa: E731
    rsh = None
    if q.response_second_header is not None:
        r = q.response_second_header
        rsh = {
            "f": None if r.failure_reason is None else ARS_FAILS.index(r.failure_reason.name),
            "r": r.refresh_time,
            "c": "-" if r.first_header is None else str(int(bool(r.first_header.is_acknowledged))),
        }
    rrh = None
    if q.registration_request_header is not None:
        r = q.registration_request_header
        rrh = [ARS_EVENTS.index(r.event.name), 0 if r.encoding == m.Encoding.UTF8 else 99]
    return {
        "more": int(bool(q.header.has_more_headers)), "ack": int(bool(q.header.is_acknowledged)),
        "prio": int(bool(q.header.is_priority)), "ctl": int(bool(q.header.is_control_message)),
        "type": ARS_TYPES.index(q.header.pdu_type.name),
        "rrh": rrh, "rsh": rsh,
        "dev": sid(q.device_identifier), "user": sid(q.user_identifier), "pw": sid(q.password),
        "csbk": int(bool(q.is_csbk_ars)),
    }


def ars_show(v) -> str:
    return "%d %d %d %d %d %s %s %s %s %s %d" % (
        v["more"], v["ack"], v["prio"], v["ctl"], v["type"],
        "-" if v["rrh"] is None else "%d.%d" % tuple(v["rrh"]),
        rsh_show(v["rsh"]),
        "N" if v["dev"] is None else v["dev"], "N" if v["user"] is None else v["user"], "N" if v["pw"] is None else v["pw"],
        v["csbk"],
    )


def ars_dec(data: bytes) -> str:
    q = call(A().AutomaticRegistrationService.from_bytes, data)
    if is_err(q):
        return q
    if q is None:
        return "NONE"
    return ars_show(ars_view(q))


def ars_in_range(f) -> bool:
    if f["type"] not in ARS_IMPLEMENTED:
        return False
    for k in ("dev", "user", "pw"):
        if f[k] is not None and len(unhx(f[k])) > 255:
            return False
    if f["type"] in ARS_REG:
        return (not f["more"]) or f["rrh"] is not None
    if f["type"] == ARS_RESPONSE and f["more"]:
        r = f["rsh"]
        if r is None or r["ctx"] != "self":
            return False
        if f["ack"]:
            return r["f"] is not None
        return r["r"] is not None and 1 <= r["r"] <= 127
    return True


def ars_norm(f):
    v = {k: f[k] for k in ("more", "ack", "prio", "ctl", "type", "csbk")}
    v.update({"rrh": None, "rsh": None, "dev": None, "user": None, "pw": None})
    if f["type"] in ARS_REG:
        for k in ("dev", "user", "pw"):
            v[k] = f[k] or "-"  # None and "" are the same zero-length field
        if f["more"]:
            v["rrh"] = list(f["rrh"])
    elif f["type"] == ARS_RESPONSE and f["more"]:
        # the octet carries the failure reason or the refresh time, selected by the acknowledged flag;
        # the parser fills the other attribute from the same octet
        if f["ack"]:
            v["rsh"] = {"f": f["rsh"]["f"]}
        else:
            v["rsh"] = {"r": f["rsh"]["r"]}
    return v


def ars_oracle(f):
    m = A()
    p = call(ars_build, f)
    if is_err(p):
        return ("ars-build-raises", "building the message from fields raised", "object", p)
    b = call(p.as_bytes)
    if is_err(b):
        return ("ars-serialise-raises", "as_bytes raised for an in-range message", "bytes", b)
    if len(b) < 2 or int.from_bytes(b[:2], "big") != len(b) - 2:
        return ("ars-length-prefix", "leading length differs from the number of bytes that follow", len(b) - 2, b.hex())
    n = call(len, p)
    if n != len(b):
        return ("ars-len", "__len__ differs from the serialised length", len(b), n)
    # the reported length of the sub-headers the message carries (coverage round: their __len__ was never executed)
    for name in ("first_header", "registration_request_header", "response_second_header"):
        h = getattr(p, name, None)
        if h is not None and hasattr(type(h), "__len__") and hasattr(h, "as_bytes"):
            hb, hn = call(h.as_bytes), call(len, h)
            # (a header the message type does not carry may hold values its own encoder refuses: nothing to compare then)
            if not is_err(hb) and hn != len(hb):
                return ("ars-len", f"__len__ of the {name} differs from the number of octets it serialises to", len(hb), hn)
    q = call(m.AutomaticRegistrationService.from_bytes, b)
    if is_err(q) or q is None:
        return ("ars-parse-raises", "from_bytes rejected the library's own serialisation", "object", str(q))
    want, got = ars_norm(f), ars_view(q)
    if want["rsh"] is not None and got["rsh"] is not None:
        if got["rsh"]["c"] != str(f["ack"]):
            return ("ars-fields", "parsed second header is not bound to the parsed first header", str(f["ack"]), got["rsh"]["c"])
        got = dict(got, rsh={k: got["rsh"][k] for k in want["rsh"]})
    if want != got:
        return ("ars-fields", "parsed fields differ from the fields the message was built from", want, got)
    b2 = call(q.as_bytes)
    if b2 != b:
        return ("ars-reserialise", "serialising the parsed message gives different bytes", b.hex(), b2 if is_err(b2) else b2.hex())
    return None


# ------------------------------------------------------------------------------------------------
# generators
# ------------------------------------------------------------------------------------------------
def pick_len(rng, hi, edges):
    r = rng.random()
    if r < 0.45:
        return rng.choice(edges)
    if r < 0.75:
        return rng.randint(0, min(hi, 12))
    return rng.randint(0, hi)


SEQ_EDGES = [0, 1, 2, 15, 16, 30, 31, 32, 33, 63, 64, 65, 95, 96, 97, 126, 127]
UCS2_EDGES = [0x0000, 0x0001, 0x0010, 0x007F, 0x0080, 0x00FF, 0x0100, 0x07FF, 0x0800, 0x1080, 0x8010, 0xD7FF, 0xE000, 0xFFFD, 0xFFFF]
CP_EDGES = [0x00, 0x10, 0x7F, 0x80, 0xBF, 0x7FF, 0x800, 0x1000, 0x1080, 0xFFF, 0xD7FF, 0xE000, 0xFFFF, 0x10000, 0x10080, 0x3FFFF, 0x40000, 0x100000, 0x10FFFF]


def rand_ucs2(rng, n):
    out = []
    for _ in range(n):
        if rng.random() < 0.2:
            c = rng.choice(UCS2_EDGES)
        else:
            c = rng.randrange(0x10000)
            if 0xD800 <= c <= 0xDFFF:
                c = 0x41
        out.append(chr(c))
    return "".join(out)


def rand_cp(rng):
    r = rng.random()
    if r < 0.25:
        return rng.choice(CP_EDGES)
    if r < 0.55:
        return rng.randrange(0x80)
    if r < 0.75:
        return rng.randrange(0x80, 0x800)
    if r < 0.92:
        c = rng.randrange(0x800, 0x10000)
        return 0x20AC if 0xD800 <= c <= 0xDFFF else c
    return rng.randrange(0x10000, 0x110000)


def rand_ident(rng, nbytes):
    """a str whose UTF-8 form has exactly nbytes bytes"""
    out = b""
    while len(out) < nbytes:
        c = chr(rand_cp(rng)).encode("utf-8")
        if len(out) + len(c) <= nbytes:
            out += c
        elif nbytes - len(out) <= 1:
            out += bytes([rng.randrange(0x80)])
    # strings that end in the octet 0x80 after a 0x10 octet somewhere near the end are the ones that come
    # closest to the CSBK trailer 10 80
    if nbytes >= 3 and rng.random() < 0.15:
        tail = rng.choice(["\x10\u0080", "\x10က", "\x10Ѐ", "А\u0080", "\x10\U00010080"]).encode("utf-8")
        if len(tail) <= nbytes:
            # cut only at a character boundary ("ignore" drops an incomplete trailing sequence)
            out = out[: nbytes - len(tail)].decode("utf-8", errors="ignore").encode("utf-8")
            out = out + b"a" * (nbytes - len(tail) - len(out)) + tail
    out.decode("utf-8")
    return out


def gen_tms(rng, in_range_bias=0.85):
    f = {"proto": "tms"}
    f["type"] = rng.randrange(3)
    f["more"], f["ack"], f["res"] = rng.randrange(2), rng.randrange(2), rng.randrange(2)
    f["ctor"] = rng.choice(["member", "member", "int"])
    n = pick_len(rng, 255, [0, 1, 2, 3, 4, 127, 128, 254, 255])
    f["addr"] = bytes(rng.randrange(256) for _ in range(n)).hex()
    if rng.random() < 0.15:
        tok = bytes.fromhex(rng.choice(list(RAW_CORE.values()))) if rng.random() < 0.5 else u16(rng.choice(list(TOK_CORE.values())))
        a = place(tok, unhx(f["addr"])[: max(0, 255 - 3 * len(tok))], rng.choice(PLACEMENTS))
        f["addr"] = a[:255].hex()
    strict = rng.random() < in_range_bias
    f["cap"] = None
    f["seq"] = None
    f["enc"] = None
    f["msg"] = None
    f["text"] = None
    ty = f["type"]
    if ty == 0 or not strict:
        f["cap"] = rng.choice([None, 0, 1, 2, 3]) if (ty == 0 or rng.random() < 0.5) else None
    if ty in (1, 2) or not strict:
        r = rng.random()
        if ty == 1 and r < 0.2:
            f["seq"] = None
        elif r < 0.6:
            f["seq"] = rng.choice(SEQ_EDGES)
        else:
            f["seq"] = rng.randrange(128)
        f["enc"] = rng.choice([None, 0, 1, 1])
        if ty == 1 and f["seq"] is None and strict:
            f["enc"] = None
    if ty == 2 or (not strict and rng.random() < 0.5):
        k = pick_len(rng, 200, [0, 1, 2, 3, 199, 200])
        f["text"] = rand_ucs2(rng, k)
        if rng.random() < 0.25:
            # special tokens (CR LF, BOM, NUL, surrogates, protocol constants ...) into the random text
            f["text"] = decorate_text(rng, f["text"], 200, lambda t: len(u16(t)) // 2)
            f["special"] = "text:random"
        f["msg"] = u16(f["text"]).hex()
    if not strict:
        # leave the property's range on purpose (model and code must still agree, including on errors)
        r = rng.random()
        if r < 0.2:
            f["seq"] = rng.choice([128, 129, 255, 256, 1000])
        elif r < 0.35:
            f["seq"] = None
        elif r < 0.45:
            f["msg"] = None
            f["text"] = None
        elif r < 0.55:
            f["addr"] = bytes(rng.randrange(256) for _ in range(rng.choice([256, 257, 300]))).hex()
        elif r < 0.65 and f["msg"] is not None:
            f["msg"] = bytes(rng.randrange(256) for _ in range(rng.randrange(0, 9))).hex()  # odd lengths
            f["text"] = None
    return f


def gen_ars(rng, in_range_bias=0.85):
    f = {"proto": "ars"}
    strict = rng.random() < in_range_bias
    f["type"] = rng.choice(ARS_IMPLEMENTED) if strict or rng.random() < 0.7 else rng.randrange(7)
    for k in ("more", "ack", "prio", "ctl", "csbk"):
        f[k] = rng.randrange(2)
    f["ctor"] = rng.choice(["member", "member", "int", "bytes"])
    f["rrh"] = None
    f["rsh"] = None
    f["dev"] = f["user"] = f["pw"] = None
    ty = f["type"]
    if ty in ARS_REG or (not strict and rng.random() < 0.3):
        if f["more"] or rng.random() < 0.3:
            f["rrh"] = [rng.randrange(3), 0]
        for k in ("dev", "user", "pw"):
            r = rng.random()
            if r < 0.12:
                f[k] = None
            else:
                n = pick_len(rng, 255, [0, 1, 2, 3, 4, 16, 127, 128, 129, 254, 255])
                v = rand_ident(rng, n)
                if r > 0.75:
                    v = decorate_text(rng, v.decode("utf-8"), 255, lambda t: len(t.encode("utf-8", "surrogatepass")))
                    v = (v if not _has_surrogate(v) else "".join(c for c in v if not _has_surrogate(c))).encode("utf-8")
                    f["special"] = "ident:random"
                f[k] = v.hex()
    if ty == ARS_RESPONSE or (not strict and rng.random() < 0.3):
        if f["more"] or rng.random() < 0.3:
            if f["ack"]:
                fr = rng.randrange(4)
                rt = rng.choice([None, None, 0, 5, 127])
            else:
                fr = rng.choice([None, None, None, 0, 1, 3])
                rt = rng.choice([1, 2, 3, 16, 63, 64, 126, 127]) if rng.random() < 0.5 else rng.randint(1, 127)
            f["rsh"] = {"f": fr, "r": rt, "ctx": "self"}
    if not strict:
        r = rng.random()
        if r < 0.25 and f["rsh"] is not None:
            f["rsh"]["ctx"] = rng.choice(["none", "other"])
        elif r < 0.4 and f["rsh"] is not None:
            f["rsh"]["r"] = rng.choice([128, 129, 200, 255, 256, 300])
            if rng.random() < 0.5:
                f["rsh"]["f"] = None
        elif r < 0.5:
            f["rrh"] = None
        elif r < 0.6:
            f["rsh"] = None
        elif r < 0.75:
            k = rng.choice(["dev", "user", "pw"])
            f[k] = rand_ident(rng, rng.choice([256, 257, 300])).hex()
        elif r < 0.85 and f["rsh"] is not None and not f["ack"]:
            f["rsh"]["f"] = rng.randrange(4)
            f["rsh"]["r"] = None
            f["rsh"]["ctx"] = rng.choice(["none", "self"])
    if f["rsh"] is not None and f["rsh"]["f"] is None and not f["rsh"]["r"]:
        # the constructor asserts `failure_reason or refresh_time`; exercised separately (ars.rsh)
        f["rsh"]["r"] = 1
    return f


def mutate(rng, b: bytes) -> bytes:
    """malformed / foreign inputs for the parsers: model and code must agree on every one"""
    b = bytearray(b)
    r = rng.random()
    if r < 0.25 and b:
        del b[rng.randrange(len(b)) :]
    elif r < 0.5 and b:
        i = rng.randrange(len(b))
        b[i] = rng.choice([0, 1, 0x10, 0x7F, 0x80, 0xFF, rng.randrange(256)])
    elif r < 0.65 and len(b) >= 2:
        v = max(0, int.from_bytes(b[:2], "big") + rng.choice([-3, -2, -1, 1, 2, 3, 250]))
        b[:2] = (v & 0xFFFF).to_bytes(2, "big")
    elif r < 0.8:
        b += bytes(rng.choice([0x10, 0x80, 0, rng.randrange(256)]) for _ in range(rng.randrange(1, 4)))
    elif r < 0.9 and b:
        i = rng.randrange(len(b))
        b[i] ^= 1 << rng.randrange(8)
    else:
        b = bytearray(rng.randrange(256) for _ in range(rng.randrange(0, 12)))
    return bytes(b)


# ------------------------------------------------------------------------------------------------
# special-token dictionary for every text-like field (TMS text and address, ARS identifiers / password)
#
# The model treats these fields as opaque octet strings, so any code path that looks INTO the text
# (drops a leading CR LF, decodes with a BOM-eating codec, strips / truncates at NUL, normalises, parses
# digits, ...) is by construction a difference to the model and a violation of "parses back to equal
# fields".  Such a path is only taken for particular contents, at a particular position of a particular
# field; the generators below put every token of the dictionary at start / middle / end of every such
# field, alone and doubled, under every encoding, and send each case through the oracle AND the
# correspondence.
# ------------------------------------------------------------------------------------------------
def _has_surrogate(s: str) -> bool:
    return any(0xD800 <= ord(c) <= 0xDFFF for c in s)


def u16(s: str) -> bytes:
    return s.encode("utf-16-le", "surrogatepass")


def u8(s: str):
    """UTF-8 octets of a str, None where the str has none (lone surrogates)"""
    return None if _has_surrogate(s) else s.encode("utf-8")


# tokens every (placement x field x encoding x carrier) combination is tried with
TOK_CORE = {
    # line structure
    "crlf": "\r\n", "lfcr": "\n\r", "cr": "\r", "lf": "\n", "crcrlf": "\r\r\n", "tab": "\t", "nel": "\x85",
    "ls": "\u2028", "ps": "\u2029",
    # byte-order marks, non-characters, replacement character
    "bom": "\ufeff", "bom-swapped": "\ufffe", "ffff": "\uffff", "fffd": "\ufffd", "fdd0": "\ufdd0",
    "bom-as-latin1": "\xef\xbb\xbf", "bom16-as-latin1": "\xff\xfe", "bom16be-as-latin1": "\xfe\xff",
    # NUL and padding (C strings, fixed-width fields)
    "nul": "\x00", "nul3": "\x00\x00\x00", "nul8": "\x00" * 8, "ff-char": "\xff", "del": "\x7f", "esc": "\x1b",
    "c1-80": "\x80", "c1-9f": "\x9f",
    # blanks str.strip() / bytes.strip() remove, invisible characters
    "sp": " ", "sp2": "  ", "nbsp": "\xa0", "emsp": "\u2003", "idsp": "\u3000", "zwsp": "\u200b", "zwj": "\u200d",
    "rlo": "\u202e", "wj": "\u2060", "shy": "\xad", "vs16": "\ufe0f",
    # combining marks / characters that change under NFC, NFKC, case mapping
    "acute": "\u0301", "e-acute-nfd": "e\u0301", "e-acute-nfc": "\xe9", "jamo": "\u1100\u1161", "angstrom": "\u212b",
    "fi": "\ufb01", "sharp-s": "\xdf", "dotted-I": "\u0130", "fw-digits": "\uff11\uff12",
    # outside the BMP (surrogate pairs in UCS-2, four octets in UTF-8)
    "emoji": "\U0001f600", "u10000": "\U00010000", "u10ffff": "\U0010ffff", "flag": "\U0001f1e8\U0001f1ff",
    # lone surrogates (encodable only where the field is octets: TMS text, address)
    "hi-surrogate": "\ud800", "lo-surrogate": "\udfff", "swapped-pair": "\udc00\ud800",
    # escapes and format directives
    "quote": "'", "dquote": '"', "bslash": "\\", "pct-s": "%s", "pct-00": "%00", "esc-x00": "\\x00", "esc-rn": "\\r\\n",
    "braces": "{}", "amp": "&amp;", "comma": ",", "semi": ";",
    # values a numeric / keyword normalisation changes
    "zero": "0", "007": "007", "plus1": "+1", "minus0": "-0", "0x10": "0x10", "none-word": "None", "null-word": "null",
    # protocol constants as characters: CSBK trailer 10 80 (UTF-16-LE of U+8010, and the two characters),
    # its byte swap, the TMS optional header for UCS2_LE (80 04 = U+0480), header octets, length-value look-alikes
    "csbk-u8010": "\u8010", "csbk-chars": "\x10\x80", "csbk-u1080": "\u1080", "dle": "\x10", "snhdr-u0480": "\u0480",
    "snhdr-u0484": "\u0484", "hdr-e0": "\xe0", "hdr-1f": "\x1f", "hdr-50": "\x50", "hdr-bf": "\xbf", "hdr-3f": "\x3f", "hdr-f0": "\xf0",
    "hdr-d0": "\xd0", "lv-look": "\x02ab", "lv-empty3": "\x00\x00\x00\x01", "pdu-look": "\x00\x03\x3f\x10", "len-look": "\x00\x04",
}
# further tokens tried at start / middle / end / alone with one carrier: every C0 control, the other C1 controls
# and Unicode blanks, more keywords
TOK_EXTRA = {f"c0-{c:02x}": chr(c) for c in range(1, 0x20) if chr(c) not in "\r\n\t\x1b\x10"}
TOK_EXTRA.update({f"c1-{c:02x}": chr(c) for c in (0x81, 0x84, 0x8D, 0x90, 0x9B)})
TOK_EXTRA.update({
    f"blank-{ord(c):04x}": c for c in "\u1680\u2000\u2001\u2002\u2004\u2005\u2006\u2007\u2008\u2009\u200a\u202f\u205f\u180e\u200c\u200e\u200f\u202a\u202c\u2066\u2069"
})
TOK_EXTRA.update({
    "grave-acute": "\u0300\u0301", "enclosing": "\u20dd", "hangul": "\uac00", "dotless-i": "\u0131", "dz": "\u01c5", "fw-A": "\uff21",
    "arabic-digit": "\u0663", "kelvin": "\u212a", "ohm": "\u2126", "u1fffe": "\U0001fffe", "ufeff-pair": "\ufeff\ufffe",
    "lt": "<", "gt": ">", "colon": ":", "at": "@", "slash": "/", "dotdot": "../", "star": "*", "qm": "?", "hash": "#", "eq": "=", "pipe": "|",
    "dollar": "$", "backtick": "`", "pct": "%", "pct-d": "%d", "u-escape": "\\ufeff", "nul-escape": "\\0",
    "zeros": "00", "1e3": "1e3", "1_0": "1_0", "sp7": " 7", "7lf": "7\n", "false-word": "False", "true-word": "true", "nan": "nan",
    "empty-word": "empty", "unknown-word": "unknown", "anonymous": "anonymous", "ack-word": "ACK", "at-cmd": "AT+",
    "misaligned-crlf": "\u0d41\u0a00\x00", "misaligned-bom": "\uff41\u00fe", "crlf-be": "\u0d00\u0a00",
    "nul2": "\x00\x00", "nul4": "\x00" * 4, "nul16": "\x00" * 16, "ff4": "\xff" * 4, "sp8": " " * 8,
})
# raw octet tokens for the fields that are octets in the API (TMS text, TMS address): tokens of another
# encoding than the field's, odd lengths, protocol constants and whole PDUs
RAW_CORE = {
    "crlf8": "0d0a", "lf8": "0a", "cr8": "0d", "crlf16be": "000d000a", "bom8": "efbbbf", "bom16le": "fffe", "bom16be": "feff",
    "bom32le": "fffe0000", "nul1": "00", "nul2": "0000", "nul3": "000000", "ff1": "ff", "ff2": "ffff", "csbk": "1080", "csbk-swapped": "8010",
    "dle": "10", "x80": "80", "snhdr-ucs2": "8004", "snhdr-1": "05", "snhdr-127": "9f64", "hdr-text": "e0", "hdr-ack": "9f", "hdr-ack0": "1f",
    "hdr-avail": "d0", "hdr-ars-bf": "bf", "hdr-ars-3f": "3f", "hdr-ars-f0": "f0", "len-0": "0000", "len-4": "0004", "len-max": "ffff",
    "pdu-tms-avail": "0003d00001", "pdu-tms-ack": "00021f00", "pdu-tms-text": "000de001019544610068006f006a00", "pdu-ars-csbk": "00033f1080",
    "pdu-ars-reg": "0007f0200231310000", "hi-surrogate": "00d8", "lo-surrogate": "ffdf", "odd-crlf16": "0d000a", "sp8": "20", "sp16": "2000",
}
PLACEMENTS = ["alone", "alone2", "start", "start2", "middle", "middle2", "end", "end2", "both", "joined"]
PLACEMENTS_FEW = ["alone", "start", "middle", "end"]


def place(tok, body, where):
    """token into a body (both str or both bytes; bytes bodies are split at an even offset)"""
    h = (len(body) // 2) & ~1 if isinstance(body, bytes) else len(body) // 2
    if where == "alone":
        return tok
    if where == "alone2":
        return tok + tok
    if where == "start":
        return tok + body
    if where == "start2":
        return tok + tok + body
    if where == "middle":
        return body[:h] + tok + body[h:]
    if where == "middle2":
        return body[:h] + tok + tok + body[h:]
    if where == "end":
        return body + tok
    if where == "end2":
        return body + tok + tok
    if where == "both":
        return tok + body + tok
    if where == "joined":  # the token as separator: start of the 2nd, 3rd, ... part
        q = max(1, len(body) // 3) if not isinstance(body, bytes) else max(2, (len(body) // 3) & ~1)
        return tok.join(body[i : i + q] for i in range(0, len(body), q))
    raise ValueError(where)


TMS_BODY = "Reply be1ow"
ARS_BODY = {"dev": "2001", "user": "Op3rator", "pw": "s3cret"}
ADDR_BODY = bytes.fromhex("0a0b0c0d")
# Carrier messages: everything else about the message that could gate a content-dependent branch.  Six carriers per
# protocol form a pairwise covering array of the binary factors (column j of the array = the j-th 3-subset of rows
# 1..5, row 0 all zero: any two columns show 00, 01, 10 and 11), so every token x placement x encoding meets every
# value of every factor and every pair of factor values; the thorough tier adds the full factorial.
_SUBSETS = [(1, 2, 3), (1, 2, 4), (1, 2, 5), (1, 3, 4), (1, 3, 5), (1, 4, 5), (2, 3, 4), (2, 3, 5), (2, 4, 5), (3, 4, 5)]
_CA = [[int(r in sub) for sub in _SUBSETS] for r in range(6)]
TMS_CARRIERS = [
    {"more": c[0], "ack": c[1], "res": c[2], "addr": "0a0b0c" if c[3] else "", "seq": 85 if c[4] else 5, "ctor": "int" if c[5] else "member"}
    for c in _CA
]
# carriers 0 and 1 are complementary in every factor (row 1 of the array is replaced by the complement of row 0 in
# the consumers that only use two carriers)
TMS_CARRIERS2 = [TMS_CARRIERS[0], {"more": 1, "ack": 1, "res": 1, "addr": "0a0b0c", "seq": 85, "ctor": "int"}]
ARS_CARRIERS = [
    {"type": 2 if c[0] else 0, "more": c[1], "ack": c[2], "prio": c[3], "ctl": c[4], "csbk": c[5], "rrh": [r % 3, 0] if c[1] or c[8] else None,
     "ctor": "int" if c[6] else "member", "others": "empty" if c[7] else "plain"}
    for r, c in enumerate(_CA)
]
ARS_CARRIERS2 = [
    {"type": 0, "more": 1, "ack": 0, "prio": 0, "ctl": 0, "csbk": 0, "rrh": [1, 0], "ctor": "member", "others": "plain"},
    {"type": 2, "more": 0, "ack": 1, "prio": 1, "ctl": 1, "csbk": 1, "rrh": None, "ctor": "int", "others": "empty"},
]


def tms_text_fields(carrier, enc, msg: bytes, text, tag):
    f = {"proto": "tms", "type": 2, "cap": None, "enc": enc, "msg": msg.hex(), "text": text, "special": tag}
    f.update(carrier)
    return f


def ars_reg_fields(carrier, vals, tag):
    """vals: {"dev"/"user"/"pw": octets}; the other fields are ordinary values or empty, per carrier"""
    f = {"proto": "ars", "rsh": None, "special": tag}
    f.update({k: v for k, v in carrier.items() if k != "others"})
    for k in ("dev", "user", "pw"):
        if k in vals:
            f[k] = vals[k].hex()
        elif carrier["others"] == "plain":
            f[k] = ARS_BODY[k].encode().hex()
        else:
            f[k] = None if k == "user" else ""
    return f


def special_tokens(ctx, rng, pairs):
    """the dictionary x placements x fields (x encodings x carriers): a fixed share of both tiers"""
    te, td, ae, ad, misc = pairs
    plans = [(n, t, PLACEMENTS, tuple(range(6))) for n, t in TOK_CORE.items()]
    plans += [(n, t, PLACEMENTS_FEW, (i % 6,)) for i, (n, t) in enumerate(TOK_EXTRA.items())]
    for name, tok, places, carriers in plans:
        sur = _has_surrogate(tok)
        for where in places:
            tag = f"{name}@{where}"
            # TMS text: the token as UCS-2 characters, under no / UNDEFINED / UCS2_LE encoding
            text = place(tok, TMS_BODY, where)
            for ci in carriers:
                for enc in (None, 0, 1) if len(carriers) > 1 else (None, 1):
                    tms_case(ctx, tms_text_fields(TMS_CARRIERS[ci], enc, u16(text), text, "text:" + tag), te, td, "special")
                    ctx.count("special:tms-text")
            if len(carriers) > 1:
                # a third, random carrier (flags, sequence number, address, constructor form) per token and placement
                car = {"more": rng.randrange(2), "ack": rng.randrange(2), "res": rng.randrange(2), "seq": rng.choice(SEQ_EDGES),
                       "addr": bytes(rng.randrange(256) for _ in range(rng.choice([0, 1, 4, 16]))).hex(), "ctor": rng.choice(["member", "int"])}
                tms_case(ctx, tms_text_fields(car, rng.choice([None, 0, 1, 1]), u16(text), text, "text:" + tag), te, td, "special")
                ctx.count("special:tms-text-random-carrier")
            ctx.count(f"special:tms-text:{where}")
            # TMS address: the token's UTF-16-LE and UTF-8 octets inside the address of each PDU type
            for j, octs in enumerate((u16(tok), u8(tok))):
                if octs is None or len(carriers) == 1 and j == 1:
                    continue
                addr = place(octs, ADDR_BODY, where)
                for ty in range(3):
                    f = {"proto": "tms", "type": ty, "more": 0, "ack": ty & 1, "res": 0, "addr": addr.hex(), "cap": 2 if ty == 0 else None,
                         "seq": 33 if ty else None, "enc": 1 if ty == 2 else None, "msg": u16(TMS_BODY).hex() if ty == 2 else None,
                         "text": TMS_BODY if ty == 2 else None, "ctor": "member", "special": "addr:" + tag}
                    tms_case(ctx, f, te, td, "special")
                    ctx.count("special:tms-address")
            # ARS identifiers / password: the token as UTF-8, in each field and in all three at once
            if sur:
                ctx.count("special:ars-skipped-unencodable")
                continue
            for ci in carriers:
                for field in ("dev", "user", "pw", "all"):
                    ks = ("dev", "user", "pw") if field == "all" else (field,)
                    vals = {k: place(tok, ARS_BODY[k], where).encode("utf-8") for k in ks}
                    ars_case(ctx, ars_reg_fields(ARS_CARRIERS[ci], vals, f"{field}:{tag}"), ae, ad, "special")
                    ctx.count("special:ars-" + field)
            if len(carriers) > 1:
                more = rng.randrange(2)
                car = {"type": rng.choice(ARS_REG), "more": more, "ack": rng.randrange(2), "prio": rng.randrange(2), "ctl": rng.randrange(2),
                       "csbk": rng.randrange(2), "rrh": [rng.randrange(3), 0] if more else None, "ctor": rng.choice(["member", "int", "bytes"]),
                       "others": rng.choice(["plain", "empty"])}
                ks = rng.sample(("dev", "user", "pw"), rng.randint(1, 3))
                vals = {k: place(tok, ARS_BODY[k], where).encode("utf-8") for k in ks}
                ars_case(ctx, ars_reg_fields(car, vals, f"{'+'.join(sorted(ks))}:{tag}"), ae, ad, "special")
                ctx.count("special:ars-random-carrier")
            ctx.count(f"special:ars-ident:{where}")
    # raw octet tokens in the octet-typed fields
    body = u16(TMS_BODY)
    for name, h in RAW_CORE.items():
        tok = bytes.fromhex(h)
        for where in PLACEMENTS:
            tag = f"raw-{name}@{where}"
            msg = place(tok, body, where)
            for ci in range(6):
                for enc in (None, 0, 1):
                    tms_case(ctx, tms_text_fields(TMS_CARRIERS[ci], enc, msg, None, "text:" + tag), te, td, "special")
                    ctx.count("special:tms-text-raw")
            addr = place(tok, ADDR_BODY, where)
            for ty in range(3):
                f = {"proto": "tms", "type": ty, "more": 0, "ack": 0, "res": ty & 1, "addr": addr.hex(), "cap": 0 if ty == 0 else None,
                     "seq": 31 if ty else None, "enc": 1 if ty == 2 else None, "msg": body.hex() if ty == 2 else None,
                     "text": TMS_BODY if ty == 2 else None, "ctor": "member", "special": "addr:" + tag}
                tms_case(ctx, f, te, td, "special")
                ctx.count("special:tms-address-raw")
    # two different tokens in one value (adjacent at the start, first and last, adjacent at the end) and
    # different tokens in the three ARS fields: random pairs in quick, more in thorough
    names = list(TOK_CORE) + list(TOK_EXTRA)
    alltok = dict(TOK_CORE, **TOK_EXTRA)
    for _ in range(ctx.budget(600, 30000)):
        a, b, c = (alltok[rng.choice(names)] for _ in range(3))
        shape = rng.randrange(4)
        mk = lambda body: [a + b + body, a + body + b, body + a + b, a + body[: len(body) // 2] + b + body[len(body) // 2 :] + c][shape]  # noqa: E731
        text = mk(TMS_BODY if rng.random() < 0.8 else "")
        car = dict(rng.choice(TMS_CARRIERS), seq=rng.choice(SEQ_EDGES))
        tms_case(ctx, tms_text_fields(car, rng.choice([None, 0, 1, 1]), u16(text), text, "text:pair"), te, td, "special")
        ctx.count("special:tms-text-pairs")
        if not _has_surrogate(a + b + c):
            car = rng.choice(ARS_CARRIERS)
            if rng.random() < 0.5:
                vals = {k: mk(ARS_BODY[k] if rng.random() < 0.8 else "").encode("utf-8") for k in rng.sample(("dev", "user", "pw"), rng.randint(1, 3))}
            else:
                vals = {"dev": (a + ARS_BODY["dev"]).encode(), "user": (b + ARS_BODY["user"]).encode(), "pw": (c + ARS_BODY["pw"]).encode()}
            ars_case(ctx, ars_reg_fields(car, vals, "pair"), ae, ad, "special")
            ctx.count("special:ars-pairs")


MAX_CHARS = ["\ufeff", "\u20ac", "\uffff", "\u0800", "\x00", "\x7f", "\x80", "\u07ff", "\U00010000", "\U0010ffff", "\r\n", "\x10\x80", " ", "\u0301", "\xe9"]
MAX_UNITS = ["\r\n", "\ufeff", "\x00", "\uffff", "\ufffe", "\u8010", "\u0480", "\U0001f600", "\ud800", " ", "\n", "\u0301"]


def fill(ch: str, size: int, measure, pad_first: bool) -> str:
    """as many repetitions of ch as fit into `size` (measured by `measure`), padded with 'a'"""
    k = size // measure(ch)
    s = ch * k
    pad = "a" * (size - measure(s))
    return pad + s if pad_first else s + pad


def special_lengths(ctx, rng, pairs):
    """sibling classes of the token dictionary that are about SIZE: maximal-length values made of multi-byte
    characters, every text length 0..202 of special characters, sums of the three ARS fields around 256"""
    te, td, ae, ad, misc = pairs
    nb = lambda s: len(s.encode("utf-8"))  # noqa: E731
    nu = lambda s: len(u16(s)) // 2  # noqa: E731
    for ch in MAX_CHARS:
        for size in (253, 254, 255, 256, 258):
            for pad_first in (False, True):
                v = fill(ch, size, nb, pad_first).encode("utf-8")
                for ci, field in ((0, "dev"), (1, "user"), (0, "pw"), (1, "all")):
                    ks = ("dev", "user", "pw") if field == "all" else (field,)
                    ars_case(ctx, ars_reg_fields(ARS_CARRIERS2[ci], {k: v for k in ks}, f"{field}:max{size}:{ord(ch[0]):x}"), ae, ad, "special")
                    ctx.count("special:ars-maxlen-multibyte" if size <= 255 else "special:ars-overlong-multibyte")
    for ch in MAX_UNITS:
        for size in (199, 200, 201, 202):
            for pad_first in (False, True):
                text = fill(ch, size, nu, pad_first)
                for ci, enc in ((0, 1), (1, None), (1, 1)):
                    tms_case(ctx, tms_text_fields(TMS_CARRIERS2[ci], enc, u16(text), text, f"text:max{size}:{ord(ch[0]):x}"), te, td, "special")
                    ctx.count("special:tms-maxlen-text" if size <= 200 else "special:tms-overlong-text")
    # every core token before and behind a LONG ordinary value (a branch may be gated by the size of the value)
    for i, (name, tok) in enumerate(TOK_CORE.items()):
        for j, where in enumerate(("start", "end")):
            n = 200 - nu(tok)
            text = place(tok, ("Lorem ipsum d0lor sit amet " * 8)[:n], where)
            for enc in (1, None):
                tms_case(ctx, tms_text_fields(TMS_CARRIERS[(i + j) % 6], enc, u16(text), text, f"text:{name}@{where}-of-long"), te, td, "special")
                ctx.count("special:tms-token-with-long-text")
            if _has_surrogate(tok):
                continue
            for k in ("dev", "user", "pw"):
                v = place(tok, ("0123456789abcdefghijklmnopqrstuvwxyz" * 8)[: 255 - nb(tok)], where).encode("utf-8")
                ars_case(ctx, ars_reg_fields(ARS_CARRIERS[(i + j) % 6], {k: v}, f"{k}:{name}@{where}-of-long"), ae, ad, "special")
                ctx.count("special:ars-token-with-long-value")
    # every text length 0..202 (frame lengths crossing 255/256) of a cycle of special characters, CR LF first
    cyc = "\r\n\ufeff\x00\u8010\xe9\u20ac \uffff\u0301\n"
    for n in range(203):
        text = (cyc * (n // len(cyc) + 1))[:n]
        for ci, enc in ((n & 1, 1), (1 - (n & 1), None)):
            tms_case(ctx, tms_text_fields(TMS_CARRIERS2[ci], enc, u16(text), text, f"text:len{n}"), te, td, "special")
            ctx.count("special:tms-text-length-sweep")
    # 255-octet addresses made of constants
    for h in ("00", "ff", "1080", "0d000a00", "fffe", "efbbbf", "20"):
        for n in (254, 255):
            unit = bytes.fromhex(h)
            addr = (unit * (n // len(unit) + 1))[:n]
            for ty in range(3):
                f = {"proto": "tms", "type": ty, "more": 0, "ack": 0, "res": 0, "addr": addr.hex(), "cap": 3 if ty == 0 else None,
                     "seq": 127 if ty else None, "enc": 1 if ty == 2 else None, "msg": "0d000a00" if ty == 2 else None,
                     "text": "\r\n" if ty == 2 else None, "ctor": "member", "special": f"addr:max{n}:{h}"}
                tms_case(ctx, f, te, td, "special")
                ctx.count("special:tms-maxlen-address")
    # the three ARS fields together around a payload of 256 octets
    for n in range(80, 91):
        for ch in ("\ufeff", "\xe9", "a", "\U0001f600"):
            v = fill(ch, n, nb, False).encode("utf-8")
            ars_case(ctx, ars_reg_fields(ARS_CARRIERS[n % 6], {"dev": v, "user": v, "pw": v}, f"all:sum{3 * n}"), ae, ad, "special")
            ctx.count("special:ars-payload-256")


QUICK_BLOCKS = [(0x0000, 0x0500), (0x2000, 0x2100), (0xD7F0, 0xE010), (0xFDD0, 0xFDF0), (0xFE00, 0xFE10), (0xFEF0, 0x10000)]


def special_single_chars(ctx, rng, pairs):
    """every single character as the FIRST and as the LAST character of a TMS text and of an ARS identifier /
    password: thorough = every UCS-2 code unit (lone surrogates included) / every BMP scalar value plus 4096 others;
    quick = the blocks where the special characters live (controls, Latin, combining marks, general punctuation,
    surrogate borders, non-characters, presentation forms / BOM / specials) plus a random 1024 of the rest"""
    te, td, ae, ad, misc = pairs
    if ctx.thorough():
        cps = list(range(0x10000))
    else:
        cps = [c for lo, hi in QUICK_BLOCKS for c in range(lo, hi)]
        cps += [rng.randrange(0x500, 0xD7F0) for _ in range(768)] + [rng.randrange(0xE010, 0xFDD0) for _ in range(256)]
    astral = [0x10000, 0x1FFFF, 0x20000, 0xE0001, 0xE0100, 0xF0000, 0x10FFFE, 0x10FFFF] + [rng.randrange(0x10000, 0x110000) for _ in range(ctx.budget(64, 4096))]
    fields = ("dev", "user", "pw")
    for i, c in enumerate(cps + astral):
        ch = chr(c)
        for j, text in enumerate((ch + TMS_BODY, TMS_BODY + ch)):
            car = TMS_CARRIERS[(i + j) % 6]
            tms_case(ctx, tms_text_fields(car, (1, 1, None, 0)[(i >> 1) & 3], u16(text), text, f"text:char{c:04x}@{'start' if j == 0 else 'end'}"), te, td, "special")
        ctx.count("special:tms-text-single-char", 2)
        if 0xD800 <= c <= 0xDFFF:
            continue
        k = fields[i % 3]
        for j, v in enumerate((ch + ARS_BODY[k], ARS_BODY[k] + ch)):
            ars_case(ctx, ars_reg_fields(ARS_CARRIERS[(i + 2 * j) % 6], {k: v.encode("utf-8")}, f"{k}:char{c:04x}@{'start' if j == 0 else 'end'}"), ae, ad, "special")
        ctx.count("special:ars-single-char", 2)


def special_factorial(ctx, pairs):
    """thorough only: core tokens at start / alone / end under every flag combination, encoding and constructor form"""
    te, td, ae, ad, misc = pairs
    for name, tok in TOK_CORE.items():
        for where in ("start", "alone", "end"):
            text = place(tok, TMS_BODY, where)
            for bits in range(8):
                for addr in ("", "01"):
                    for seq in (0, 31, 32, 127):
                        for enc in (None, 0, 1):
                            car = {"more": bits & 1, "ack": (bits >> 1) & 1, "res": bits >> 2, "addr": addr, "seq": seq, "ctor": "int" if seq & 1 else "member"}
                            tms_case(ctx, tms_text_fields(car, enc, u16(text), text, f"text:{name}@{where}"), te, td, "special")
                            ctx.count("special:tms-factorial")
            if _has_surrogate(tok):
                continue
            for bits in range(32):
                more = bits & 1
                for ty in ARS_REG:
                    for others in ("plain", "empty"):
                        car = {"type": ty, "more": more, "ack": (bits >> 1) & 1, "prio": (bits >> 2) & 1, "ctl": (bits >> 3) & 1, "csbk": bits >> 4,
                               "rrh": [bits % 3, 0] if more else None, "ctor": ("member", "int", "bytes")[bits % 3], "others": others}
                        for k in ("dev", "user", "pw"):
                            ars_case(ctx, ars_reg_fields(car, {k: place(tok, ARS_BODY[k], where).encode("utf-8")}, f"{k}:{name}@{where}"), ae, ad, "special")
                            ctx.count("special:ars-factorial")


ILL_FORMED = ["c080", "c1bf", "e08080", "eda080", "edbfbf", "edafbfedbfbf", "f0808080", "f4908080", "f8888080", "c2", "e282", "f09f98",
              "80", "bf", "fe", "ff", "c328", "e28028", "fffe", "feff", "c0af"]
WELL_FORMED_EDGE = ["efbbbf", "ed9fbf", "ee8080", "efbfbe", "efbfbf", "f0908080", "f48fbfbf", "c280", "dfbf", "e0a080", "00", "7f", "10c280"]


def special_wire(ctx, pairs):
    """hand-made wire images through the parsers (correspondence; the property speaks about messages built
    from fields, these are the parser inputs as_bytes never produces): ill-formed / boundary UTF-8 in each ARS
    field, TMS text messages without the optional header or with surplus octets behind the stated length"""
    te, td, ae, ad, misc = pairs
    for i, h in enumerate(ILL_FORMED + WELL_FORMED_EDGE):
        bad = bytes.fromhex(h)
        misc.append((f"ars.utf8 {h}", "1" if i >= len(ILL_FORMED) else "0"))
        for where in ("alone", "start", "end", "middle"):
            v = place(bad, b"ab", where) if where != "middle" else b"a" + bad + b"b"
            for k in range(3):
                for more in (0, 1):
                    lvs = [b"\x0211", b"\x00", b"\x01x"]
                    lvs[k] = bytes([len(v)]) + v
                    pl = bytes([0xF0 if more else 0x45]) + (b"\x20" if more else b"") + b"".join(lvs) + (b"\x10\x80" if k == 1 else b"")
                    d = len(pl).to_bytes(2, "big") + pl
                    ad.append((f"ars.dec {d.hex()}", ars_dec(d)))
                    ctx.count("special:ars-wire-utf8")
    body = u16(TMS_BODY)
    toks = [u16(t) for t in TOK_CORE.values()] + [bytes.fromhex(h) for h in RAW_CORE.values()]
    for tok in toks:
        for where in ("alone", "start", "end"):
            msg = place(tok, body, where)
            for hb, opt in ((0x20, b""), (0x00, b""), (0x60, b""), (0xA0, b"\x05"), (0xE0, b"\x95\x44"), (0xA0, b"\x9f\x60")):
                pl = bytes([hb, 2, 0x0A, 0x0B]) + opt + msg
                d = len(pl).to_bytes(2, "big") + pl
                td.append((f"tms.dec {d.hex()}", tms_dec(d)))
                # the same image with the token once more behind the stated length, and with a stated length cut short
                d2 = d + tok
                td.append((f"tms.dec {d2.hex()}", tms_dec(d2)))
                if len(pl) > 6:
                    d3 = (len(pl) - 2).to_bytes(2, "big") + pl
                    td.append((f"tms.dec {d3.hex()}", tms_dec(d3)))
                ctx.count("special:tms-wire-text")


# ------------------------------------------------------------------------------------------------
# protocol constants STRADDLING the boundary of serialised items
#
# A wire image is a concatenation of ITEMS (length prefix, header octets, length octets, values, trailer).  Code that
# looks for a multi-octet constant in the image (instead of at its position) or avoids emitting one twice is right
# for every content of every single field and wrong only when the constant is formed ACROSS two items: the last k
# octets of one item and the first n-k of the next (an identifier ending in U+0010 followed by a 128-octet field
# gives 10 80, the CSBK trailer).  Such an input is a conjunction of the content of one field, the length of
# another and the flags, which field-wise dictionaries, sweeps and random streams do not correlate.  The generator
# below is therefore constructive: every message kind is described as a list of items, and a small solver places
# every constant of a dictionary at every item boundary with every split (passing through one-octet and empty
# items), choosing header flags, second-header values, lengths and value heads / tails as needed; what the alphabet
# of an item cannot express (0x80 as the first octet of UTF-8 ...) is counted as unreachable.  The placement is
# verified on a reference layout written here (not on the library's output) before the case is run.
# ------------------------------------------------------------------------------------------------
ARS_CONSTS = {
    # the CSBK trailer, doubled, overlapping, swapped, as part of the captured CSBK acknowledgement
    "csbk": "1080", "csbk-x2": "10801080", "dle-csbk": "101080", "csbk-80": "108080", "csbk-dle": "108010", "csbk-swapped": "8010",
    "csbk-ack": "3f1080", "csbk-pdu": "00033f1080",
    # near misses of the trailer (one octet off) and the other ASCII + continuation-octet pairs
    "dle-81": "1081", "dle-bf": "10bf", "dle-7f": "107f", "x11-80": "1180", "x0f-80": "0f80", "x00-80": "0080", "x20-80": "2080", "x7f-80": "7f80",
    "dle-dle": "1010", "x80-80": "8080", "dle-nul": "1000", "nul-dle": "0010",
    # header octets with what follows them in the captured messages, length-value look-alikes, length prefixes
    "hdr-rrh": "f020", "hdr-rrh-lv": "f0200231", "hdr-rsh": "bf01", "hdr-query": "7400", "lv-11": "023131", "lv-empty2": "0000", "lv-empty3": "000000",
    "len-1": "0001", "len-3": "0003", "len-7": "0007", "pdu-query": "000174", "pdu-reg": "0007f0200231310000",
    # foreign constants
    "bom8": "efbbbf", "crlf": "0d0a", "ff-ff": "ffff",
}
ARS_OWN = ("csbk",)  # every subset of its placements is also tried together in one message
TMS_CONSTS = {
    "crlf16": "0d000a00", "crlf16-x2": "0d000a000d000a00", "lf16": "0a00", "crlf8": "0d0a", "bom16le": "fffe", "bom16be": "feff", "bom8": "efbbbf",
    "nul2": "0000", "nul4": "00000000", "ff-ff": "ffff",
    # optional headers (UCS2_LE with s/n 0, 85, 127; one octet), first header + address length, capability, whole PDUs
    "snhdr-ucs2": "8004", "snhdr-85": "9544", "snhdr-127": "9f64", "snhdr-85-crlf": "95440d000a00", "snhdr-5": "0500",
    "hdr-text-addr0": "e000", "hdr-text-addr1": "a001", "hdr-ack-addr0": "9f00", "hdr-ack0": "1f00", "hdr-avail": "d00001",
    "pdu-ack": "00021f00", "pdu-avail": "0003d00001", "len-2": "0002", "len-13": "000d",
    # the sibling protocol's trailer
    "csbk": "1080", "csbk-swapped": "8010",
}
TMS_OWN = ("crlf16", "snhdr-ucs2")
SELF_TOTALS = (3, 16, 128, 257, 272, 384, 515)  # the message's own length prefix as the constant


def _valid8(b: bytes) -> bool:
    try:
        b.decode("utf-8")
        return True
    except UnicodeDecodeError:
        return False


_CONT = (0x80, 0x90, 0xA0, 0xBF, 0x8F, 0x9F)
_LEADS = (0xC2, 0xDF, 0xE1, 0xE0, 0xED, 0xEF, 0xF1, 0xF0, 0xF4)
_COMPLETE = {}


def _seqs(alpha, n):
    if n == 0:
        return [b""]
    return [bytes([a]) + r for a in alpha for r in _seqs(alpha, n - 1)]


def _utf8_suffix(head: bytes):
    """shortest run of continuation octets that completes `head` to well-formed UTF-8 (None: `head` cannot start one)"""
    key = ("s", head)
    if key not in _COMPLETE:
        _COMPLETE[key] = next((s for n in range(4) for s in _seqs(_CONT, n) if _valid8(head + s)), None)
    return _COMPLETE[key]


def _utf8_prefix(tail: bytes):
    """shortest lead (+ continuation octets) in front of `tail` that makes it well-formed UTF-8 (None: impossible)"""
    key = ("p", tail)
    if key not in _COMPLETE:
        cands = [b""] + [bytes([l]) + s for n in range(3) for l in _LEADS for s in _seqs(_CONT, n)]
        _COMPLETE[key] = next((p for p in cands if _valid8(p + tail)), None)
    return _COMPLETE[key]


def _few(opts):
    return opts if len(opts) <= 3 else [opts[0], opts[len(opts) // 2], opts[-1]]


def _clone(sol):
    return {"pick": dict(sol["pick"]), "val": {k: dict(v) for k, v in sol["val"].items()}, "pfx": sol["pfx"], "end": sol["end"]}


def _forward(slots, i, rest, sol, out):
    """match `rest` against the heads of items i, i+1, ... (an item shorter than `rest` is matched whole)"""
    if not rest:
        out.append(sol)
        return
    if i >= len(slots):
        return
    sl = slots[i]
    kind, name = sl[0], sl[1]
    sol = _clone(sol)
    sol["end"] = i
    if kind == "choice":
        for o in _few([o for o in sl[2] if len(o[0]) >= len(rest) and o[0].startswith(rest)]):
            t = _clone(sol)
            t["pick"][name] = o
            out.append(t)
        for o in _few([o for o in sl[2] if len(o[0]) < len(rest) and rest.startswith(o[0])]):
            t = _clone(sol)
            t["pick"][name] = o
            _forward(slots, i + 1, rest[len(o[0]):], t, out)
    elif kind == "len":
        if rest[0] <= slots[i + 1][3]:
            sol["val"].setdefault(name, {})["len"] = rest[0]
            _forward(slots, i + 1, rest[1:], sol, out)
    elif kind == "val":
        n = sol["val"].get(name, {}).get("len")
        if n is None:
            return
        if n >= len(rest):
            sol["val"][name]["head"] = rest
            out.append(sol)
        else:
            sol["val"][name]["head"] = rest[:n]
            _forward(slots, i + 1, rest[n:], sol, out)
    elif kind == "rest":
        if len(rest) <= sl[3]:
            sol["val"].setdefault(name, {})["head"] = rest
            out.append(sol)
    elif kind == "const":
        if len(sl[2]) >= len(rest):
            if sl[2].startswith(rest):
                out.append(sol)
        elif rest.startswith(sl[2]):
            _forward(slots, i + 1, rest[len(sl[2]):], sol, out)


def straddle_solve(slots, const: bytes, s: int, j: int):
    """every way (at most three per multi-valued item) to make const[:j] the LAST j octets of item s and const[j:] the
    first octets of what follows"""
    sl = slots[s]
    kind, name = sl[0], sl[1]
    sol = {"pick": {}, "val": {}, "pfx": None, "end": s}
    starts = []
    if kind == "pfx":
        if j == 1:
            sol["pfx"] = ("low", const[0])
            starts = [sol]
        elif j == 2:
            sol["pfx"] = ("exact", const[0] << 8 | const[1])
            starts = [sol]
    elif kind == "choice":
        for o in _few([o for o in sl[2] if len(o[0]) >= j and o[0].endswith(const[:j])]):
            t = _clone(sol)
            t["pick"][name] = o
            starts.append(t)
    elif kind == "len":
        if j == 1 and const[0] <= slots[s + 1][3]:
            sol["val"][name] = {"len": const[0]}
            starts = [sol]
    elif kind in ("val", "rest"):
        if j <= sl[3]:
            sol["val"][name] = {"tail": const[:j]}
            starts = [sol]
    elif kind == "const":
        if j <= len(sl[2]) and sl[2].endswith(const[:j]):
            starts = [sol]
    out = []
    for st in starts:
        _forward(slots, s + 1, const[j:], st, out)
    return out


def straddle_merge(a, b):
    """both placements in one message (None: they contradict each other)"""
    m = _clone(a)
    for k, o in b["pick"].items():
        if m["pick"].setdefault(k, o) != o:
            return None
    for k, c in b["val"].items():
        d = m["val"].setdefault(k, {})
        if "len" in c and d.setdefault("len", c["len"]) != c["len"]:
            return None
        for part, test in (("head", bytes.startswith), ("tail", bytes.endswith)):
            if part in c:
                x, y = d.get(part, b""), c[part]
                lo, hi = (x, y) if len(x) <= len(y) else (y, x)
                if not test(hi, lo):
                    return None
                d[part] = hi
    if b["pfx"] is not None:
        if m["pfx"] is not None and m["pfx"] != b["pfx"]:
            return None
        m["pfx"] = b["pfx"]
    m["end"] = max(a["end"], b["end"])
    return m


def _cyc(body: bytes, n: int) -> bytes:
    return (body * (n // max(1, len(body)) + 1))[:n] if n > 0 else b""


def _render(alpha, con, fill, body: bytes):
    """octets of a value: head (+ completion) + filler + (completion +) tail, of the constrained length if there is one"""
    head, tail, n = con.get("head", b""), con.get("tail", b""), con.get("len")
    hs, pt = head, tail
    if alpha == "utf8":
        s, p = _utf8_suffix(head), _utf8_prefix(tail)
        if s is None or p is None:
            return None
        hs, pt = head + s, p + tail
    if n is not None:
        if len(hs) + len(pt) > n:
            v = head + tail  # the two parts are the whole value
            return v if len(v) == n and (alpha != "utf8" or _valid8(v)) else None
        fill = n - len(hs) - len(pt)
    v = hs + _cyc(body, fill) + pt
    if (alpha == "utf8" and not _valid8(v)) or (alpha == "ucs2" and len(v) & 1):
        return None
    return v


def straddle_realise(shape, sol, picks, mode, token: bytes, shift=0):
    """octets of every item for a solution, in wire order: [(item name, octets)], or None when the alphabet of an item
    cannot express what the placement needs.  `picks`: the header / second-header options of the items the placement
    leaves alone; `mode`: what the values it leaves alone hold (plain / empty / token); `shift`: the length-prefix
    constraint is applied to the length without the last `shift` octets (the trailer: a near miss on the wire)"""
    slots = shape["slots"]
    items, specs = {}, {}
    tight = sol["pfx"] is not None
    for i, sl in enumerate(slots):
        kind, name = sl[0], sl[1]
        if kind == "choice":
            items[i] = (sol["pick"].get(name) or picks[name])[0]
        elif kind == "const":
            items[i] = sl[2]
        elif kind in ("val", "rest"):
            alpha, body = sl[2], shape["body"][name]
            con = sol["val"].get(name)
            if con is None:
                base = {"plain": body, "empty": b"", "token": token if alpha != "utf8" or _valid8(token) else body}[mode]
                if alpha == "ucs2" and len(base) & 1:
                    base += b"\x00"
                specs[i] = [alpha, {"head": base}, 0, mode != "empty", body, sl[3]]
            elif "len" in con:
                specs[i] = [alpha, con, None, False, body, sl[3]]
            else:
                fill = 0 if tight else len(body)
                if alpha == "ucs2" and (len(con.get("head", b"")) + len(con.get("tail", b"")) + fill) & 1:
                    fill += 1
                specs[i] = [alpha, con, fill, True, body, sl[3]]
            v = _render(*specs[i][:3], body)
            if v is None or len(v) > sl[3]:
                return None
            items[i] = v
    total = lambda: sum(len(items[i]) for i in items) + sum(1 for sl in slots if sl[0] == "len")  # noqa: E731
    if tight:
        how, want = sol["pfx"]
        delta = (want + shift - total()) % 256 if how == "low" else want + shift - total()
        if delta < 0:
            return None
        for i in sorted(specs):
            alpha, con, fill, flexible, body, cap = specs[i]
            step = 2 if alpha == "ucs2" else 1
            take = min(delta, cap - len(items[i])) // step * step
            if not flexible or take <= 0:
                continue
            v = _render(alpha, con, fill + take, body)
            if v is None or len(v) != len(items[i]) + take:
                continue
            items[i] = v
            delta -= take
        if delta:
            return None
    n = total()
    out = []
    for i, sl in enumerate(slots):
        if sl[0] == "pfx":
            out.append((sl[1], n.to_bytes(2, "big")))
        elif sl[0] == "len":
            out.append(("L:" + sl[1], bytes([len(items[i + 1])])))
        else:
            out.append((sl[1], items[i]))
    return out


ARS_TYPE_CODE = {0: 0x0, 1: 0x1, 2: 0x5, 5: 0x4, 6: 0xF}
ARS_FAIL_CODE = (0x00, 0x01, 0x02, 0xFF)
TMS_TYPE_CODE = {0: (1, 0x0), 1: (1, 0xF), 2: (0, 0x0)}


def ars_shapes():
    """item lists of every ARS message kind: type x has_more x acknowledged x trailer (priority / control are options of
    the header item, the registration event, refresh time and failure reason options of the second-header items)"""
    shapes = []
    for ty in ARS_IMPLEMENTED:
        for bits in range(8):
            more, ack, csbk = bits & 1, (bits >> 1) & 1, bits >> 2
            hdr = [(bytes([128 * more + 64 * ack + 32 * prio + 16 * ctl + ARS_TYPE_CODE[ty]]), {"prio": prio, "ctl": ctl})
                   for prio in (0, 1) for ctl in (0, 1)]
            slots = [("pfx", "PFX"), ("choice", "HDR", hdr)]
            if ty in ARS_REG:
                if more:
                    slots.append(("choice", "RRH", [(bytes([e << 5]), {"rrh": [e, 0]}) for e in range(3)]))
                for k in ("dev", "user", "pw"):
                    slots += [("len", k), ("val", k, "utf8", 255)]
            elif ty == ARS_RESPONSE and more:
                if ack:
                    opts = [(bytes([c]), {"rsh": {"f": i, "r": None, "ctx": "self"}}) for i, c in enumerate(ARS_FAIL_CODE)]
                else:
                    opts = [(bytes([rt]), {"rsh": {"f": None, "r": rt, "ctx": "self"}}) for rt in range(1, 128)]
                slots.append(("choice", "RSH", opts))
            if csbk:
                slots.append(("const", "TRL", b"\x10\x80"))
            base = {"proto": "ars", "type": ty, "more": more, "ack": ack, "csbk": csbk, "rrh": None, "rsh": None, "dev": None, "user": None, "pw": None}
            shapes.append({"proto": "ars", "base": base, "slots": slots, "body": {k: v.encode() for k, v in ARS_BODY.items()},
                           "tag": f"type{ty}:more{more}:ack{ack}:csbk{csbk}"})
    return shapes


def tms_shapes():
    """item lists of every TMS message kind: availability without / with capability, acknowledgement without / with the
    optional header, text message (acknowledged / reserved are options of the header item; every sequence number x
    encoding is an option of the optional-header item)"""
    opt = [(bytes([sn]), {"seq": sn, "enc": None}) for sn in range(32)]
    opt += [(bytes([sn]), {"seq": sn, "enc": 0}) for sn in (0, 31)]
    for sn in range(128):
        for e in (None, 0, 1):
            if e == 1 or sn > 31:
                opt.append((bytes([0x80 | sn % 32, (sn // 32) << 5 | (4 if e == 1 else 0)]), {"seq": sn, "enc": e}))
    shapes = []
    for ty, second in ((0, None), (0, "CAP"), (1, None), (1, "OPT"), (2, "OPT")):
        ctl, code = TMS_TYPE_CODE[ty]
        hdr = [(bytes([128 * (second is not None) + 64 * ack + 32 * (res or ty == 2) + 16 * ctl + code]), {"ack": ack, "res": res})
               for ack in (0, 1) for res in (0, 1)]
        slots = [("pfx", "PFX"), ("choice", "HDR", hdr), ("len", "addr"), ("val", "addr", "any", 255)]
        if second == "CAP":
            slots.append(("choice", "CAP", [(bytes([c]), {"cap": c}) for c in range(4)]))
        elif second == "OPT":
            slots.append(("choice", "OPT", opt))
        if ty == 2:
            slots.append(("rest", "msg", "ucs2", 400))
        base = {"proto": "tms", "type": ty, "cap": None, "seq": None, "enc": None, "msg": None, "text": None}
        shapes.append({"proto": "tms", "base": base, "slots": slots, "body": {"addr": ADDR_BODY, "msg": u16(TMS_BODY)},
                       "tag": f"type{ty}:{second or 'plain'}"})
    return shapes


STRADDLE_DEFAULTS = {
    "RRH": [(b"\x20", {"rrh": [1, 0]}), (b"\x00", {"rrh": [0, 0]}), (b"\x40", {"rrh": [2, 0]})],
    "RSH:0": [(bytes([rt]), {"rsh": {"f": None, "r": rt, "ctx": "self"}}) for rt in (1, 16, 127)],
    "RSH:1": [(bytes([c]), {"rsh": {"f": i, "r": None, "ctx": "self"}}) for i, c in enumerate(ARS_FAIL_CODE)],
    "CAP": [(bytes([c]), {"cap": c}) for c in range(4)],
    "OPT": [(b"\x05", {"seq": 5, "enc": None}), (b"\x95\x44", {"seq": 85, "enc": 1}), (b"\x80\x04", {"seq": 0, "enc": 1}),
            (b"\x9f\x60", {"seq": 127, "enc": 0})],
}
STRADDLE_MODES = ("plain", "empty", "token")


def straddle_fields(shape, sol, picks, items, rot):
    """the field dictionary of a realised placement"""
    f = dict(shape["base"])
    for sl in shape["slots"]:
        if sl[0] == "choice":
            f.update((sol["pick"].get(sl[1]) or picks[sl[1]])[1])
    vals = dict(items)
    if f["proto"] == "ars":
        for k in ("dev", "user", "pw"):
            if k in vals:
                f[k] = vals[k].hex() if vals[k] or k != "user" or rot & 1 else None  # None and "" are the same empty field
        if f["type"] in ARS_REG and not f["more"] and rot & 2:
            f["rrh"] = [rot % 3, 0]  # carried by the object, not serialised
        f["ctor"] = ("member", "int", "bytes")[rot % 3]
    else:
        f["addr"] = vals["addr"].hex()
        f["more"] = rot & 1
        if "msg" in vals:
            f["msg"] = vals["msg"].hex()
            f["text"] = vals["msg"].decode("utf-16-le", "surrogatepass")
        f["ctor"] = ("member", "int")[(rot >> 1) & 1]
    return f


def straddle_run(ctx, shape, sol, places, cname, rot, pairs, shift=0, label="straddle", every_flag=True, every_mode=False):
    """one solution (places: [(constant, item, split)] it realises): under every option of the header item (flag
    combinations) unless the placement fixes it; the values it leaves alone are plain, empty or hold the constant once
    more (one of the three in quick, all in thorough).  Returns the number of cases run."""
    te, td, ae, ad, misc = pairs
    slots, proto = shape["slots"], shape["proto"]
    hdr = [sol["pick"]["HDR"]] if "HDR" in sol["pick"] else slots[1][2] if every_flag else [slots[1][2][rot % len(slots[1][2])]]
    const = places[0][0]
    token = const if _valid8(const) or proto == "tms" else "".join(chr(b) for b in const).encode("utf-8")
    done = 0
    for hi, hopt in enumerate(hdr):
        r = rot + hi
        picks = {"HDR": hopt}
        for sl in slots:
            if sl[0] == "choice" and sl[1] != "HDR":
                d = STRADDLE_DEFAULTS[sl[1] + (":%d" % shape["base"]["ack"] if sl[1] == "RSH" else "")]
                picks[sl[1]] = d[r % len(d)]
        ran = 0
        for mode in [STRADDLE_MODES[(r + k) % 3] for k in range(3)]:
            items = straddle_realise(shape, sol, picks, mode, token, shift)
            if items is None:
                continue
            wire = b"".join(o for _, o in items)
            if shift == 0 and any(wire[sum(len(o) for _, o in items[: s + 1]) - j :][: len(c)] != c for c, s, j in places):
                ctx.count(f"{label}:solver-misplaced")  # never expected; not counted as a placement
                continue
            f = straddle_fields(shape, sol, picks, items, r)
            c, s, j = places[0]
            f["special"] = f"{label}:{cname}:{items[s][0]}|{items[sol['end']][0]}:k{j}"
            b = (ars_case if proto == "ars" else tms_case)(ctx, f, ae if proto == "ars" else te, ad if proto == "ars" else td, label)
            if b is not None and b != wire:
                ctx.count(f"{label}:library-differs-from-reference-layout")
            ran += 1
            if not (every_mode or ctx.thorough()):
                break
        done += ran
    if not done:
        ctx.count(f"{label}-unreachable:{proto}:alphabet")  # solvable as octets, but not by a value of the item's alphabet
    return done


def captured_ngrams(hexes, sizes):
    """every window of 2, 3 (, 4) octets of the captured messages of the test-suite: the constants somebody who reads the
    tests would special-case"""
    out = {}
    for h in hexes:
        b = bytes.fromhex(h)
        for n in sizes:
            for i in range(len(b) - n + 1):
                out.setdefault(b[i : i + n].hex(), None)
    return list(out)


def special_straddle(ctx, rng, pairs):
    """every constant x every item boundary x every split x every message kind; the protocol's own constants also at
    several boundaries of one message; the message's own length prefix as the constant"""
    for proto, shapes, consts, own, cap in (("ars", ars_shapes(), ARS_CONSTS, ARS_OWN, ARS_CAPTURED), ("tms", tms_shapes(), TMS_CONSTS, TMS_OWN, TMS_CAPTURED)):
        rot = 0
        consts = dict(consts)
        curated = set(consts.values())
        for h in captured_ngrams(cap, (2, 3, 4) if ctx.thorough() else (2, 3)):
            if h not in curated:
                consts["captured-ngram:" + h] = h
        for shape in shapes:
            slots = shape["slots"]
            names = [("L:" + sl[1]) if sl[0] == "len" else sl[1] for sl in slots]
            kind = "type%d:trailer%d" % (shape["base"]["type"], slots[-1][0] == "const") if proto == "ars" else shape["tag"]
            own_sols = {c: [] for c in own}
            for cname, h in consts.items():
                const = bytes.fromhex(h)
                ngram = cname.startswith("captured-ngram:")
                cname = cname.split(":")[0]
                for s in range(len(slots)):
                    for j in range(1, len(const)):
                        n = 0
                        for sol in straddle_solve(slots, const, s, j):
                            k = straddle_run(ctx, shape, sol, [(const, s, j)], cname, rot, pairs, every_flag=not ngram, every_mode=cname in own)
                            rot += 1
                            if not k:
                                continue
                            n += k
                            ctx.count(f"straddle:{proto}:boundary:{names[s]}|{names[sol['end']]}", k)
                            if sol["pfx"] is not None and slots[-1][0] == "const":
                                # the same coincidence for the length WITHOUT the trailer (an intermediate value of a serialiser)
                                straddle_run(ctx, shape, sol, [(const, s, j)], cname, rot, pairs, shift=len(slots[-1][2]), label="straddle-near", every_flag=not ngram, every_mode=cname in own)
                            if cname in own:
                                own_sols[cname].append((sol, s, j))
                                ctx.count(f"straddle:{proto}:{cname}:{names[s]}|{names[sol['end']]}:k{j}:{kind}", k)
                        if n:
                            ctx.count(f"straddle:{proto}:const:{cname}", n)
                        else:
                            ctx.count(f"straddle-unreachable:{proto}:{cname}")
            # the protocol's own constant at two and more boundaries of the same message
            for cname in own:
                const = bytes.fromhex(consts[cname])
                subsets = [[x] for x in own_sols[cname]]
                for size in (2, 3, 4):
                    subsets = [sub + [x] for sub in subsets for x in own_sols[cname] if (x[1], x[2]) > (sub[-1][1], sub[-1][2])]
                    for sub in subsets:
                        m = sub[0][0]
                        for x in sub[1:]:
                            m = m and straddle_merge(m, x[0])
                        if m and straddle_run(ctx, shape, m, [(const, x[1], x[2]) for x in sub], f"{cname}-x{size}", rot, pairs, label="straddle-multi", every_mode=True):
                            ctx.count(f"straddle-multi:{proto}:{cname}:{size}-boundaries")
                        rot += 1
            # the message's own length prefix, seen again across a later boundary
            for total in SELF_TOTALS:
                const = total.to_bytes(2, "big")
                for s in range(1, len(slots)):
                    for sol in straddle_solve(slots, const, s, 1):
                        sol["pfx"] = ("exact", total)
                        if straddle_run(ctx, shape, sol, [(const, s, 1)], f"self-length-{total}", rot, pairs, label="straddle-self"):
                            ctx.count(f"straddle-self:{proto}:{names[s]}|{names[sol['end']]}")
                        rot += 1


TRAILER_PARTS = ["\x10", "a\x10", "\x10a", "\x10\x10", "\x80", "\x10\x80", "\x80\x10", "\x10\x7f", "\x10\x81", "\x11\x80", "\x10\u1080", "\u8010",
                 "\x10\x00", "\x00\x10"]


def special_tails(ctx, pairs):
    """sub-parts and near misses of the trailer in the LAST octets of the body (what a test of the last one or two
    octets, or of `payload[-2]` / `payload[-1]` alone, would confuse with the trailer): as the end of the last non-empty
    field, the following fields empty, with and without the real trailer behind it"""
    te, td, ae, ad, misc = pairs
    for e in TRAILER_PARTS:
        for last in ("pw", "user", "dev"):
            for alone in (0, 1):
                for ci, car in enumerate(ARS_CARRIERS):
                    for csbk in (0, 1):
                        vals = {k: ((ARS_BODY[k] if not alone else "") + e if k == last else ARS_BODY[k] if ("dev", "user", "pw").index(k) < ("dev", "user", "pw").index(last) else "").encode("utf-8")
                                for k in ("dev", "user", "pw")}
                        f = ars_reg_fields(dict(car, csbk=csbk, others="plain"), vals, f"tail:{last}:{e.encode('utf-8').hex()}")
                        if ci & 1:
                            for k in ("user", "pw"):
                                f[k] = f[k] or None
                        ars_case(ctx, f, ae, ad, "tail")
                        ctx.count("tail:ars-trailer-part-at-end-of-body")
    # the acknowledgement's second header as the octet before the trailer / the end: every value is swept in `sweeps`


def special_cross(ctx, rng, pairs):
    """one part of a message equal to, or containing, ANOTHER part of the same message (or of its serialisation): equal
    fields, a field holding the length-value form of its neighbour, the message's header / length prefix / optional
    header / whole serialisation without that field inside a field"""
    te, td, ae, ad, misc = pairs
    a = A()
    bodies = [("2001", "Op3rator", "s3cret"), ("\x10", "\x80" * 64, "\x10"), ("11", "", ""), ("\ufeff2001", "\r\n", "\x00\x00")]
    for ci, car in enumerate(ARS_CARRIERS):
        for bi, (d, u, w) in enumerate(bodies):
            lv = lambda s: chr(len(s.encode("utf-8"))) + s  # noqa: E731  (the length octet as a character: U+0000..U+00FF)
            variants = [
                (d, d, d), (u, u, u), (d, d, w), (d, u, d), (d, u, u),
                (d, lv(d), w), (d, u, lv(u)), (lv(u), u, w), (d, lv(d) + lv(u), w), (d, u, lv(d) + lv(u) + lv(w)), (lv(d) + lv(u) + lv(w), "", ""),
                (d, u[::-1], w), (d + u, u + w, w + d), (d, d + u, d + u + w),
            ]
            # the message's own first octets (length prefix, header, registration header) as characters inside a field
            f0 = ars_reg_fields(dict(car, others="plain"), {"dev": d.encode(), "user": u.encode(), "pw": w.encode()}, "cross:probe")
            p = call(ars_build, f0)
            b = p if is_err(p) else call(p.as_bytes)
            if not is_err(b):
                own = "".join(chr(x) for x in b[:4])
                variants += [(own, u, w), (d, own, w), (d, u, own), (d + own, u, w), (d, u, own + w)]
                whole = "".join(chr(x) for x in b)
                if len(whole.encode("utf-8")) <= 255:
                    variants += [(d, u, whole), (whole, u, w)]
            for vi, (x, y, z) in enumerate(variants):
                if any(len(s.encode("utf-8")) > 255 for s in (x, y, z)):
                    continue
                f = ars_reg_fields(dict(car, others="plain"), {"dev": x.encode(), "user": y.encode(), "pw": z.encode()}, f"cross:{bi}:{vi}")
                ars_case(ctx, f, ae, ad, "cross")
                ctx.count("cross:ars")
    for ci, car in enumerate(TMS_CARRIERS):
        for enc in (None, 1):
            base = tms_text_fields(car, enc, u16(TMS_BODY), TMS_BODY, "cross:probe")
            p = call(tms_build, base)
            b = p if is_err(p) else call(p.as_bytes)
            if is_err(b):
                continue
            empty = call(lambda: tms_build(dict(base, msg="", text="")).as_bytes())
            ack = call(lambda: tms_build(dict(base, type=1, msg=None, text=None)).as_bytes())
            addr = unhx(car["addr"])
            opt = b[4 + len(addr) : len(b) - len(u16(TMS_BODY))]
            even = lambda x: x + b"\x00" * (len(x) & 1)  # noqa: E731
            msgs = [addr, even(addr), bytes([len(addr)]) + addr, b[:2], b[2:4], even(b[2:3] + bytes([len(addr)]) + addr), opt, even(opt), opt + u16(TMS_BODY),
                    even(b), b[2:], empty if not is_err(empty) else b"", even(ack) if not is_err(ack) else b"", u16(TMS_BODY) + even(opt), u16(TMS_BODY) + b[:2]]
            for mi, m in enumerate(msgs):
                m = even(m)
                tms_case(ctx, tms_text_fields(car, enc, m, m.decode("utf-16-le", "surrogatepass"), f"cross:msg{mi}"), te, td, "cross")
                ctx.count("cross:tms-text")
            addrs = [u16(TMS_BODY)[:8], opt, b[:2], b[2:3], b[:4], even(ack) if not is_err(ack) else b"", b[-4:], bytes([len(u16(TMS_BODY))]), bytes([car["seq"]])]
            for ai, ad_ in enumerate(addrs):
                for ty in range(3):
                    f = dict(tms_text_fields(car, enc, u16(TMS_BODY), TMS_BODY, f"cross:addr{ai}"), addr=ad_[:255].hex(), type=ty)
                    if ty != 2:
                        f.update(msg=None, text=None)
                    if ty == 0:
                        f.update(seq=None, enc=None, cap=ai % 4)
                    tms_case(ctx, f, te, td, "cross")
                    ctx.count("cross:tms-address")


# ------------------------------------------------------------------------------------------------
# Round 4 — a value that, as raw octets, parses as ANOTHER valid structure of the protocol or as text in ANOTHER encoding
#
# The fields are opaque to the format (the model proves it); code that is "lenient" — accepts an un-flagged optional header when what
# follows happens to read as a complete message, transcodes a value that looks like another encoding, unwraps a value that looks like a
# nested length-value — is right on every value that does NOT have that look.  The look is a conjunction over the value's first octets,
# its exact length (a length octet that equals a header octet: 2^k) and the neighbouring fields completing the alternative reading up to
# the end of the message or the trailer.  The generators below are constructive again:
#   alt:lv      every way the octets after the first header of an ARS registration ALSO read as `skip` octets (un-flagged / ignored
#               headers) followed by exactly m length-value items up to the end: a small solver walks the item layout (length octets
#               and second headers are fixed cells, value octets free cells) and forces the free cells the alternative reading uses as
#               lengths; for the plain nesting (value = its own length-value form) every length 1..255, otherwise a grid of lengths that
#               holds the header-valued ones (0x20, 0x40, 0x80 …); the same for the TMS address and text
#   alt:first   every octet 0x00..0x7F (every header / second-header / length octet of both protocols) as the FIRST octet of every
#               field x the lengths 2^k, 2^k +- 1 and "first octet + 1" (the nesting), fields before / behind it empty or not
#   alt:enc     words (ASCII, Latin-1, BMP, non-BMP; 1..16 characters) in every OTHER encoding (UTF-16 / UTF-32 LE / BE with and without
#               byte-order mark, UTF-7, Latin-1, and every codec name found as a string literal in the CURRENT source of the two
#               modules) as the octets of a UTF-8 identifier, UTF-8 / UTF-16-BE / … as the octets of a UCS-2 text or an address
#   alt:format  values in a recognisable textual format a helpful parser might decode (hex, base64, percent-encoding, decimal, dotted
#               quad, MAC, UUID, JSON, quoted, NUL-terminated / padded …)
#   alt:pdu     a whole serialised message (or its body) of either protocol as the value of a field
#   alt:literal every string / bytes / small-int literal of the CURRENT source as token / length (harvested on every run)
# ------------------------------------------------------------------------------------------------
ALT_GRID = (0, 1, 2, 3, 5, 31, 32, 33, 63, 64, 65, 127, 128, 129, 255)
ALT_WORDS = ["4711", "2001", "abc", "Op3rator", "radio-0001", "x", "ab", "A" * 16, "Z\xfcrich", "\xe9t\xe9", "日本語", "€42", "\U0001f600ok", "caf\xe9 7",
             "N" * 32, "0123456789abcdef" * 4, "unit-" * 20, "7" * 127]
ALT_HEADERISH = (0x20, 0x40, 0x80, 0xA0, 0xC0)  # lengths whose octet is a valid registration header (event x UTF-8, top bit ignored)
ALT_CODECS = ["utf-16-le", "utf-16-be", "utf-16", "utf-32-le", "utf-32-be", "utf-32", "utf-7", "latin-1", "utf-8-sig", "utf-8", "cp1252", "ascii"]
ALT_FORMATS = {
    "hex": "34373131", "hex-upper": "DEADBEEF", "0x": "0x4711", "base64": "NDcxMQ==", "base64-nopad": "NDcxMQ", "pct": "%34%37%31%31", "pct-nul": "47%0011",
    "decimal": "0004711", "dotted-quad": "10.0.0.1", "dotted-quad-port": "10.0.0.1:4005", "mac": "00:1a:2b:3c:4d:5e", "uuid": "123e4567-e89b-12d3-a456-426614174000",
    "json-str": "\"4711\"", "json-obj": "{\"id\":4711}", "xml": "<id>4711</id>", "quoted": "'4711'", "nul-terminated": "4711\x00", "nul-padded": "4711\x00\x00\x00\x00",
    "space-padded": "4711    ", "ff-padded": "4711\xff\xff", "c-escape": "47\\x3111", "u-escape": "\\u0034711", "bcd-look": "\x47\x11", "len-prefixed-ascii": "44711",
    "e164": "+4207771234", "sip": "sip:4711@10.0.0.1", "email": "op@example.org", "domain\\user": "DMR\\op", "bool": "true", "float": "47.11", "sci": "4.711e3",
}


def harvest_literals():
    """string / bytes / int literals of the CURRENT source of the two modules (a changed tree brings its new constants with it)"""
    import ast
    import codecs

    out = {"codecs": [], "strs": [], "bytes": [], "ints": []}
    for mod in (T(), A()):
        try:
            tree = ast.parse(open(mod.__file__, encoding="utf-8").read())
        except (OSError, SyntaxError):
            continue
        docs = set()
        for node in ast.walk(tree):
            if isinstance(node, (ast.FunctionDef, ast.ClassDef, ast.Module)) and node.body and isinstance(node.body[0], ast.Expr) and isinstance(getattr(node.body[0], "value", None), ast.Constant):
                docs.add(id(node.body[0].value))
        for node in ast.walk(tree):
            if not isinstance(node, ast.Constant) or id(node) in docs:
                continue
            v = node.value
            if isinstance(v, bool):
                continue
            if isinstance(v, str) and 0 < len(v) <= 24:
                try:
                    name = codecs.lookup(v).name
                    if name not in out["codecs"]:
                        out["codecs"].append(name)
                    continue
                except (LookupError, TypeError, ValueError):
                    pass
                if v not in out["strs"] and not v.isidentifier():
                    out["strs"].append(v)
            elif isinstance(v, bytes) and 0 < len(v) <= 16 and v not in out["bytes"]:
                out["bytes"].append(v)
            elif isinstance(v, int) and 0 <= v <= 256 and v not in out["ints"]:
                out["ints"].append(v)
    return out


def ars_flags(i):
    """the i-th combination of the flags a placement leaves alone (acknowledged, priority, control, trailer, constructor form)"""
    return {"ack": i & 1, "prio": (i >> 1) & 1, "ctl": (i >> 2) & 1, "csbk": (i >> 3) & 1, "ctor": ("member", "int", "bytes")[i % 3]}


def ars_alt_fields(ty, more, event, vals, i, tag):
    f = {"proto": "ars", "type": ty, "more": more, "rrh": [event, 0] if more or (i >> 4) & 1 else None, "rsh": None, "special": tag}
    f.update(ars_flags(i))
    for k in ("dev", "user", "pw"):
        v = vals.get(k, b"")
        f[k] = v.hex() if v or k != "user" or i & 1 else None  # None and "" are the same empty field
    return f


def _ascii_fill(k, n):
    return _cyc(ARS_BODY[k].encode(), n)


def alt_lv_solutions(fixed_head, lens, skip, m, cap=3):
    """the octets after the first header are: fixed_head (second-header octets), then for every field its length octet and its value.
    Every way (at most `cap`) to force value octets so that the same octets ALSO read as `skip` octets + exactly m length-value items
    up to the end.  Returns [{(field index, offset): octet}]"""
    cells = [("fix", b) for b in fixed_head]
    ends = set()
    for fi, n in enumerate(lens):
        cells.append(("fix", n))
        cells += [("free", fi, o) for o in range(n)]
        ends.add(len(cells))
    total = len(cells)
    out = []

    def walk(pos, i, forced):
        if len(out) >= cap:
            return
        if i == m:
            if pos == total:
                out.append(dict(forced))
            return
        if pos >= total:
            return
        c = cells[pos]
        if c[0] == "fix":
            walk(pos + 1 + c[1], i + 1, forced)
        elif (c[1], c[2]) in forced:
            walk(pos + 1 + forced[(c[1], c[2])], i + 1, forced)
        else:
            for e in sorted(ends | {pos + 1, total}):
                ln = e - pos - 1
                if 0 <= ln < 0x80:
                    forced[(c[1], c[2])] = ln
                    walk(e, i + 1, forced)
                    del forced[(c[1], c[2])]

    if skip <= total:
        # free cells among the skipped octets read as (un-flagged) second headers: give them a header's value
        pre = {(c[1], c[2]): (0x20, 0x40, 0x00)[(j + total) % 3] for j, c in enumerate(cells[:skip]) if c[0] == "free"}
        walk(skip, 0, pre)
    return out  # an empty solution forces nothing: every message of these lengths reads both ways


def nested_value(n, lead):
    """octets of a UTF-8 value of n octets whose FIRST octet is `lead` (None: no well-formed value starts with it)"""
    if n < 1:
        return None
    if lead < 0x80:
        return bytes([lead]) + _cyc(b"radio-", n - 1)
    s = _utf8_suffix(bytes([lead]))
    if s is None or 1 + len(s) > n:
        return None
    return bytes([lead]) + s + _cyc(b"radio-", n - 1 - len(s))


def special_alternative(ctx, rng, pairs):
    te, td, ae, ad, misc = pairs
    lit = harvest_literals()
    ctx.count("alt:literal:codecs-in-source", len(lit["codecs"]))
    rot = 0
    # ---- alt:lv (1) the plain nesting: a value that is its own length-value form (first octet = length of the rest), every length;
    #      and first octet = distance to the end of the NEXT fields (the alternative item swallows them)
    for ty in ARS_REG:
        for more in (0, 1):
            for ki, k in enumerate(("dev", "user", "pw")):
                for others in ("empty", "plain"):
                    for n in range(1, 256):
                        rest = {x: (_ascii_fill(x, len(ARS_BODY[x])) if others == "plain" else b"") for x in ("dev", "user", "pw") if x != k}
                        behind = [x for x in ("dev", "user", "pw")[ki + 1:]]
                        reach = [n - 1]
                        acc = n - 1
                        for x in behind:
                            acc += 1 + len(rest[x])
                            reach.append(acc)
                        for ri, lead in enumerate(dict.fromkeys(reach)):
                            if lead > 0xFF:
                                continue
                            v = nested_value(n, lead)
                            if v is None:
                                ctx.count("alt-unreachable:ars:nested-first-octet-not-utf8")
                                continue
                            rot += 1
                            # a length octet that is itself a valid header: under every combination of the other flags
                            for i in (range(rot, rot + 16) if n in ALT_HEADERISH and ri == 0 else (rot,)):
                                f = ars_alt_fields(ty, more, i % 3, dict(rest, **{k: v}), i, f"alt:lv:nested:{k}:n{n}:reach{ri}")
                                if not more:
                                    f["rrh"] = None if i & 16 == 0 else f["rrh"]
                                ars_case(ctx, f, ae, ad, "alt")
                                ctx.count(f"alt:lv:ars-nested:{k}:{'exact' if ri == 0 else 'through-next-fields'}")
    # ---- alt:lv (2) the solver: skip octets + m items, on the grid of lengths (header-valued lengths included)
    grid = sorted(set(ALT_GRID) | {v for v in lit["ints"] if v <= 255})
    small = (0, 1, 2, 5, 32, 64)
    budget = ctx.budget(4000, 60000)
    plans = []
    for more in (0, 1):
        for event in ((0, 1, 2) if more else (0,)):
            head = [event << 5] if more else []
            for nd in grid:
                for nu in (grid if nd in small else small):
                    for np_ in (small if not (nd in small and nu in small) else grid):
                        for skip in ((1, 2) if not more else (0, 2)):
                            for m in (1, 2, 3, 4, 5):
                                plans.append((more, event, head, (nd, nu, np_), skip, m))
    # every plan over the small lengths (they hold the header-valued 0x20 / 0x40) on every run, the others as far as the budget goes
    first = [p for p in plans if all(n in small for n in p[3])]
    others = [p for p in plans if not all(n in small for n in p[3])]
    rng.shuffle(others)
    done = 0
    for pi, (more, event, head, lens, skip, m) in enumerate(first + others):
        in_first = pi < len(first)
        if not in_first and done >= budget:
            ctx.count("alt:lv:solver-plans-beyond-budget")
            continue
        sols = alt_lv_solutions(head, lens, skip, m, cap=2)
        if not in_first:
            sols = [x for x in sols if x]  # beyond the small lengths only the constructed ones (the others are what the random stream is)
        for si, sol in enumerate(sols):
            vals = {}
            for fi, k in enumerate(("dev", "user", "pw")):
                v = bytearray(_ascii_fill(k, lens[fi]))
                for (gi, o), b in sol.items():
                    if gi == fi:
                        v[o] = b
                vals[k] = bytes(v)
            # reference check of the construction: the alternative reading consumes the octets exactly
            w = bytes(head) + b"".join(bytes([len(vals[k])]) + vals[k] for k in ("dev", "user", "pw"))
            pos = skip
            for _ in range(m):
                pos += 1 + w[pos] if pos < len(w) else 10**6
            if pos != len(w):
                ctx.count("alt:lv:solver-misplaced")
                continue
            for ty in (ARS_REG if (32 in lens or 64 in lens) or si == 0 else (ARS_REG[rot & 1],)):
                rot += 1
                f = ars_alt_fields(ty, more, event, vals, rot, f"alt:lv:skip{skip}:items{m}:{lens[0]}-{lens[1]}-{lens[2]}")
                ars_case(ctx, f, ae, ad, "alt")
                done += 0 if in_first else 1
            ctx.count(f"alt:lv:ars-solver:more{more}:skip{skip}:items{m}")
    # ---- alt:first  every 7-bit octet as the first octet of every field x lengths 2^k (+-1), neighbours empty / plain
    lengths = sorted({1, 2, 3, 4, 5, 7, 8, 9, 15, 16, 17, 31, 32, 33, 63, 64, 65, 127, 128, 129, 254, 255})
    for b0 in range(0x80):
        for n in lengths:
            v = nested_value(n, b0)
            for ki, k in enumerate(("dev", "user", "pw")):
                rot += 1
                others = ("empty", "plain")[(rot >> 1) & 1] if n not in (32, 64, 128) else None
                for oth in ((others,) if others else ("empty", "plain")):
                    rest = {x: (_ascii_fill(x, len(ARS_BODY[x])) if oth == "plain" else b"") for x in ("dev", "user", "pw") if x != k}
                    for more in (0, 1):
                        rot += 1
                        f = ars_alt_fields(ARS_REG[(rot >> 2) & 1] if n not in (32, 64) else ARS_REG[rot & 1], more, rot % 3, dict(rest, **{k: v}), rot // 2, f"alt:first:{k}:{b0:02x}:n{n}")
                        ars_case(ctx, f, ae, ad, "alt")
                        ctx.count("alt:first:ars")
    for n in (32, 64):  # the header-valued lengths once more under BOTH types and every flag combination
        for b0 in range(0x80):
            for ty in ARS_REG:
                for i in range(16):
                    f = ars_alt_fields(ty, 0, 0, {"dev": nested_value(n, b0)}, i, f"alt:first:dev:{b0:02x}:n{n}:flags{i}")
                    f["rrh"] = None
                    ars_case(ctx, f, ae, ad, "alt")
                    ctx.count("alt:first:ars-header-valued-length")
    # TMS: address = its own length-value form / reaching to the end of the message; text likewise; every first octet x 2^k
    tbody = u16(TMS_BODY)
    for n in range(1, 256):
        for ty, second in ((0, 0), (0, 1), (1, 0), (1, 1), (2, 1)):
            opt = {0: [b"", b"\x02"], 1: [b"", b"\x05"], 2: [None, b"\x95\x44"]}[ty][second]
            tail = len(opt) + (len(tbody) if ty == 2 else 0)
            for ri, lead in enumerate(dict.fromkeys([n - 1, n - 1 + tail])):
                if lead > 0xFF:
                    continue
                rot += 1
                addr = bytes([lead]) + _cyc(ADDR_BODY, n - 1)
                f = {"proto": "tms", "type": ty, "more": rot & 1, "ack": (rot >> 1) & 1, "res": (rot >> 2) & 1, "addr": addr.hex(), "cap": 2 if (ty == 0 and second) else None,
                     "seq": (5 if ty == 1 else 85) if (ty and second) else None, "enc": 1 if ty == 2 else None, "msg": tbody.hex() if ty == 2 else None,
                     "text": TMS_BODY if ty == 2 else None, "ctor": ("member", "int")[rot % 2], "special": f"alt:lv:nested:addr:n{n}:reach{ri}"}
                tms_case(ctx, f, te, td, "alt")
                ctx.count("alt:lv:tms-address-nested")
    for n in range(2, 258, 2):
        for lead in dict.fromkeys([n - 1, n - 2, (n // 2) - 1, n // 2]):
            if not 0 <= lead <= 0xFF:
                continue
            rot += 1
            msg = bytes([lead]) + _cyc(tbody[1:] if len(tbody) > 1 else b"\x00", n - 1)
            car = dict(TMS_CARRIERS[rot % 6], seq=SEQ_EDGES[rot % len(SEQ_EDGES)])
            tms_case(ctx, tms_text_fields(car, (None, 0, 1)[rot % 3], msg, None, f"alt:lv:nested:msg:n{n}:{lead}"), te, td, "alt")
            ctx.count("alt:lv:tms-text-nested")
    for b0 in range(256):
        for n in (1, 2, 4, 8, 16, 32, 64, 128, 255):
            rot += 1
            addr = bytes([b0]) + _cyc(ADDR_BODY, n - 1)
            ty = rot % 3
            f = {"proto": "tms", "type": ty, "more": rot & 1, "ack": (rot >> 1) & 1, "res": 0, "addr": addr.hex(), "cap": 1 if ty == 0 else None, "seq": 33 if ty else None,
                 "enc": 1 if ty == 2 else None, "msg": tbody.hex() if ty == 2 else None, "text": TMS_BODY if ty == 2 else None, "ctor": "member", "special": f"alt:first:addr:{b0:02x}:n{n}"}
            tms_case(ctx, f, te, td, "alt")
            if n > 1:
                msg = bytes([b0]) + _cyc(tbody[1:], n - 1) + (b"\x00" if n & 1 else b"")
                tms_case(ctx, tms_text_fields(TMS_CARRIERS[rot % 6], (None, 1)[rot & 1], msg, None, f"alt:first:msg:{b0:02x}:n{n}"), te, td, "alt")
            ctx.count("alt:first:tms")
    # ---- alt:enc  words in every other encoding as the octets of a field
    codec_names = list(dict.fromkeys(ALT_CODECS + lit["codecs"]))
    for wi, word in enumerate(ALT_WORDS):
        for cname in codec_names:
            try:
                octs = word.encode(cname)
            except (UnicodeError, LookupError):
                ctx.count("alt-unreachable:enc:word-not-encodable")
                continue
            forms = {"raw": octs}
            if not _valid8(octs):
                forms = {"as-latin1-chars": octs.decode("latin-1").encode("utf-8")}  # every octet as a character (mojibake)
            elif cname not in ("utf-8", "ascii"):
                forms["as-latin1-chars"] = octs.decode("latin-1").encode("utf-8")
            for fname, v in forms.items():
                if v == word.encode("utf-8") and cname not in ("utf-8", "ascii"):
                    continue  # the same octets as the field's own encoding
                for where in ("alone", "start", "end"):
                    for field in ("dev", "user", "pw", "all"):
                        rot += 1
                        ks = ("dev", "user", "pw") if field == "all" else (field,)
                        vals = {k: place(v, b"" if where == "alone" else ARS_BODY[k].encode(), where) for k in ks}
                        if any(len(x) > 255 for x in vals.values()):
                            continue
                        for ci in ((rot % 6, (rot + 3) % 6) if where == "alone" else (rot % 6,)):
                            ars_case(ctx, ars_reg_fields(ARS_CARRIERS[ci], vals, f"alt:enc:{cname}:{fname}:{field}:{where}:w{wi}"), ae, ad, "alt")
                            ctx.count(f"alt:enc:ars:{cname}")
            # the octet-typed TMS fields take the octets as they are (even length for a UCS-2 text)
            if cname not in ("utf-16-le",):
                for where in ("alone", "start", "end"):
                    rot += 1
                    msg = place(octs + (b"\x00" if len(octs) & 1 else b""), b"" if where == "alone" else tbody, where)
                    for enc in (None, 1):
                        tms_case(ctx, tms_text_fields(TMS_CARRIERS[rot % 6], enc, msg, None, f"alt:enc:{cname}:msg:{where}:w{wi}"), te, td, "alt")
                    addr = place(octs, b"" if where == "alone" else ADDR_BODY, where)[:255]
                    ty = rot % 3
                    f = {"proto": "tms", "type": ty, "more": 0, "ack": rot & 1, "res": 0, "addr": addr.hex(), "cap": 0 if ty == 0 else None, "seq": 31 if ty else None,
                         "enc": 1 if ty == 2 else None, "msg": tbody.hex() if ty == 2 else None, "text": TMS_BODY if ty == 2 else None, "ctor": "member",
                         "special": f"alt:enc:{cname}:addr:{where}:w{wi}"}
                    tms_case(ctx, f, te, td, "alt")
                    ctx.count(f"alt:enc:tms:{cname}")
    # ---- alt:format / alt:literal  whole values in a recognisable format; literals of the current source
    values = {"format:" + k: v for k, v in ALT_FORMATS.items()}
    values.update({f"literal:str{i}": s for i, s in enumerate(lit["strs"])})
    values.update({f"literal:bytes{i}": b.decode("latin-1") for i, b in enumerate(lit["bytes"])})
    for name, s in values.items():
        v8, v16 = s.encode("utf-8"), u16(s)
        for where in ("alone", "start", "end"):
            for field in ("dev", "user", "pw", "all"):
                rot += 1
                ks = ("dev", "user", "pw") if field == "all" else (field,)
                vals = {k: place(v8, b"" if where == "alone" else ARS_BODY[k].encode(), where) for k in ks}
                ars_case(ctx, ars_reg_fields(ARS_CARRIERS[rot % 6], vals, f"alt:{name}:{field}:{where}"), ae, ad, "alt")
                ctx.count("alt:" + name.split(":")[0] + ":ars")
            rot += 1
            msg = place(v16, b"" if where == "alone" else tbody, where)
            tms_case(ctx, tms_text_fields(TMS_CARRIERS[rot % 6], (None, 1)[rot & 1], msg, None, f"alt:{name}:msg:{where}"), te, td, "alt")
            raw = place(v8 + (b"\x00" if len(v8) & 1 else b""), b"" if where == "alone" else tbody, where)
            tms_case(ctx, tms_text_fields(TMS_CARRIERS[(rot + 1) % 6], (None, 1)[rot & 1], raw, None, f"alt:{name}:msg-octets:{where}"), te, td, "alt")
            ctx.count("alt:" + name.split(":")[0] + ":tms")
    # ---- alt:pdu  a whole serialised message / its body as the value of a field (reference encodings written here)
    inner = []
    for ty_code, d, u, w in ((0x0, b"11", b"", b""), (0x5, b"2001", b"op", b"pw"), (0x0, b"", b"", b""), (0x40, b"7", b"", b"")):
        body = bytes([ty_code]) + b"".join(bytes([len(x)]) + x for x in (d, u, w))
        inner += [len(body).to_bytes(2, "big") + body, body, body[1:], len(body).to_bytes(2, "big") + body + b"\x10"]
    inner += [bytes.fromhex(h) for h in ("000174", "000131", "00013f", "000204", "0002 1f 00".replace(" ", ""), "0003500001")]
    inner += [b"\x00\x04" + b"\x00\x00\x05\x00", b"\x05" + u16("ok"), b"\x00\x0a\x20\x00\x05" + u16("ok!")[:6]]
    for ii, blob in enumerate(inner):
        for where in ("alone", "start", "end"):
            if _valid8(blob):
                for field in ("dev", "user", "pw", "all"):
                    rot += 1
                    ks = ("dev", "user", "pw") if field == "all" else (field,)
                    vals = {k: place(blob, b"" if where == "alone" else ARS_BODY[k].encode(), where) for k in ks}
                    for ci in (rot % 6, (rot + 3) % 6):
                        ars_case(ctx, ars_reg_fields(ARS_CARRIERS[ci], vals, f"alt:pdu:{ii}:{field}:{where}"), ae, ad, "alt")
                        ctx.count("alt:pdu:ars")
            rot += 1
            msg = place(blob + (b"\x00" if len(blob) & 1 else b""), b"" if where == "alone" else tbody, where)
            for enc in (None, 1):
                tms_case(ctx, tms_text_fields(TMS_CARRIERS[rot % 6], enc, msg, None, f"alt:pdu:{ii}:msg:{where}"), te, td, "alt")
            for ty in range(3):
                f = {"proto": "tms", "type": ty, "more": rot & 1, "ack": 0, "res": 0, "addr": place(blob, b"" if where == "alone" else ADDR_BODY, where).hex(), "cap": 3 if ty == 0 else None,
                     "seq": 64 if ty else None, "enc": 1 if ty == 2 else None, "msg": tbody.hex() if ty == 2 else None, "text": TMS_BODY if ty == 2 else None, "ctor": "member",
                     "special": f"alt:pdu:{ii}:addr:{where}"}
                tms_case(ctx, f, te, td, "alt")
            ctx.count("alt:pdu:tms")


class _Bytes(bytes):
    """a bytes subclass (what another code path of an application may hand over)"""


class _Str(str):
    pass


PROVENANCE = {
    "tms": [("bytearray", bytearray), ("memoryview", memoryview), ("bytes-subclass", _Bytes),
            ("readonly-memoryview-slice", lambda b: memoryview(b"\xff" + b + b"\xff")[1:-1])],
    "ars": [("str-subclass", _Str), ("shared-object", None)],
}


def provenance_check(f, name):
    """the same field VALUES handed over as another object of an accepted kind: None, or (kind, what, expected, actual)"""
    mk = dict(PROVENANCE[f["proto"]])[name]
    if f["proto"] == "tms":
        ref = call(lambda: tms_build(f).as_bytes())

        def build():
            p = tms_build(f)
            p.address = mk(unhx(f["addr"]))
            p.message = mk(unhx(f["msg"]))
            return p
        p = call(build)
        b = p if is_err(p) else call(p.as_bytes)
        q = b if is_err(b) else call(T().TextMessagingService.from_bytes, b)
        ok = (not is_err(b) and not is_err(q) and q is not None and b == ref and bytes(q.address) == unhx(f["addr"])
              and bytes(q.message) == unhx(f["msg"]) and call(q.as_bytes) == b)
        what = f"address / text given as {name} do not serialise and parse like the same octets given as bytes"
    else:
        ref = call(lambda: ars_build(f).as_bytes())
        vals = [None if f[k] is None else unhx(f[k]).decode("utf-8") for k in ("dev", "user", "pw")]

        def build():
            p = ars_build(f)
            if mk is None:  # one str object for all three fields (the values are equal)
                p.device_identifier = p.user_identifier = p.password = vals[0]
            else:
                p.device_identifier, p.user_identifier, p.password = (None if v is None else mk(v) for v in vals)
            return p
        p = call(build)
        b = p if is_err(p) else call(p.as_bytes)
        q = b if is_err(b) else call(A().AutomaticRegistrationService.from_bytes, b)
        ok = (not is_err(b) and not is_err(q) and q is not None and b == ref
              and [q.device_identifier, q.user_identifier, q.password] == [v or "" for v in vals] and call(q.as_bytes) == b)
        what = f"identifiers given as {name} do not serialise and parse like the same plain str values"
    if ok:
        return None
    return (f["proto"] + "-provenance", what, ref if is_err(ref) else ref.hex(), b if is_err(b) else b.hex())


def provenance_probe(ctx, rng):
    """argument provenance: bytearray, memoryview, a read-only memoryview slice and a bytes subclass for the octet-typed TMS
    fields (address, text), one object shared by address and text; a str subclass and one shared str object for the
    ARS identifiers; the serialisation must be the one of the plain values and parse back equal"""
    samples = [f for f in TMS_CORPUS if f["type"] == 2 and f["seq"] is not None and f["msg"] is not None]
    samples += [tms_text_fields(TMS_CARRIERS[i % 6], (None, 0, 1)[i % 3], u16(t), t, "provenance") for i, t in enumerate(("", "\r\n", "\ufeffab", TMS_BODY, "\x10\x80", "a" * 200))]
    for f in samples:
        f = dict(f, ctor=f.get("ctor", "member"))
        for name, _ in PROVENANCE["tms"]:
            r = provenance_check(f, name)
            ctx.case(("provenance", name, tms_enc_line(f)))
            ctx.count("provenance:tms-" + name)
            if r:
                ctx.fail(r[0], dict(f, provenance=name), "TMS: " + r[1], expected=r[2], actual=r[3])
        g = dict(f, addr=unhx(f["msg"])[:254].hex())  # equal address and text
        r = tms_oracle(g)
        ctx.case(("provenance", "equal-fields", tms_enc_line(g)))
        ctx.count("provenance:tms-equal-address-and-text")
        if r:
            ctx.fail(r[0], g, "TMS: " + r[1], expected=r[2], actual=r[3])
    for car in ARS_CARRIERS:
        for v in ("2001", "\ufeff2001", "AB\x10", "u" * 128, ""):
            f = ars_reg_fields(dict(car, others="plain"), {k: v.encode() for k in ("dev", "user", "pw")}, "provenance")
            for name, _ in PROVENANCE["ars"]:
                r = provenance_check(f, name)
                ctx.case(("provenance", name, ars_enc_line(f)))
                ctx.count("provenance:ars-" + name)
                if r:
                    ctx.fail(r[0], dict(f, provenance=name), "ARS: " + r[1], expected=r[2], actual=r[3])


class _BrokenWriter:
    def write(self, *_):
        raise OSError("stream closed")

    def flush(self):
        raise OSError("stream closed")


AMBIENTS = ("root-logger-debug", "stdout-raises", "random-reseeded", "python-O")


def _verdict(f):
    r = call(tms_oracle if f["proto"] == "tms" else ars_oracle, f)
    return None if r is None else (("raised", r, None, None) if is_err(r) else tuple(r))


def ambient_verdicts(name, sample):
    """the oracle's verdict on every message of `sample` under the ambient state `name` (None = ordinary)"""
    import io
    import logging
    import os
    import random as _random
    import subprocess
    import sys as _sys

    if name is None:
        return [_verdict(f) for f in sample]
    if name == "root-logger-debug":
        root = logging.getLogger()
        level, handler = root.level, logging.StreamHandler(io.StringIO())
        handler.setFormatter(logging.Formatter("%(asctime)s %(name)s %(levelname)s %(message)s"))
        root.addHandler(handler)
        root.setLevel(logging.DEBUG)
        try:
            return [_verdict(f) for f in sample]
        finally:
            root.removeHandler(handler)
            root.setLevel(level)
    if name == "stdout-raises":
        old = _sys.stdout
        _sys.stdout = _BrokenWriter()
        try:
            return [_verdict(f) for f in sample]
        finally:
            _sys.stdout = old
    if name == "random-reseeded":
        state = _random.getstate()
        try:
            out = []
            for i, f in enumerate(sample):
                _random.seed(i % 3)
                out.append(_verdict(f))
            return out
        finally:
            _random.setstate(state)
    if name == "python-O":
        here = os.path.dirname(os.path.abspath(__file__))
        code = ("import sys, json; sys.path[:0] = %r; import c16; fs = json.load(sys.stdin); rs = [c16._verdict(f) for f in fs]; "
                "json.dump([None if r is None else [r[0], r[1], str(r[2])[:400], str(r[3])[:400]] for r in rs], sys.stdout)"
                % ([os.path.dirname(here), here],))
        c = subprocess.run([_sys.executable, "-O", "-c", code], input=json.dumps(sample), capture_output=True, text=True, timeout=300)
        got = [None if r is None else tuple(r) for r in json.loads(c.stdout)]
        if len(got) != len(sample):
            raise ValueError("short output")
        return got
    raise ValueError(name)


def ambient_probe(ctx, rng):
    """the property on a fixed small sample under other ambient interpreter states (cheap; "every message serialises ...
    parses back ..." leaves no room for a dependence on them): root logger at DEBUG with a handler that formats every
    record, sys.stdout replaced by a writer that raises, the global `random` reseeded before every step, and a child
    `python -O` (assert statements stripped).  A verdict that differs from the ordinary one is reported."""
    import random as _random

    sample = [dict(f, ctor="member") for f in TMS_CORPUS if tms_in_range(f)] + [dict(f, ctor="member") for f in ARS_CORPUS if ars_in_range(f)]
    for csbk in (0, 1):
        for ty in ARS_REG:
            car = dict(ARS_CARRIERS[1 + csbk + ty], csbk=csbk, type=ty, others="plain")
            sample.append(ars_reg_fields(car, {"dev": b"AB\x10", "user": b"u" * 128}, "ambient"))
            sample.append(ars_reg_fields(car, {"user": b"\xef\xbb\xbfid\x10", "pw": b"\xc2\x80" * 64}, "ambient"))
    for i, text in enumerate(("", "\r\nab", "\ufeff", TMS_BODY, "\u8010", "a" * 200)):
        sample.append(tms_text_fields(TMS_CARRIERS[i % 6], (None, 0, 1)[i % 3], u16(text), text, "ambient"))
    r2 = _random.Random(rng.getrandbits(32))
    while len(sample) < ctx.budget(240, 2400):
        f = gen_tms(r2, 1.0) if len(sample) & 1 else gen_ars(r2, 1.0)
        if (tms_in_range if f["proto"] == "tms" else ars_in_range)(f):
            sample.append(f)
    base = ambient_verdicts(None, sample)
    for name in AMBIENTS:
        try:
            got = ambient_verdicts(name, sample)
        except Exception as e:  # noqa: infrastructure of the probe (child process), not a verdict
            ctx.count(f"ambient:{name}:probe-failed")
            ctx.notes.append(f"ambient probe {name} did not deliver verdicts: {type(e).__name__}")
            continue
        ctx.count("ambient:" + name, len(got))
        for f, b, g in zip(sample, base, got):
            ctx.case(("ambient", name, tms_enc_line(f) if f["proto"] == "tms" else ars_enc_line(f)))
            if g is not None and (b is None or b[0] != g[0]):
                ctx.fail(g[0], dict(f, ambient=name), f"{f['proto'].upper()} under {name}: {g[1]}", expected=g[2], actual=g[3])


def decorate_text(rng, text: str, limit: int, measure) -> str:
    """random tokens into a random value (random generator's share); keeps the value within `limit`"""
    names = list(TOK_CORE)
    for _ in range(rng.choice([1, 1, 2, 3])):
        tok = TOK_CORE[rng.choice(names)] if rng.random() < 0.8 else rng.choice(list(TOK_EXTRA.values()))
        where = rng.choice(PLACEMENTS)
        room = limit - measure(place(tok, "", where) if where not in ("joined",) else tok * 3)
        if room < 0:
            continue
        body = text
        while measure(body) > room:
            body = body[: len(body) // 2] if measure(body) > 2 * room + 2 else body[:-1]
        text = place(tok, body, where)
    return text


# captured messages of the test-suite (okdmr/tests/dmrlib/motorola/test_tms.py, test_ars.py)
TMS_CAPTURED =["0003d00001", "00021f00", "00049f009520", "000de001019544610068006f006a00"]
ARS_CAPTURED = ["0007f0200231310000", "000131", "0010f5000231310939393939393939393900", "0002bf01", "000174", "00013f", "00033f1080"]

# inputs of repaired defects (25ab0e1, f85a0e9) and boundary cases found while modelling
TMS_CORPUS = [
    {"proto": "tms", "type": 1, "more": 0, "ack": 0, "res": 0, "addr": "", "cap": None, "seq": 0, "enc": None, "msg": None, "text": None},
    {"proto": "tms", "type": 1, "more": 0, "ack": 0, "res": 0, "addr": "6162", "cap": None, "seq": 0, "enc": 1, "msg": None, "text": None},
    {"proto": "tms", "type": 1, "more": 1, "ack": 1, "res": 1, "addr": "", "cap": None, "seq": 53, "enc": 1, "msg": None, "text": None},
    {"proto": "tms", "type": 1, "more": 1, "ack": 0, "res": 0, "addr": "01", "cap": None, "seq": None, "enc": None, "msg": None, "text": None},
    {"proto": "tms", "type": 2, "more": 0, "ack": 1, "res": 0, "addr": "01", "cap": None, "seq": 31, "enc": None, "msg": "6100", "text": "a"},
    {"proto": "tms", "type": 2, "more": 0, "ack": 1, "res": 0, "addr": "01", "cap": None, "seq": 32, "enc": 0, "msg": "6100", "text": "a"},
    {"proto": "tms", "type": 2, "more": 0, "ack": 0, "res": 0, "addr": "", "cap": None, "seq": 127, "enc": 1, "msg": "", "text": ""},
    {"proto": "tms", "type": 2, "more": 0, "ack": 0, "res": 0, "addr": "", "cap": 2, "seq": 96, "enc": 1, "msg": "8000", "text": "\x80"},
    {"proto": "tms", "type": 0, "more": 0, "ack": 0, "res": 0, "addr": "ff", "cap": 3, "seq": None, "enc": None, "msg": None, "text": None},
    {"proto": "tms", "type": 0, "more": 1, "ack": 0, "res": 1, "addr": "", "cap": None, "seq": 5, "enc": 1, "msg": "6100", "text": None},
]
ARS_CORPUS = [
    {"proto": "ars", "type": 6, "more": 1, "ack": 0, "prio": 1, "ctl": 1, "csbk": 0, "rrh": None, "rsh": {"f": None, "r": 1, "ctx": "self"}, "dev": None, "user": None, "pw": None},
    {"proto": "ars", "type": 6, "more": 1, "ack": 0, "prio": 1, "ctl": 1, "csbk": 1, "rrh": None, "rsh": {"f": None, "r": 127, "ctx": "self"}, "dev": None, "user": None, "pw": None},
    {"proto": "ars", "type": 6, "more": 1, "ack": 1, "prio": 0, "ctl": 0, "csbk": 0, "rrh": None, "rsh": {"f": 3, "r": None, "ctx": "self"}, "dev": None, "user": None, "pw": None},
    {"proto": "ars", "type": 6, "more": 1, "ack": 1, "prio": 0, "ctl": 0, "csbk": 1, "rrh": None, "rsh": {"f": 0, "r": None, "ctx": "self"}, "dev": None, "user": None, "pw": None},
    {"proto": "ars", "type": 6, "more": 0, "ack": 0, "prio": 1, "ctl": 1, "csbk": 1, "rrh": None, "rsh": None, "dev": None, "user": None, "pw": None},
    {"proto": "ars", "type": 0, "more": 1, "ack": 1, "prio": 1, "ctl": 1, "csbk": 0, "rrh": [1, 0], "rsh": None, "dev": "3131", "user": "", "pw": ""},
    {"proto": "ars", "type": 2, "more": 0, "ack": 0, "prio": 0, "ctl": 0, "csbk": 0, "rrh": None, "rsh": None, "dev": None, "user": "10c280", "pw": "10c280"},
    {"proto": "ars", "type": 2, "more": 1, "ack": 0, "prio": 0, "ctl": 1, "csbk": 1, "rrh": [0, 0], "rsh": None, "dev": "31", "user": "e1" + "8080", "pw": "10"},
    {"proto": "ars", "type": 0, "more": 0, "ack": 0, "prio": 0, "ctl": 0, "csbk": 0, "rrh": None, "rsh": None, "dev": "10", "user": None, "pw": None},
    {"proto": "ars", "type": 1, "more": 1, "ack": 1, "prio": 1, "ctl": 1, "csbk": 1, "rrh": None, "rsh": None, "dev": None, "user": None, "pw": None},
    {"proto": "ars", "type": 5, "more": 0, "ack": 1, "prio": 1, "ctl": 1, "csbk": 0, "rrh": None, "rsh": None, "dev": None, "user": None, "pw": None},
    # round 4: an identifier that is its own length-value form and whose length octet equals a registration header (20 1F …, 40 3F …),
    # no has-more flag, nothing behind it; an identifier whose octets are UTF-16-LE text of ASCII characters
    {"proto": "ars", "type": 0, "more": 0, "ack": 0, "prio": 0, "ctl": 0, "csbk": 1, "rrh": None, "rsh": None, "dev": "1f" + "72" * 31, "user": "", "pw": ""},
    {"proto": "ars", "type": 0, "more": 0, "ack": 0, "prio": 0, "ctl": 0, "csbk": 0, "rrh": None, "rsh": None, "dev": "3f" + "72" * 63, "user": None, "pw": None},
    {"proto": "ars", "type": 2, "more": 0, "ack": 0, "prio": 0, "ctl": 0, "csbk": 0, "rrh": None, "rsh": None, "dev": "", "user": "3400370031003100", "pw": ""},
]


def tms_case(ctx, f, pairs_enc, pairs_dec, tag):
    """one TMS message: correspondence lines + oracle when in range"""
    p = call(tms_build, f)
    b = p if is_err(p) else call(p.as_bytes)
    out = b if is_err(b) else hx(b)
    pairs_enc.append((tms_enc_line(f), out))
    inr = tms_in_range(f)
    ctx.count(f"tms:type{f['type']}:{'in-range' if inr else 'out-of-range'}")
    if f["seq"] is not None and f["type"] != 0:
        ctx.count("tms:sn>31" if f["seq"] > 31 else "tms:sn<=31")
    if is_err(out):
        ctx.count(f"tms:enc:{out}")
    else:
        pairs_dec.append((f"tms.dec {out}", tms_dec(b)))
    desc = ("tms", f["type"], f["more"], f["ack"], f["res"], f["addr"], f["cap"], f["seq"], f["enc"], f["msg"])
    ctx.case(desc, nontrivial=True, sample={"tag": tag, "fields": {k: v for k, v in f.items() if k != "text"}, "bytes": out} if ctx.evaluations % 997 == 3 else None)
    if inr:
        r = tms_oracle(f)
        if r:
            ctx.fail(r[0], {k: v for k, v in f.items()}, "TMS: " + r[1], expected=r[2], actual=r[3])
    return None if is_err(b) else b


def ars_case(ctx, f, pairs_enc, pairs_dec, tag):
    p = call(ars_build, f)
    b = p if is_err(p) else call(p.as_bytes)
    out = b if is_err(b) else hx(b)
    pairs_enc.append((ars_enc_line(f), out))
    inr = ars_in_range(f)
    ctx.count(f"ars:type{f['type']}:{'in-range' if inr else 'out-of-range'}")
    if f["csbk"]:
        ctx.count("ars:csbk")
    if is_err(out):
        ctx.count(f"ars:enc:{out}")
    else:
        pairs_dec.append((f"ars.dec {out}", ars_dec(b)))
    desc = ("ars", f["type"], f["more"], f["ack"], f["prio"], f["ctl"], f["csbk"], json.dumps(f["rrh"]), json.dumps(f["rsh"]), f["dev"], f["user"], f["pw"])
    ctx.case(desc, nontrivial=True, sample={"tag": tag, "fields": f, "bytes": out} if ctx.evaluations % 997 == 5 else None)
    if inr:
        r = ars_oracle(f)
        if r:
            ctx.fail(r[0], dict(f), "ARS: " + r[1], expected=r[2], actual=r[3])
    return None if is_err(b) else b


def captured(ctx, pairs_tdec, pairs_adec):
    """captured messages: parse, compare with the model, and re-serialise to the captured bytes"""
    m, a = T(), A()
    for h in TMS_CAPTURED:
        b = bytes.fromhex(h)
        pairs_tdec.append((f"tms.dec {h}", tms_dec(b)))
        q = call(m.TextMessagingService.from_bytes, b)
        b2 = q if is_err(q) else call(q.as_bytes)
        ctx.case(("tms-captured", h))
        ctx.count("tms:captured")
        if b2 != b:
            ctx.fail("tms-captured", {"proto": "tms", "captured": h}, "TMS: captured message does not re-serialise to itself", expected=h, actual=b2 if is_err(b2) else b2.hex())
    for h in ARS_CAPTURED:
        b = bytes.fromhex(h)
        pairs_adec.append((f"ars.dec {h}", ars_dec(b)))
        q = call(a.AutomaticRegistrationService.from_bytes, b)
        b2 = q if is_err(q) else call(q.as_bytes)
        ctx.case(("ars-captured", h))
        ctx.count("ars:captured")
        if b2 != b:
            ctx.fail("ars-captured", {"proto": "ars", "captured": h}, "ARS: captured message does not re-serialise to itself", expected=h, actual=b2 if is_err(b2) else b2.hex())


def sweeps(ctx, pairs):
    """small exhaustive spaces (both tiers): header octets, second-header octets, sequence numbers"""
    m, a = T(), A()
    te, td, ae, ad, misc = pairs
    # every first-header octet through both parsers
    for b in range(256):
        h = call(m.FirstHeader.from_bytes, bytes([b]))
        if is_err(h):
            out = h
        else:
            out = "%d %d %d %d %d" % (h.has_more_headers, h.is_acknowledged, h.is_reserved, h.is_control_message, TMS_TYPES.index(h.pdu_type.name))
        misc.append((f"tms.hdr {b}", out))
        ad.append((f"ars.dec 0001{b:02x}", ars_dec(bytes([0, 1, b]))))
        ad.append((f"ars.dec 0002{b:02x}05", ars_dec(bytes([0, 2, b, 5]))))
        # every octet as second header of a response (success and failure), as registration request header
        for hb in (0xBF, 0xFF):
            d = bytes([0, 2, hb, b])
            ad.append((f"ars.dec {d.hex()}", ars_dec(d)))
        d = bytes([0, 5, 0xF0, b, 0, 0, 0])
        ad.append((f"ars.dec {d.hex()}", ars_dec(d)))
        # ResponseSecondHeader.from_bytes(octet).as_bytes() without context
        r = call(lambda: a.ResponseSecondHeader.from_bytes(bytes([b])).as_bytes())
        misc.append((f"ars.rshb {b}", r if is_err(r) else hx(r)))
        ctx.case(("octet", b))
    ctx.count("sweep:octets", 256)
    # every sequence number 0..127 (and the first out of range) x encoding x ack/text
    for sn in list(range(130)) + [255, 256]:
        for enc in (None, 0, 1):
            for ty in (1, 2):
                for addr in ("", "0a0b0c"):
                    f = {"proto": "tms", "type": ty, "more": 0, "ack": sn & 1, "res": 0, "addr": addr, "cap": None, "seq": sn, "enc": enc,
                         "msg": "4100" if ty == 2 else None, "text": "A" if ty == 2 else None, "ctor": "member"}
                    tms_case(ctx, f, te, td, "sweep-sn")
            e = None if enc is None else getattr(m.TMSEncoding, TMS_ENCS[enc])
            p = m.TextMessagingService(m.FirstHeader(pdu_type=m.TMSPDUType.TMS_ACKNOWLEDGEMENT), sequence_number=sn, encoding=e)
            r = call(p.encode_sn_and_encoding)
            misc.append((f"tms.sn {sn} {onat(enc)}", r if is_err(r) else hx(r)))
    # decode_sn_and_encoding on every pair of octets (first: all, second: all 256 for a few firsts)
    for b0 in range(256):
        for b1 in (range(256) if b0 in (0x80, 0x9F, 0xFF) else (0, 0x04, 0x24, 0x60, 0x64, 0x7F, 0x84, 0xFF)):
            d = bytes([b0, b1])
            r = call(m.TextMessagingService.decode_sn_and_encoding, d, 0)
            out = r if is_err(r) else "%d %d %s" % (r[0], r[1], onat(None if r[2] is None else TMS_ENCS.index(r[2].name)))
            misc.append((f"tms.unsn {d.hex()} 0", out))
        r = call(m.TextMessagingService.decode_sn_and_encoding, bytes([b0]), 0)
        out = r if is_err(r) else "%d %d %s" % (r[0], r[1], onat(None if r[2] is None else TMS_ENCS.index(r[2].name)))
        misc.append((f"tms.unsn {b0:02x} 0", out))
    # every refresh time 0..130 and failure reason through a response, with and without trailer
    for rt in range(0, 131):
        for csbk in (0, 1):
            f = {"proto": "ars", "type": 6, "more": 1, "ack": 0, "prio": rt & 1, "ctl": 1, "csbk": csbk, "rrh": None,
                 "rsh": {"f": None, "r": rt or None, "ctx": "self"}, "dev": None, "user": None, "pw": None, "ctor": "member"}
            if rt == 0:
                f["rsh"] = {"f": 1, "r": None, "ctx": "self"}  # success flag but only a failure reason: rejected
            ars_case(ctx, f, ae, ad, "sweep-refresh")
    for fr in range(4):
        for csbk in (0, 1):
            for ack in (0, 1):
                for cx in ("self", "none", "other"):
                    f = {"proto": "ars", "type": 6, "more": 1, "ack": ack, "prio": 0, "ctl": 0, "csbk": csbk, "rrh": None,
                         "rsh": {"f": fr, "r": None, "ctx": cx}, "dev": None, "user": None, "pw": None, "ctor": "member"}
                    ars_case(ctx, f, ae, ad, "sweep-failure")
    # the constructor's assertion
    for fr in (None, 0, 1, 2, 3):
        for rt in (None, 0, 1, 127):
            r = call(lambda: a.ResponseSecondHeader(failure_reason=None if fr is None else getattr(a.FailureReason, ARS_FAILS[fr]), refresh_time=rt))
            misc.append((f"ars.rsh {onat(fr)} {onat(rt)}", "0" if is_err(r) else "1"))
    # every address length 0..255 (+ 256) for each TMS type
    for n in range(257):
        for ty in range(3):
            f = {"proto": "tms", "type": ty, "more": 0, "ack": 0, "res": 0, "addr": bytes((n + i) & 0xFF for i in range(n)).hex(), "cap": 1 if ty == 0 else None,
                 "seq": (n % 128) if ty else None, "enc": 1 if ty == 2 else None, "msg": "4100" if ty == 2 else None, "text": "A" if ty == 2 else None, "ctor": "member"}
            tms_case(ctx, f, te, td, "sweep-address")
    # every identifier length 0..255 (+ 256) in each of the three positions
    for n in range(257):
        for k in ("dev", "user", "pw"):
            f = {"proto": "ars", "type": 0 if n & 1 else 2, "more": n & 1, "ack": 0, "prio": 0, "ctl": 0, "csbk": (n >> 1) & 1, "rrh": [n % 3, 0] if n & 1 else None,
                 "rsh": None, "dev": "", "user": None, "pw": "", "ctor": "member"}
            f[k] = (b"\xc2\x80" * (n // 2) + b"x" * (n % 2)).hex()
            ars_case(ctx, f, ae, ad, "sweep-identifier")


def utf8_probe(ctx, rng, misc, n):
    """`validUtf8` of the model against CPython's strict decoder (it decides UnicodeDecodeError in from_bytes)"""
    leads = [0x00, 0x10, 0x7F, 0x80, 0xBF, 0xC0, 0xC1, 0xC2, 0xDF, 0xE0, 0xE1, 0xEC, 0xED, 0xEE, 0xEF, 0xF0, 0xF1, 0xF3, 0xF4, 0xF5, 0xFF]
    conts = [0x00, 0x7F, 0x80, 0x8F, 0x90, 0x9F, 0xA0, 0xBF, 0xC0, 0xFF]
    for _ in range(n):
        k = rng.randrange(0, 6)
        d = bytes(rng.choice(leads) if (i == 0 or rng.random() < 0.3) else rng.choice(conts) for i in range(k))
        if rng.random() < 0.3:
            d = rand_ident(rng, rng.randrange(0, 8)) + d
        try:
            d.decode("utf-8")
            ok = "1"
        except UnicodeDecodeError:
            ok = "0"
        misc.append((f"ars.utf8 {hx(d)}", ok))
        ctx.count("utf8:valid" if ok == "1" else "utf8:invalid")


# ------------------------------------------------------------------------------------------------
# history / object-identity probes (harness/histories.py): entry points of the TMS / ARS codecs, described once
def ENTRY_POINTS():
    import histories as H

    mt, ma = T(), A()

    def tms_parts(rng):
        f = gen_tms(rng, in_range_bias=1.0)
        ty = getattr(mt.TMSPDUType, TMS_TYPES[f["type"]])
        hdr = mt.FirstHeader(has_more_headers=bool(f["more"]), is_acknowledged=bool(f["ack"]), is_reserved=bool(f["res"]), pdu_type=ty)
        cap = None if f["cap"] is None else mt.AvailabilitySecondHeader(mt.TMSDeviceCapability(f["cap"]))
        enc = None if f["enc"] is None else getattr(mt.TMSEncoding, TMS_ENCS[f["enc"]])
        msg = None if f["msg"] is None else unhx(f["msg"])[:60]
        return (hdr, unhx(f["addr"])[:12], cap, f["seq"], enc, msg)

    def tms_new(hdr, addr, cap, seq, enc, msg):
        return mt.TextMessagingService(first_header=hdr, address=addr, availability_header=cap, sequence_number=seq, encoding=enc, message=msg)

    def ars_parts(rng):
        f = gen_ars(rng, in_range_bias=1.0)
        if rng.random() < 0.5:  # acknowledgements are the kind with a second header bound to the first: half of the draws
            f["type"], f["more"] = ARS_RESPONSE, 1
            f["ack"] = rng.randrange(2)
            f["rsh"] = {"f": rng.randrange(4), "r": None, "ctx": "self"} if f["ack"] else {"f": None, "r": rng.choice([1, 2, 63, 64, 126, 127, 127, rng.randint(1, 127)]), "ctx": "self"}
            f["rrh"] = None
            f["dev"] = f["user"] = f["pw"] = None
        ty = getattr(ma.ARSPDUType, ARS_TYPES[f["type"]])
        hdr = ma.FirstHeader(has_more_headers=bool(f["more"]), is_acknowledged=bool(f["ack"]), is_priority=bool(f["prio"]), is_control_message=bool(f["ctl"]), pdu_type=ty)
        rrh = None if f["rrh"] is None else ma.RegistrationRequestHeader(event=getattr(ma.RegistrationEvent, ARS_EVENTS[f["rrh"][0]]), encoding=ma.Encoding.UTF8)
        rsh = None
        if f["rsh"] is not None:
            r = f["rsh"]
            rsh = ma.ResponseSecondHeader(failure_reason=None if r["f"] is None else getattr(ma.FailureReason, ARS_FAILS[r["f"]]), refresh_time=r["r"])
            rsh.context(hdr)
        ident = lambda x: None if x is None else unhx(x)[:20].decode("utf-8", "ignore")  # noqa: E731
        return (hdr, rrh, rsh, ident(f["dev"]), ident(f["user"]), ident(f["pw"]), bool(f["csbk"]))

    def ars_new(hdr, rrh, rsh, dev, user, pw, csbk):
        return ma.AutomaticRegistrationService(first_header=hdr, registration_request_header=rrh, response_second_header=rsh,
                                                device_identifier=dev, user_identifier=user, password=pw, is_csbk_ars=csbk)

    def wire(parts, new):
        def make(rng):
            b = call(lambda: new(*parts(rng)).as_bytes())
            if is_err(b):
                b = bytes.fromhex("0003900001")
            if rng.random() < 0.25:
                b = mutate(rng, b)
            return (bytes(b),)
        return make

    def view(q):
        # as_bytes first: it recomputes has_more_headers in the header object (reviewed normalisation, DESIGN §5 C16), so the
        # field view is taken after it and the canonical value is the same whenever it is taken again
        b = H.canon(call(q.as_bytes)) if hasattr(q, "as_bytes") else None
        return {"as_bytes": b, "fields": H.canon(q)}

    def octet(rng):
        return (bytes([rng.choice([0x00, 0x7F, 0x80, 0xFF, 0xBF, 0x3F, rng.randrange(256)])]),)

    ser = lambda o: o.as_bytes()  # noqa: E731
    eps = [
        H.EP("tms.build", tms_new, tms_parts, kind="build", serialise=ser, canon=view, group="tms"),
        H.EP("tms.from_bytes", mt.TextMessagingService.from_bytes, wire(tms_parts, tms_new), kind="parse", serialise=ser, canon=view, group="tms", domain="wire", draws=2),
        H.EP("ars.build", ars_new, ars_parts, kind="build", serialise=ser, canon=view, group="ars"),
        H.EP("ars.from_bytes", ma.AutomaticRegistrationService.from_bytes, wire(ars_parts, ars_new), kind="parse", serialise=ser, canon=view, group="ars", domain="wire", draws=3),
    ]
    for mod, pre in ((mt, "tms"), (ma, "ars")):
        for cn in ("FirstHeader", "AvailabilitySecondHeader", "RegistrationRequestHeader", "ResponseSecondHeader"):
            c = getattr(mod, cn, None)
            if c is not None and hasattr(c, "from_bytes"):
                eps.append(H.EP(f"{pre}.{cn}.from_bytes", c.from_bytes, octet, kind="parse", canon=H.canon, group=pre, domain=f"{pre}-octet"))
    return eps


def run_transl(ctx, ars_enc_pairs, ars_dec_pairs, tms_enc_pairs=(), tms_dec_pairs=(), misc_pairs=()):
    """Differential validation of the source translator for byte-oriented object codecs (tools/py2lean_obj.py on top of
    py2lean_bits.py / py2lean.py) and of its preludes (Model/PyObj.lean, PyBits.lean, Py.lean), trusted base of Props/C16t: the
    definitions TRANSLATED from the source of automatic_registration_service.py (`Gen/TranslArs.lean`, driver operations `t.ars.*`,
    call boundary instantiated with the model: bitarray frombytes / tobytes, UTF-8 codec = validUtf8) against the real code.
    `t.ars.enc` / `t.ars.dec` take and print exactly the forms of the hand model's `ars.enc` / `ars.dec`, so EVERY case this run
    generated for the model (constructed messages in and out of range, serialisations, mutated serialisations, straddling
    constants, hand-made wire images with ill-formed UTF-8, ...) is also fed to the translated source, with the same expected
    value computed by the real code; the helpers and headers are exercised one by one (`t.ars.lv / rlv / fh / rrh / rsh / rshinit /
    len`: None / empty / 255 / 256-octet / multi-byte identifiers, read positions before, inside and past the data, every header
    octet, empty and 2-octet header strings).  A difference is a translator or prelude bug, never a finding about /repo."""
    if ctx.search_only or not ctx.driver_ok:
        return
    m = A()
    rng = ctx.rng
    ARS = m.AutomaticRegistrationService
    pairs = []
    cap = ctx.budget(40000, 400000)
    for src in (ars_enc_pairs, ars_dec_pairs):
        step = max(1, len(src) // cap)
        for line, exp in src[::step]:
            if line.startswith(("ars.enc ", "ars.dec ")):
                pairs.append(("t." + line, exp))
    ctx.count("transl:ars.as_bytes/from_bytes", len(pairs))
    extra = []
    # __len__ of parsed messages: the decode output has the form of the encode arguments
    n_len = 0
    for line, exp in ars_dec_pairs[:: max(1, len(ars_dec_pairs) // ctx.budget(1500, 15000))]:
        if line.startswith("ars.dec ") and not is_err(exp) and exp != "NONE":
            q = call(ARS.from_bytes, unhx(line.split()[1]))
            if not is_err(q):
                extra.append(("t.ars.len " + exp, str(call(len, q))))
                n_len += 1
    strs = [None, "", "a", "\u00e9", "\u20ac", "\U0001f600", "\x00", "x" * 255, "x" * 256, "\u00e9" * 127, "\u00e9" * 128,
            "\ufeff2001", "\r\n", "\x10\u0080"]
    for _ in range(ctx.budget(200, 2000)):
        k = rng.choice((1, 2, 3, 10, 100, 254, 255, 256, 300))
        strs.append("".join(rng.choice("az09 \u00e9\u00df\u20ac\u4e2d\U0001f600\x00\x7f") for _ in range(k)))
    for t in strs:
        arg = "N" if t is None else hx(t.encode("utf-8"))
        extra.append(("t.ars.lv " + arg, call(lambda: hx(ARS.encode_len_val(t)))))
        if t is not None:   # the prelude's len(str) on the UTF-8 carrier
            extra.append(("t.ars.prim.strlen " + hx(t.encode("utf-8")), str(len(t))))
        if t is not None:   # the bytes form of the Union parameter
            tb = t.encode("utf-8")[::-1]
            extra.append(("t.ars.lvb " + hx(tb), call(lambda: hx(ARS.encode_len_val(tb)))))
    for _ in range(ctx.budget(600, 6000)):
        d = bytes(rng.choice((0, 1, 2, 3, 5, 255, rng.randrange(256))) for _ in range(rng.choice((0, 1, 2, 3, 6, 12))))
        i = rng.randrange(-len(d) - 2, len(d) + 3)
        extra.append((f"t.ars.rlv {hx(d)} {i}", call(lambda: (lambda r: f"{r[0]} {hx(r[1])}")(ARS.read_len_val(d, i)))))

    def fh(o):
        return "%d %d %d %d %d" % (o.has_more_headers, o.is_acknowledged, o.is_priority, o.is_control_message,
                                   ARS_TYPES.index(o.pdu_type.name))

    def rrh(o):
        return "%d.%d" % (ARS_EVENTS.index(o.event.name), 0 if o.encoding == m.Encoding.UTF8 else 99)

    def rsh(o):
        return "%s.%s.%s" % ("-" if o.failure_reason is None else ARS_FAILS.index(o.failure_reason.name),
                             "-" if o.refresh_time is None else o.refresh_time,
                             "-" if o.first_header is None else int(bool(o.first_header.is_acknowledged)))

    def hdr(cls, show, d):
        o = call(cls.from_bytes, d)
        if is_err(o):
            return o
        b = call(o.as_bytes)
        return show(o) + " " + (b if is_err(b) else hx(b)) + " " + str(call(len, o))

    octets = [bytes([v]) for v in range(256)] + [b"", b"\x00\xff", b"\xff\x00", b"\xf0\x01\x02"]
    for d in octets:
        extra.append(("t.ars.fh " + hx(d), hdr(m.FirstHeader, fh, d)))
        extra.append(("t.ars.rrh " + hx(d), hdr(m.RegistrationRequestHeader, rrh, d)))
        extra.append(("t.ars.rsh " + hx(d), hdr(m.ResponseSecondHeader, rsh, d)))
    for f in (None, 0, 1, 2, 3):
        for r in (None, -1, 0, 1, 5, 127, 128, 255, 256):
            fr = None if f is None else getattr(m.FailureReason, ARS_FAILS[f])
            extra.append((f"t.ars.rshinit {'-' if f is None else fr.value} {'-' if r is None else r}",
                          call(lambda: rsh(m.ResponseSecondHeader(failure_reason=fr, refresh_time=r)))))
    ctx.count("transl:ars.helpers+headers", len(extra))
    ctx.count("transl:ars.__len__", n_len)
    # TMS (`Gen/TranslTms.lean`, operations `t.tms.*`): again every case generated for the hand model (tms.enc / tms.dec / tms.hdr /
    # tms.sn / tms.unsn lines, same expected values), plus read positions below zero and the availability header on every octet
    tm = T()
    tpairs = []
    for src in (list(tms_enc_pairs), list(tms_dec_pairs)):
        step = max(1, len(src) // cap)
        for line, exp in src[::step]:
            if line.startswith(("tms.enc ", "tms.dec ")):
                tpairs.append(("t." + line, exp))
    for line, exp in misc_pairs:
        if line.startswith(("tms.hdr ", "tms.sn ", "tms.unsn ")):
            tpairs.append(("t." + line, exp))
    ctx.count("transl:tms.as_bytes/from_bytes/sn/hdr", len(tpairs))
    textra = []

    def unsn(d, i):
        r = tm.TextMessagingService.decode_sn_and_encoding(d, i)
        return "%d %d %s" % (r[0], r[1], "-" if r[2] is None else ["UNDEFINED", "UCS2_LE"].index(r[2].name))

    for _ in range(ctx.budget(600, 6000)):
        d = bytes(rng.choice((0, 0x1F, 0x80, 0x84, 0x9F, 0xE4, 0xFF, rng.randrange(256))) for _ in range(rng.choice((0, 1, 2, 3, 5))))
        i = rng.randrange(-len(d) - 2, len(d) + 3)
        textra.append((f"t.tms.unsn {hx(d)} {i}", call(unsn, d, i)))

    def cap_show(d):
        o = tm.AvailabilitySecondHeader.from_bytes(d)
        b = call(o.as_bytes)
        return "%d %s" % (o.capability.value, b if is_err(b) else hx(b))

    for d in octets:
        textra.append(("t.tms.cap " + hx(d), call(cap_show, d)))
    ctx.count("transl:tms.helpers", len(textra))
    ctx.correspond("transl", pairs + extra + tpairs + textra)


def run(ctx):
    ctx.rule = (
        "messages are built from fields with the library's constructors: TMS = type (3) x flags has_more/ack/reserved x "
        "address 0..255 octets x capability x sequence number (None, 0..127, boundaries 31/32/63/64/95/96/127 favoured) x "
        "encoding (None/UNDEFINED/UCS2_LE) x UCS-2 text 0..200 characters; ARS = type (5 implemented + the 2 unimplemented) x "
        "flags has_more/ack/priority/control x registration header event x identifiers/password None or 0..255 UTF-8 octets "
        "(multi-byte characters, strings ending in ..10 .. 80 favoured) x refresh time 1..127 x failure reason (4) x CSBK trailer; "
        "~15 % of the cases leave the property's range on purpose (sequence number >= 128 or missing, missing text, 256+ octet "
        "fields, second header without / with a foreign context, refresh time 0 or > 127) and only feed the correspondence; "
        "every serialisation is parsed back, and mutated serialisations (truncated, octet replaced, length prefix changed, "
        "octets appended, random) go through both parsers. "
        "Text-like fields (TMS text, TMS address, ARS device / user identifier and password) additionally get a dictionary of "
        "special tokens (line breaks CR LF / LF CR / CR / LF / NEL / LS / PS, byte-order marks and non-characters U+FEFF U+FFFE "
        "U+FFFF U+FFFD, NUL runs and padding, every C0 control, C1 controls, every Unicode blank and invisible format "
        "character, combining marks and characters that change under NFC / NFKC / case mapping, non-BMP characters, lone "
        "surrogates (octet-typed fields only), escape / format directives, numeric- and keyword-looking values, protocol "
        "constants as characters or octets: CSBK trailer 10 80 in both byte orders, optional-header and first-header octets, "
        "length-value and whole-PDU look-alikes, tokens of another encoding than the field's) at 10 placements (alone, doubled, "
        "start, start doubled, middle, middle doubled, end, end doubled, both ends, as separator) x every encoding x two fixed "
        "and one random carrier message x each field and all fields at once; random token pairs; every single character as "
        "first and as last character (quick: the blocks that hold special characters + 1024 random, thorough: every UCS-2 "
        "code unit / BMP scalar value + 4096 others); maximal-length values made of multi-byte characters (253..258 octets, "
        "199..202 UCS-2 units), every text length 0..202, 255-octet addresses of constants, three-field sums around 256 "
        "octets; 25 % of the random texts / identifiers are decorated with random tokens; hand-made wire images with "
        "ill-formed / boundary UTF-8 in each ARS field and TMS texts without optional header / with surplus octets feed the "
        "correspondence only. "
        "Constants STRADDLING item boundaries: every message kind (ARS type x has_more x acknowledged x trailer; TMS type x "
        "second header) is described as a list of serialised items (length prefix, header, second headers, length octets, "
        "values, trailer) and a solver places every constant of a dictionary (CSBK trailer 10 80, doubled, overlapping, "
        "swapped, one octet off, every other ASCII + continuation-octet pair class; header / second-header / optional-header "
        "octets with their neighbours, length-value and length-prefix look-alikes, UCS-2 CR LF, byte-order marks; every "
        "2- and 3-octet window (thorough: 4) of the captured messages of the test-suite) at every item boundary with every "
        "split (last k octets of one item + first n-k of the following ones, passing through one-octet and empty items), "
        "choosing flags, second-header values, field lengths (0x10, 0x80, ...) and value heads / tails as needed, under every "
        "remaining flag combination, with the untouched values plain / empty / holding the constant once more; the protocol's "
        "own constants also at two and three boundaries of one message; the length-prefix coincidences also for the length "
        "without the trailer; the message's own length prefix as the constant; placements an item's alphabet cannot express "
        "(0x80 as first octet of UTF-8) are counted as unreachable and agree with theorem ars_trailer_sites (10 80 in a "
        "registration: exactly four sites). Sub-parts and near misses of the trailer as the last octets of the body; one "
        "field equal to / holding the length-value form, header, length prefix, optional header or whole serialisation of "
        "another part of the same message. Argument provenance: bytearray / memoryview / read-only slice / bytes subclass for "
        "the octet-typed TMS fields, str subclass and one shared object for the ARS identifiers. Ambient state: a fixed "
        "sample of 240 in-range messages under root logger DEBUG, failing sys.stdout, reseeded global random and in a child "
        "python -O. "
        "Round 4 — values that, as raw octets, read as ANOTHER structure of the protocol or as text in another encoding: a solver walks the item layout of "
        "an ARS registration (length octets / second headers fixed, value octets free) and builds every way the octets behind the first header ALSO read as "
        "k skipped octets (un-flagged headers, given header values) + exactly m length-value items to the end (k 0..2, m 1..5; every plan over the lengths "
        "0,1,2,5,32,64 on every run, a budgeted share of the grid up to 255 incl. every small int literal of the current source); the plain nesting (value = its own "
        "length-value form, or reaching through the following fields to the end) for every field x every length 1..255 x type x has_more x neighbours empty / plain; "
        "every octet 00..7F as first octet of every field x lengths 2^k, 2^k +- 1 (the header-valued 32 / 64 under both types x all 16 flag combinations); the same for the "
        "TMS address and text; 14 words (ASCII, Latin-1, BMP, non-BMP) in 12 other codecs + every codec name found as a literal in the current source, as raw octets and "
        "octet-per-character, alone / start / end of each field; ~30 recognisable textual formats (hex, base64, percent, dotted quad, JSON, NUL-padded …) and every "
        "short string / bytes literal of the current source as values; whole serialised ARS / TMS messages and bodies as values. "
        "Every generated octet string goes through the oracle and through the model (as_bytes and "
        "from_bytes lines). A case is distinct by its full field tuple / byte string."
    )
    ctx.trusted_base += [
        "Lean 4.33 kernel",
        "tools/extract_tms.py (calls the TMS/ARS enumerations of /repo on every value the parsers can look up)",
        "hand-written models Model/Tms.lean, Model/Ars.lean tied to text_messaging_service.py / automatic_registration_service.py by this run's correspondence",
        "Python's UTF-8 and UTF-16-LE codecs (identifiers and texts are opaque byte strings in the model; validUtf8 is compared with CPython's decoder on every run)",
        "bitarray (int2ba/ba2int/frombytes/tobytes) as the substrate of the header codecs",
        "source translator tools/py2lean_obj.py (on top of tools/py2lean_bits.py, tools/py2lean.py; plug-in tools/extract_transl_obj.py) and its preludes "
        "lean/DmrVerif/Model/PyObj.lean, PyBits.lean, Py.lean; the call boundary of Gen/TranslArs.lean (bytes_to_bits / bits_to_bytes, str.encode / "
        "bytes.decode for utf-8) instantiated with the model in Model/TranslArsExt.lean; validated on every run by the differential operations t.ars.* "
        "(run_transl); Props/C16t proves the translated definitions equal to Model/Ars for all inputs",
    ]
    ctx.assumptions += [
        'default endian="big" of from_bytes/as_bytes',
        "an ARS acknowledgement's ResponseSecondHeader is bound to the message's own first header with .context(header), as from_bytes does; without it as_bytes treats the header as a failure header (modelled, compared, outside the property)",
        "USER_DEREGISTRATION_REQUEST and USER_REGISTRATION_RESPONSE raise 'not implemented' in both directions and are outside the property's list of message kinds",
        "listed normalisations: TMS has_more_headers recomputed by as_bytes, reserved bit set for text messages, encoding UNDEFINED == no encoding, fields a PDU type does not carry are not serialised; ARS None and '' identifiers are the same zero-length field, second headers exist only when has_more_headers is set, the response octet fills both refresh_time and failure_reason",
    ]
    rng = ctx.rng
    te, td, ae, ad, misc = [], [], [], [], []
    # corpus first
    captured(ctx, td, ad)
    for f in TMS_CORPUS:
        f = dict(f, ctor="member")
        tms_case(ctx, f, te, td, "corpus")
    for f in ARS_CORPUS:
        f = dict(f, ctor="member")
        ars_case(ctx, f, ae, ad, "corpus")
    sweeps(ctx, (te, td, ae, ad, misc))
    special_tokens(ctx, rng, (te, td, ae, ad, misc))
    special_lengths(ctx, rng, (te, td, ae, ad, misc))
    special_wire(ctx, (te, td, ae, ad, misc))
    special_straddle(ctx, rng, (te, td, ae, ad, misc))
    special_tails(ctx, (te, td, ae, ad, misc))
    special_cross(ctx, rng, (te, td, ae, ad, misc))
    special_alternative(ctx, rng, (te, td, ae, ad, misc))
    provenance_probe(ctx, rng)
    ambient_probe(ctx, rng)
    special_single_chars(ctx, rng, (te, td, ae, ad, misc))
    if ctx.thorough():
        special_factorial(ctx, (te, td, ae, ad, misc))
    utf8_probe(ctx, rng, misc, ctx.budget(2000, 40000))
    n = ctx.budget(5000, 200000)
    for i in range(n):
        if i & 1:
            f = gen_tms(rng)
            b = tms_case(ctx, f, te, td, "random")
            if b is not None and rng.random() < 0.5:
                x = mutate(rng, b)
                td.append((f"tms.dec {hx(x)}", tms_dec(x)))
                ctx.count("tms:mutated-parse")
                if rng.random() < 0.3:
                    ad.append((f"ars.dec {hx(x)}", ars_dec(x)))
        else:
            f = gen_ars(rng)
            b = ars_case(ctx, f, ae, ad, "random")
            if b is not None and rng.random() < 0.5:
                x = mutate(rng, b)
                ad.append((f"ars.dec {hx(x)}", ars_dec(x)))
                ctx.count("ars:mutated-parse")
                if rng.random() < 0.3:
                    td.append((f"tms.dec {hx(x)}", tms_dec(x)))
    import histories

    histories.run(ctx, ENTRY_POINTS)
    if not ctx.search_only and ctx.driver_ok:
        ctx.correspond("tms.as_bytes", te)
        ctx.correspond("tms.from_bytes", td)
        ctx.correspond("ars.as_bytes", ae)
        ctx.correspond("ars.from_bytes", ad)
        ctx.correspond("headers/sn/utf8", misc)
    run_transl(ctx, ae, ad, te, td, misc)


def replay(obj):
    f = (obj.get("failure") or {}).get("input") or {}
    print(json.dumps(obj.get("type")), (obj.get("failure") or {}).get("what"))
    if str((obj.get("failure") or {}).get("kind", "")).startswith("history:"):
        import histories

        return histories.replay(f, ENTRY_POINTS)
    if "captured" in f:
        b = bytes.fromhex(f["captured"])
        cls = T().TextMessagingService if f["proto"] == "tms" else A().AutomaticRegistrationService
        q = call(cls.from_bytes, b)
        b2 = q if is_err(q) else call(q.as_bytes)
        print("implementation: from_bytes(", f["captured"], ").as_bytes() =", b2 if is_err(b2) else b2.hex())
        return 0 if b2 == b else 1
    special = None
    if f.get("ambient") in AMBIENTS:
        special = ambient_verdicts(f["ambient"], [f])[0]
        print("re-run under ambient state:", f["ambient"])
    elif f.get("provenance") in dict(PROVENANCE.get(f.get("proto"), [])):
        special = provenance_check(f, f["provenance"])
        print("re-run with field objects of kind:", f["provenance"])
    if f.get("proto") == "tms":
        r = special or tms_oracle(f)
        p = call(tms_build, f)
        b = p if is_err(p) else call(p.as_bytes)
        print("implementation: as_bytes =", b if is_err(b) else b.hex())
        if not is_err(b):
            print("implementation: from_bytes(as_bytes) =", tms_dec(b))
        print("model line:", tms_enc_line(f))
    elif f.get("proto") == "ars":
        r = special or ars_oracle(f)
        p = call(ars_build, f)
        b = p if is_err(p) else call(p.as_bytes)
        print("implementation: as_bytes =", b if is_err(b) else b.hex())
        if not is_err(b):
            print("implementation: from_bytes(as_bytes) =", ars_dec(b))
        print("model line:", ars_enc_line(f))
    else:
        print("nothing to replay")
        return 0
    if r:
        print("STILL FAILS:", r[0], r[1], "expected:", r[2], "actual:", r[3])
        return 1
    print("property holds on this input now")
    return 0
