"""C16 — Motorola TMS and ARS messages keep length framing and fields over a round trip (DESIGN §5 C16)."""
import json

from common import impl_error

PROP = "C16"
MODULES = ["C16"]
GEN = ["Tms", "Ars"]
MATCHERS = {}

TMS_TYPES = ["SERVICE_AVAILABILITY", "TMS_ACKNOWLEDGEMENT", "SIMPLE_TEXT_MESSAGE"]
TMS_ENCS = ["UNDEFINED", "UCS2_LE"]
ARS_TYPES = [
    "DEVICE_REGISTRATION_REQUEST",
    "DEVICE_DEREGISTATION_NOTICE",
    "USER_REGISTRATION_REQUEST",
    "USER_DEREGISTRATION_REQUEST",
    "USER_REGISTRATION_RESPONSE",
    "STATUS_QUERY_REQUEST",
    "ARS_DEVICE_OR_QUERY_RESPONSE",
]
ARS_IMPLEMENTED = (0, 1, 2, 5, 6)
ARS_REG = (0, 2)
ARS_RESPONSE = 6
ARS_EVENTS = ["DONT_CARE", "INITIAL", "REFRESH"]
ARS_FAILS = ["DEVICE_NOT_AUTHORIZED", "USER_ID_NOT_VALID", "USER_VALIDATION_TIMEOUT", "TRANSMISSION_FAILURE"]


def T():
    import okdmr.dmrlib.motorola.text_messaging_service as m

    return m


def A():
    import okdmr.dmrlib.motorola.automatic_registration_service as m

    return m


def hx(b) -> str:
    return b.hex() if len(b) else "-"


def ohx(b) -> str:
    return "N" if b is None else hx(b)


def onat(v) -> str:
    return "-" if v is None else str(int(v))


def unhx(s):
    return b"" if s in ("-", "") else bytes.fromhex(s)


def call(fn, *a):
    try:
        return fn(*a)
    except BaseException as e:  # noqa: every exception of the real code is an observable
        return impl_error(e)


def is_err(x) -> bool:
    return isinstance(x, str) and x.startswith("ERR ")


# ------------------------------------------------------------------------------------------------
# TMS
# ------------------------------------------------------------------------------------------------
def tms_build(f):
    m = T()
    ty = getattr(m.TMSPDUType, TMS_TYPES[f["type"]])
    if f.get("ctor") == "int":
        # the constructor form FirstHeader.from_bytes uses: (is_control_message, int)
        hdr = m.FirstHeader(
            has_more_headers=f["more"], is_acknowledged=f["ack"], is_reserved=f["res"],
            is_control_message=int(ty.value[0]), pdu_type=int(ty.value[1]),
        )
    else:
        hdr = m.FirstHeader(
            has_more_headers=bool(f["more"]), is_acknowledged=bool(f["ack"]), is_reserved=bool(f["res"]), pdu_type=ty
        )
    cap = None if f["cap"] is None else m.AvailabilitySecondHeader(m.TMSDeviceCapability(f["cap"]))
    enc = None if f["enc"] is None else getattr(m.TMSEncoding, TMS_ENCS[f["enc"]])
    msg = None if f["msg"] is None else unhx(f["msg"])
    return m.TextMessagingService(
        first_header=hdr, address=unhx(f["addr"]), availability_header=cap,
        sequence_number=f["seq"], encoding=enc, message=msg,
    )


def tms_enc_line(f) -> str:
    return "tms.enc %d %d %d %d %s %s %s %s %s" % (
        f["more"], f["ack"], f["res"], f["type"], f["addr"] or "-", onat(f["cap"]), onat(f["seq"]), onat(f["enc"]),
        "N" if f["msg"] is None else (f["msg"] or "-"),
    )


def tms_view(q):
    """observable fields of a parsed / built TextMessagingService"""
    m = T()
    return {
        "more": int(bool(q.header.has_more_headers)),
        "ack": int(bool(q.header.is_acknowledged)),
        "res": int(bool(q.header.is_reserved)),
        "ctl": int(bool(q.header.is_control_message)),
        "type": TMS_TYPES.index(q.header.pdu_type.name),
        "addr": hx(q.address),
        "cap": None if q.availability_header is None else int(q.availability_header.capability.value),
        "seq": q.sequence_number,
        "enc": None if q.encoding is None else TMS_ENCS.index(q.encoding.name),
        "msg": None if q.message is None else hx(q.message),
    }


def tms_show(v) -> str:
    return "%d %d %d %d %d %s %s %s %s %s" % (
        v["more"], v["ack"], v["res"], v["ctl"], v["type"], v["addr"], onat(v["cap"]), onat(v["seq"]), onat(v["enc"]),
        "N" if v["msg"] is None else v["msg"],
    )


def tms_dec(data: bytes) -> str:
    q = call(T().TextMessagingService.from_bytes, data)
    if is_err(q):
        return q
    if q is None:
        return "NONE"
    return tms_show(tms_view(q))


def tms_in_range(f) -> bool:
    """the messages the property quantifies over"""
    if len(unhx(f["addr"])) > 255:
        return False
    if f["type"] == 0:
        return True
    if f["type"] == 1:
        if f["seq"] is None:
            return f["enc"] is None
        return 0 <= f["seq"] <= 127
    return f["seq"] is not None and 0 <= f["seq"] <= 127 and f["msg"] is not None and len(unhx(f["msg"])) <= 400


def tms_norm(f):
    """what the parser must return for an in-range message: the listed normalisations only"""
    ty = f["type"]
    enc = 1 if f["enc"] == 1 else None  # UNDEFINED is the wire value 0 = "no encoding"
    ctl = int(bool(getattr(T().TMSPDUType, TMS_TYPES[ty]).value[0]))
    v = {"ack": f["ack"], "ctl": ctl, "type": ty, "addr": f["addr"] or "-", "cap": None, "seq": None, "enc": None, "msg": None}
    v["res"] = int(bool(f["res"]) or ty == 2)  # reserved bit forced for text messages
    if ty == 0:
        v["cap"] = f["cap"]
        v["more"] = int(f["cap"] is not None)
    elif ty == 1:
        v["seq"] = f["seq"]
        v["enc"] = enc if f["seq"] is not None else None
        v["more"] = int(f["seq"] is not None)
    else:
        v["seq"] = f["seq"]
        v["enc"] = enc
        v["msg"] = f["msg"] or "-"
        v["more"] = 1
    return v


def tms_oracle(f):
    """the property on the real code; returns None or (kind, what, expected, actual)"""
    m = T()
    p = call(tms_build, f)
    if is_err(p):
        return ("tms-build-raises", "building the message from fields raised", "object", p)
    b = call(p.as_bytes)
    if is_err(b):
        return ("tms-serialise-raises", "as_bytes raised for an in-range message", "bytes", b)
    if len(b) < 2 or int.from_bytes(b[:2], "big") != len(b) - 2:
        return ("tms-length-prefix", "leading length differs from the number of bytes that follow", len(b) - 2, b.hex())
    q = call(m.TextMessagingService.from_bytes, b)
    if is_err(q) or q is None:
        return ("tms-parse-raises", "from_bytes rejected the library's own serialisation", "object", str(q))
    want, got = tms_norm(f), tms_view(q)
    if want != got:
        return ("tms-fields", "parsed fields differ from the fields the message was built from", want, got)
    if f["type"] == 2 and f.get("text") is not None:
        t = call(lambda: q.message.decode("utf-16-le"))
        if t != f["text"]:
            return ("tms-text", "UCS-2 text differs after the round trip", f["text"], t)
    b2 = call(q.as_bytes)
    if b2 != b:
        return ("tms-reserialise", "serialising the parsed message gives different bytes", b.hex(), b2 if is_err(b2) else b2.hex())
    return None


# ------------------------------------------------------------------------------------------------
# ARS
# ------------------------------------------------------------------------------------------------
def ars_build(f):
    m = A()
    ty = getattr(m.ARSPDUType, ARS_TYPES[f["type"]])
    if f.get("ctor") == "int":
        hdr = m.FirstHeader(
            has_more_headers=f["more"], is_acknowledged=f["ack"], is_priority=f["prio"],
            is_control_message=f["ctl"], pdu_type=int(ty.value),
        )
    else:
        hdr = m.FirstHeader(
            has_more_headers=bool(f["more"]), is_acknowledged=bool(f["ack"]), is_priority=bool(f["prio"]),
            is_control_message=bool(f["ctl"]), pdu_type=ty,
        )
    rrh = None
    if f["rrh"] is not None:
        rrh = m.RegistrationRequestHeader(
            event=getattr(m.RegistrationEvent, ARS_EVENTS[f["rrh"][0]]), encoding=m.Encoding.UTF8
        )
    rsh = None
    if f["rsh"] is not None:
        r = f["rsh"]
        fr = None if r["f"] is None else getattr(m.FailureReason, ARS_FAILS[r["f"]])
        rsh = m.ResponseSecondHeader(failure_reason=fr, refresh_time=r["r"])
        if r["ctx"] == "self":
            rsh.context(hdr)
        elif r["ctx"] == "other":
            rsh.context(m.FirstHeader(is_acknowledged=not f["ack"], pdu_type=ty))
    ident = lambda s: None if s is None else unhx(s).decode("utf-8")  # noqa: E731
    first = hdr.as_bytes() if f.get("ctor") == "bytes" else hdr
    return m.AutomaticRegistrationService(
        first_header=first, registration_request_header=rrh, response_second_header=rsh,
        device_identifier=ident(f["dev"]), user_identifier=ident(f["user"]), password=ident(f["pw"]),
        is_csbk_ars=bool(f["csbk"]),
    )


def rsh_show(r) -> str:
    if r is None:
        return "-"
    return "%s.%s.%s" % (onat(r["f"]), onat(r["r"]), r["c"])


def ars_enc_line(f) -> str:
    r = f["rsh"]
    if r is not None:
        c = {"none": "-", "self": str(int(bool(f["ack"]))), "other": str(int(not f["ack"]))}[r["ctx"]]
        r = {"f": r["f"], "r": r["r"], "c": c}
    return "ars.enc %d %d %d %d %d %s %s %s %s %s %d" % (
        f["more"], f["ack"], f["prio"], f["ctl"], f["type"],
        "-" if f["rrh"] is None else "%d.%d" % tuple(f["rrh"]),
        rsh_show(r),
        "N" if f["dev"] is None else (f["dev"] or "-"),
        "N" if f["user"] is None else (f["user"] or "-"),
        "N" if f["pw"] is None else (f["pw"] or "-"),
        f["csbk"],
    )


def ars_view(q):
    m = A()
    sid = lambda s: None if s is None else hx(s.encode("utf-8") if isinstance(s, str) else bytes(s))  # noqa: E731
    rsh = None
    if q.response_second_header is not None:
        r = q.response_second_header
        rsh = {
            "f": None if r.failure_reason is None else ARS_FAILS.index(r.failure_reason.name),
            "r": r.refresh_time,
            "c": "-" if r.first_header is None else str(int(bool(r.first_header.is_acknowledged))),
        }
    rrh = None
    if q.registration_request_header is not None:
        r = q.registration_request_header
        rrh = [ARS_EVENTS.index(r.event.name), 0 if r.encoding == m.Encoding.UTF8 else 99]
    return {
        "more": int(bool(q.header.has_more_headers)), "ack": int(bool(q.header.is_acknowledged)),
        "prio": int(bool(q.header.is_priority)), "ctl": int(bool(q.header.is_control_message)),
        "type": ARS_TYPES.index(q.header.pdu_type.name),
        "rrh": rrh, "rsh": rsh,
        "dev": sid(q.device_identifier), "user": sid(q.user_identifier), "pw": sid(q.password),
        "csbk": int(bool(q.is_csbk_ars)),
    }


def ars_show(v) -> str:
    return "%d %d %d %d %d %s %s %s %s %s %d" % (
        v["more"], v["ack"], v["prio"], v["ctl"], v["type"],
        "-" if v["rrh"] is None else "%d.%d" % tuple(v["rrh"]),
        rsh_show(v["rsh"]),
        "N" if v["dev"] is None else v["dev"], "N" if v["user"] is None else v["user"], "N" if v["pw"] is None else v["pw"],
        v["csbk"],
    )


def ars_dec(data: bytes) -> str:
    q = call(A().AutomaticRegistrationService.from_bytes, data)
    if is_err(q):
        return q
    if q is None:
        return "NONE"
    return ars_show(ars_view(q))


def ars_in_range(f) -> bool:
    if f["type"] not in ARS_IMPLEMENTED:
        return False
    for k in ("dev", "user", "pw"):
        if f[k] is not None and len(unhx(f[k])) > 255:
            return False
    if f["type"] in ARS_REG:
        return (not f["more"]) or f["rrh"] is not None
    if f["type"] == ARS_RESPONSE and f["more"]:
        r = f["rsh"]
        if r is None or r["ctx"] != "self":
            return False
        if f["ack"]:
            return r["f"] is not None
        return r["r"] is not None and 1 <= r["r"] <= 127
    return True


def ars_norm(f):
    v = {k: f[k] for k in ("more", "ack", "prio", "ctl", "type", "csbk")}
    v.update({"rrh": None, "rsh": None, "dev": None, "user": None, "pw": None})
    if f["type"] in ARS_REG:
        for k in ("dev", "user", "pw"):
            v[k] = f[k] or "-"  # None and "" are the same zero-length field
        if f["more"]:
            v["rrh"] = list(f["rrh"])
    elif f["type"] == ARS_RESPONSE and f["more"]:
        # the octet carries the failure reason or the refresh time, selected by the acknowledged flag;
        # the parser fills the other attribute from the same octet
        if f["ack"]:
            v["rsh"] = {"f": f["rsh"]["f"]}
        else:
            v["rsh"] = {"r": f["rsh"]["r"]}
    return v


def ars_oracle(f):
    m = A()
    p = call(ars_build, f)
    if is_err(p):
        return ("ars-build-raises", "building the message from fields raised", "object", p)
    b = call(p.as_bytes)
    if is_err(b):
        return ("ars-serialise-raises", "as_bytes raised for an in-range message", "bytes", b)
    if len(b) < 2 or int.from_bytes(b[:2], "big") != len(b) - 2:
        return ("ars-length-prefix", "leading length differs from the number of bytes that follow", len(b) - 2, b.hex())
    n = call(len, p)
    if n != len(b):
        return ("ars-len", "__len__ differs from the serialised length", len(b), n)
    q = call(m.AutomaticRegistrationService.from_bytes, b)
    if is_err(q) or q is None:
        return ("ars-parse-raises", "from_bytes rejected the library's own serialisation", "object", str(q))
    want, got = ars_norm(f), ars_view(q)
    if want["rsh"] is not None and got["rsh"] is not None:
        if got["rsh"]["c"] != str(f["ack"]):
            return ("ars-fields", "parsed second header is not bound to the parsed first header", str(f["ack"]), got["rsh"]["c"])
        got = dict(got, rsh={k: got["rsh"][k] for k in want["rsh"]})
    if want != got:
        return ("ars-fields", "parsed fields differ from the fields the message was built from", want, got)
    b2 = call(q.as_bytes)
    if b2 != b:
        return ("ars-reserialise", "serialising the parsed message gives different bytes", b.hex(), b2 if is_err(b2) else b2.hex())
    return None


# ------------------------------------------------------------------------------------------------
# generators
# ------------------------------------------------------------------------------------------------
def pick_len(rng, hi, edges):
    r = rng.random()
    if r < 0.45:
        return rng.choice(edges)
    if r < 0.75:
        return rng.randint(0, min(hi, 12))
    return rng.randint(0, hi)


SEQ_EDGES = [0, 1, 2, 15, 16, 30, 31, 32, 33, 63, 64, 65, 95, 96, 97, 126, 127]
UCS2_EDGES = [0x0000, 0x0001, 0x0010, 0x007F, 0x0080, 0x00FF, 0x0100, 0x07FF, 0x0800, 0x1080, 0x8010, 0xD7FF, 0xE000, 0xFFFD, 0xFFFF]
CP_EDGES = [0x00, 0x10, 0x7F, 0x80, 0xBF, 0x7FF, 0x800, 0x1000, 0x1080, 0xFFF, 0xD7FF, 0xE000, 0xFFFF, 0x10000, 0x10080, 0x3FFFF, 0x40000, 0x100000, 0x10FFFF]


def rand_ucs2(rng, n):
    out = []
    for _ in range(n):
        if rng.random() < 0.2:
            c = rng.choice(UCS2_EDGES)
        else:
            c = rng.randrange(0x10000)
            if 0xD800 <= c <= 0xDFFF:
                c = 0x41
        out.append(chr(c))
    return "".join(out)


def rand_cp(rng):
    r = rng.random()
    if r < 0.25:
        return rng.choice(CP_EDGES)
    if r < 0.55:
        return rng.randrange(0x80)
    if r < 0.75:
        return rng.randrange(0x80, 0x800)
    if r < 0.92:
        c = rng.randrange(0x800, 0x10000)
        return 0x20AC if 0xD800 <= c <= 0xDFFF else c
    return rng.randrange(0x10000, 0x110000)


def rand_ident(rng, nbytes):
    """a str whose UTF-8 form has exactly nbytes bytes"""
    out = b""
    while len(out) < nbytes:
        c = chr(rand_cp(rng)).encode("utf-8")
        if len(out) + len(c) <= nbytes:
            out += c
        elif nbytes - len(out) <= 1:
            out += bytes([rng.randrange(0x80)])
    # strings that end in the octet 0x80 after a 0x10 octet somewhere near the end are the ones that come
    # closest to the CSBK trailer 10 80
    if nbytes >= 3 and rng.random() < 0.15:
        tail = rng.choice(["\x10\u0080", "\x10က", "\x10Ѐ", "А\u0080", "\x10\U00010080"]).encode("utf-8")
        if len(tail) <= nbytes:
            # cut only at a character boundary ("ignore" drops an incomplete trailing sequence)
            out = out[: nbytes - len(tail)].decode("utf-8", errors="ignore").encode("utf-8")
            out = out + b"a" * (nbytes - len(tail) - len(out)) + tail
    out.decode("utf-8")
    return out


def gen_tms(rng, in_range_bias=0.85):
    f = {"proto": "tms"}
    f["type"] = rng.randrange(3)
    f["more"], f["ack"], f["res"] = rng.randrange(2), rng.randrange(2), rng.randrange(2)
    f["ctor"] = rng.choice(["member", "member", "int"])
    n = pick_len(rng, 255, [0, 1, 2, 3, 4, 127, 128, 254, 255])
    f["addr"] = bytes(rng.randrange(256) for _ in range(n)).hex()
    strict = rng.random() < in_range_bias
    f["cap"] = None
    f["seq"] = None
    f["enc"] = None
    f["msg"] = None
    f["text"] = None
    ty = f["type"]
    if ty == 0 or not strict:
        f["cap"] = rng.choice([None, 0, 1, 2, 3]) if (ty == 0 or rng.random() < 0.5) else None
    if ty in (1, 2) or not strict:
        r = rng.random()
        if ty == 1 and r < 0.2:
            f["seq"] = None
        elif r < 0.6:
            f["seq"] = rng.choice(SEQ_EDGES)
        else:
            f["seq"] = rng.randrange(128)
        f["enc"] = rng.choice([None, 0, 1, 1])
        if ty == 1 and f["seq"] is None and strict:
            f["enc"] = None
    if ty == 2 or (not strict and rng.random() < 0.5):
        k = pick_len(rng, 200, [0, 1, 2, 3, 199, 200])
        f["text"] = rand_ucs2(rng, k)
        f["msg"] = f["text"].encode("utf-16-le").hex()
    if not strict:
        # leave the property's range on purpose (model and code must still agree, including on errors)
        r = rng.random()
        if r < 0.2:
            f["seq"] = rng.choice([128, 129, 255, 256, 1000])
        elif r < 0.35:
            f["seq"] = None
        elif r < 0.45:
            f["msg"] = None
            f["text"] = None
        elif r < 0.55:
            f["addr"] = bytes(rng.randrange(256) for _ in range(rng.choice([256, 257, 300]))).hex()
        elif r < 0.65 and f["msg"] is not None:
            f["msg"] = bytes(rng.randrange(256) for _ in range(rng.randrange(0, 9))).hex()  # odd lengths
            f["text"] = None
    return f


def gen_ars(rng, in_range_bias=0.85):
    f = {"proto": "ars"}
    strict = rng.random() < in_range_bias
    f["type"] = rng.choice(ARS_IMPLEMENTED) if strict or rng.random() < 0.7 else rng.randrange(7)
    for k in ("more", "ack", "prio", "ctl", "csbk"):
        f[k] = rng.randrange(2)
    f["ctor"] = rng.choice(["member", "member", "int", "bytes"])
    f["rrh"] = None
    f["rsh"] = None
    f["dev"] = f["user"] = f["pw"] = None
    ty = f["type"]
    if ty in ARS_REG or (not strict and rng.random() < 0.3):
        if f["more"] or rng.random() < 0.3:
            f["rrh"] = [rng.randrange(3), 0]
        for k in ("dev", "user", "pw"):
            r = rng.random()
            if r < 0.12:
                f[k] = None
            else:
                n = pick_len(rng, 255, [0, 1, 2, 3, 4, 16, 127, 128, 129, 254, 255])
                f[k] = rand_ident(rng, n).hex()
    if ty == ARS_RESPONSE or (not strict and rng.random() < 0.3):
        if f["more"] or rng.random() < 0.3:
            if f["ack"]:
                fr = rng.randrange(4)
                rt = rng.choice([None, None, 0, 5, 127])
            else:
                fr = rng.choice([None, None, None, 0, 1, 3])
                rt = rng.choice([1, 2, 3, 16, 63, 64, 126, 127]) if rng.random() < 0.5 else rng.randint(1, 127)
            f["rsh"] = {"f": fr, "r": rt, "ctx": "self"}
    if not strict:
        r = rng.random()
        if r < 0.25 and f["rsh"] is not None:
            f["rsh"]["ctx"] = rng.choice(["none", "other"])
        elif r < 0.4 and f["rsh"] is not None:
            f["rsh"]["r"] = rng.choice([128, 129, 200, 255, 256, 300])
            if rng.random() < 0.5:
                f["rsh"]["f"] = None
        elif r < 0.5:
            f["rrh"] = None
        elif r < 0.6:
            f["rsh"] = None
        elif r < 0.75:
            k = rng.choice(["dev", "user", "pw"])
            f[k] = rand_ident(rng, rng.choice([256, 257, 300])).hex()
        elif r < 0.85 and f["rsh"] is not None and not f["ack"]:
            f["rsh"]["f"] = rng.randrange(4)
            f["rsh"]["r"] = None
            f["rsh"]["ctx"] = rng.choice(["none", "self"])
    if f["rsh"] is not None and f["rsh"]["f"] is None and not f["rsh"]["r"]:
        # the constructor asserts `failure_reason or refresh_time`; exercised separately (ars.rsh)
        f["rsh"]["r"] = 1
    return f


def mutate(rng, b: bytes) -> bytes:
    """malformed / foreign inputs for the parsers: model and code must agree on every one"""
    b = bytearray(b)
    r = rng.random()
    if r < 0.25 and b:
        del b[rng.randrange(len(b)) :]
    elif r < 0.5 and b:
        i = rng.randrange(len(b))
        b[i] = rng.choice([0, 1, 0x10, 0x7F, 0x80, 0xFF, rng.randrange(256)])
    elif r < 0.65 and len(b) >= 2:
        v = max(0, int.from_bytes(b[:2], "big") + rng.choice([-3, -2, -1, 1, 2, 3, 250]))
        b[:2] = (v & 0xFFFF).to_bytes(2, "big")
    elif r < 0.8:
        b += bytes(rng.choice([0x10, 0x80, 0, rng.randrange(256)]) for _ in range(rng.randrange(1, 4)))
    elif r < 0.9 and b:
        i = rng.randrange(len(b))
        b[i] ^= 1 << rng.randrange(8)
    else:
        b = bytearray(rng.randrange(256) for _ in range(rng.randrange(0, 12)))
    return bytes(b)


# captured messages of the test-suite (okdmr/tests/dmrlib/motorola/test_tms.py, test_ars.py)
TMS_CAPTURED = ["0003d00001", "00021f00", "00049f009520", "000de001019544610068006f006a00"]
ARS_CAPTURED = ["0007f0200231310000", "000131", "0010f5000231310939393939393939393900", "0002bf01", "000174", "00013f", "00033f1080"]

# inputs of repaired defects (25ab0e1, f85a0e9) and boundary cases found while modelling
TMS_CORPUS = [
    {"proto": "tms", "type": 1, "more": 0, "ack": 0, "res": 0, "addr": "", "cap": None, "seq": 0, "enc": None, "msg": None, "text": None},
    {"proto": "tms", "type": 1, "more": 0, "ack": 0, "res": 0, "addr": "6162", "cap": None, "seq": 0, "enc": 1, "msg": None, "text": None},
    {"proto": "tms", "type": 1, "more": 1, "ack": 1, "res": 1, "addr": "", "cap": None, "seq": 53, "enc": 1, "msg": None, "text": None},
    {"proto": "tms", "type": 1, "more": 1, "ack": 0, "res": 0, "addr": "01", "cap": None, "seq": None, "enc": None, "msg": None, "text": None},
    {"proto": "tms", "type": 2, "more": 0, "ack": 1, "res": 0, "addr": "01", "cap": None, "seq": 31, "enc": None, "msg": "6100", "text": "a"},
    {"proto": "tms", "type": 2, "more": 0, "ack": 1, "res": 0, "addr": "01", "cap": None, "seq": 32, "enc": 0, "msg": "6100", "text": "a"},
    {"proto": "tms", "type": 2, "more": 0, "ack": 0, "res": 0, "addr": "", "cap": None, "seq": 127, "enc": 1, "msg": "", "text": ""},
    {"proto": "tms", "type": 2, "more": 0, "ack": 0, "res": 0, "addr": "", "cap": 2, "seq": 96, "enc": 1, "msg": "8000", "text": "\x80"},
    {"proto": "tms", "type": 0, "more": 0, "ack": 0, "res": 0, "addr": "ff", "cap": 3, "seq": None, "enc": None, "msg": None, "text": None},
    {"proto": "tms", "type": 0, "more": 1, "ack": 0, "res": 1, "addr": "", "cap": None, "seq": 5, "enc": 1, "msg": "6100", "text": None},
]
ARS_CORPUS = [
    {"proto": "ars", "type": 6, "more": 1, "ack": 0, "prio": 1, "ctl": 1, "csbk": 0, "rrh": None, "rsh": {"f": None, "r": 1, "ctx": "self"}, "dev": None, "user": None, "pw": None},
    {"proto": "ars", "type": 6, "more": 1, "ack": 0, "prio": 1, "ctl": 1, "csbk": 1, "rrh": None, "rsh": {"f": None, "r": 127, "ctx": "self"}, "dev": None, "user": None, "pw": None},
    {"proto": "ars", "type": 6, "more": 1, "ack": 1, "prio": 0, "ctl": 0, "csbk": 0, "rrh": None, "rsh": {"f": 3, "r": None, "ctx": "self"}, "dev": None, "user": None, "pw": None},
    {"proto": "ars", "type": 6, "more": 1, "ack": 1, "prio": 0, "ctl": 0, "csbk": 1, "rrh": None, "rsh": {"f": 0, "r": None, "ctx": "self"}, "dev": None, "user": None, "pw": None},
    {"proto": "ars", "type": 6, "more": 0, "ack": 0, "prio": 1, "ctl": 1, "csbk": 1, "rrh": None, "rsh": None, "dev": None, "user": None, "pw": None},
    {"proto": "ars", "type": 0, "more": 1, "ack": 1, "prio": 1, "ctl": 1, "csbk": 0, "rrh": [1, 0], "rsh": None, "dev": "3131", "user": "", "pw": ""},
    {"proto": "ars", "type": 2, "more": 0, "ack": 0, "prio": 0, "ctl": 0, "csbk": 0, "rrh": None, "rsh": None, "dev": None, "user": "10c280", "pw": "10c280"},
    {"proto": "ars", "type": 2, "more": 1, "ack": 0, "prio": 0, "ctl": 1, "csbk": 1, "rrh": [0, 0], "rsh": None, "dev": "31", "user": "e1" + "8080", "pw": "10"},
    {"proto": "ars", "type": 0, "more": 0, "ack": 0, "prio": 0, "ctl": 0, "csbk": 0, "rrh": None, "rsh": None, "dev": "10", "user": None, "pw": None},
    {"proto": "ars", "type": 1, "more": 1, "ack": 1, "prio": 1, "ctl": 1, "csbk": 1, "rrh": None, "rsh": None, "dev": None, "user": None, "pw": None},
    {"proto": "ars", "type": 5, "more": 0, "ack": 1, "prio": 1, "ctl": 1, "csbk": 0, "rrh": None, "rsh": None, "dev": None, "user": None, "pw": None},
]


def tms_case(ctx, f, pairs_enc, pairs_dec, tag):
    """one TMS message: correspondence lines + oracle when in range"""
    p = call(tms_build, f)
    b = p if is_err(p) else call(p.as_bytes)
    out = b if is_err(b) else hx(b)
    pairs_enc.append((tms_enc_line(f), out))
    inr = tms_in_range(f)
    ctx.count(f"tms:type{f['type']}:{'in-range' if inr else 'out-of-range'}")
    if f["seq"] is not None and f["type"] != 0:
        ctx.count("tms:sn>31" if f["seq"] > 31 else "tms:sn<=31")
    if is_err(out):
        ctx.count(f"tms:enc:{out}")
    else:
        pairs_dec.append((f"tms.dec {out}", tms_dec(b)))
    desc = ("tms", f["type"], f["more"], f["ack"], f["res"], f["addr"], f["cap"], f["seq"], f["enc"], f["msg"])
    ctx.case(desc, nontrivial=True, sample={"tag": tag, "fields": {k: v for k, v in f.items() if k != "text"}, "bytes": out} if ctx.evaluations % 997 == 3 else None)
    if inr:
        r = tms_oracle(f)
        if r:
            ctx.fail(r[0], {k: v for k, v in f.items()}, "TMS: " + r[1], expected=r[2], actual=r[3])
    return None if is_err(b) else b


def ars_case(ctx, f, pairs_enc, pairs_dec, tag):
    p = call(ars_build, f)
    b = p if is_err(p) else call(p.as_bytes)
    out = b if is_err(b) else hx(b)
    pairs_enc.append((ars_enc_line(f), out))
    inr = ars_in_range(f)
    ctx.count(f"ars:type{f['type']}:{'in-range' if inr else 'out-of-range'}")
    if f["csbk"]:
        ctx.count("ars:csbk")
    if is_err(out):
        ctx.count(f"ars:enc:{out}")
    else:
        pairs_dec.append((f"ars.dec {out}", ars_dec(b)))
    desc = ("ars", f["type"], f["more"], f["ack"], f["prio"], f["ctl"], f["csbk"], json.dumps(f["rrh"]), json.dumps(f["rsh"]), f["dev"], f["user"], f["pw"])
    ctx.case(desc, nontrivial=True, sample={"tag": tag, "fields": f, "bytes": out} if ctx.evaluations % 997 == 5 else None)
    if inr:
        r = ars_oracle(f)
        if r:
            ctx.fail(r[0], dict(f), "ARS: " + r[1], expected=r[2], actual=r[3])
    return None if is_err(b) else b


def captured(ctx, pairs_tdec, pairs_adec):
    """captured messages: parse, compare with the model, and re-serialise to the captured bytes"""
    m, a = T(), A()
    for h in TMS_CAPTURED:
        b = bytes.fromhex(h)
        pairs_tdec.append((f"tms.dec {h}", tms_dec(b)))
        q = call(m.TextMessagingService.from_bytes, b)
        b2 = q if is_err(q) else call(q.as_bytes)
        ctx.case(("tms-captured", h))
        ctx.count("tms:captured")
        if b2 != b:
            ctx.fail("tms-captured", {"proto": "tms", "captured": h}, "TMS: captured message does not re-serialise to itself", expected=h, actual=b2 if is_err(b2) else b2.hex())
    for h in ARS_CAPTURED:
        b = bytes.fromhex(h)
        pairs_adec.append((f"ars.dec {h}", ars_dec(b)))
        q = call(a.AutomaticRegistrationService.from_bytes, b)
        b2 = q if is_err(q) else call(q.as_bytes)
        ctx.case(("ars-captured", h))
        ctx.count("ars:captured")
        if b2 != b:
            ctx.fail("ars-captured", {"proto": "ars", "captured": h}, "ARS: captured message does not re-serialise to itself", expected=h, actual=b2 if is_err(b2) else b2.hex())


def sweeps(ctx, pairs):
    """small exhaustive spaces (both tiers): header octets, second-header octets, sequence numbers"""
    m, a = T(), A()
    te, td, ae, ad, misc = pairs
    # every first-header octet through both parsers
    for b in range(256):
        h = call(m.FirstHeader.from_bytes, bytes([b]))
        if is_err(h):
            out = h
        else:
            out = "%d %d %d %d %d" % (h.has_more_headers, h.is_acknowledged, h.is_reserved, h.is_control_message, TMS_TYPES.index(h.pdu_type.name))
        misc.append((f"tms.hdr {b}", out))
        ad.append((f"ars.dec 0001{b:02x}", ars_dec(bytes([0, 1, b]))))
        ad.append((f"ars.dec 0002{b:02x}05", ars_dec(bytes([0, 2, b, 5]))))
        # every octet as second header of a response (success and failure), as registration request header
        for hb in (0xBF, 0xFF):
            d = bytes([0, 2, hb, b])
            ad.append((f"ars.dec {d.hex()}", ars_dec(d)))
        d = bytes([0, 5, 0xF0, b, 0, 0, 0])
        ad.append((f"ars.dec {d.hex()}", ars_dec(d)))
        # ResponseSecondHeader.from_bytes(octet).as_bytes() without context
        r = call(lambda: a.ResponseSecondHeader.from_bytes(bytes([b])).as_bytes())
        misc.append((f"ars.rshb {b}", r if is_err(r) else hx(r)))
        ctx.case(("octet", b))
    ctx.count("sweep:octets", 256)
    # every sequence number 0..127 (and the first out of range) x encoding x ack/text
    for sn in list(range(130)) + [255, 256]:
        for enc in (None, 0, 1):
            for ty in (1, 2):
                for addr in ("", "0a0b0c"):
                    f = {"proto": "tms", "type": ty, "more": 0, "ack": sn & 1, "res": 0, "addr": addr, "cap": None, "seq": sn, "enc": enc,
                         "msg": "4100" if ty == 2 else None, "text": "A" if ty == 2 else None, "ctor": "member"}
                    tms_case(ctx, f, te, td, "sweep-sn")
            e = None if enc is None else getattr(m.TMSEncoding, TMS_ENCS[enc])
            p = m.TextMessagingService(m.FirstHeader(pdu_type=m.TMSPDUType.TMS_ACKNOWLEDGEMENT), sequence_number=sn, encoding=e)
            r = call(p.encode_sn_and_encoding)
            misc.append((f"tms.sn {sn} {onat(enc)}", r if is_err(r) else hx(r)))
    # decode_sn_and_encoding on every pair of octets (first: all, second: all 256 for a few firsts)
    for b0 in range(256):
        for b1 in (range(256) if b0 in (0x80, 0x9F, 0xFF) else (0, 0x04, 0x24, 0x60, 0x64, 0x7F, 0x84, 0xFF)):
            d = bytes([b0, b1])
            r = call(m.TextMessagingService.decode_sn_and_encoding, d, 0)
            out = r if is_err(r) else "%d %d %s" % (r[0], r[1], onat(None if r[2] is None else TMS_ENCS.index(r[2].name)))
            misc.append((f"tms.unsn {d.hex()} 0", out))
        r = call(m.TextMessagingService.decode_sn_and_encoding, bytes([b0]), 0)
        out = r if is_err(r) else "%d %d %s" % (r[0], r[1], onat(None if r[2] is None else TMS_ENCS.index(r[2].name)))
        misc.append((f"tms.unsn {b0:02x} 0", out))
    # every refresh time 0..130 and failure reason through a response, with and without trailer
    for rt in range(0, 131):
        for csbk in (0, 1):
            f = {"proto": "ars", "type": 6, "more": 1, "ack": 0, "prio": rt & 1, "ctl": 1, "csbk": csbk, "rrh": None,
                 "rsh": {"f": None, "r": rt or None, "ctx": "self"}, "dev": None, "user": None, "pw": None, "ctor": "member"}
            if rt == 0:
                f["rsh"] = {"f": 1, "r": None, "ctx": "self"}  # success flag but only a failure reason: rejected
            ars_case(ctx, f, ae, ad, "sweep-refresh")
    for fr in range(4):
        for csbk in (0, 1):
            for ack in (0, 1):
                for cx in ("self", "none", "other"):
                    f = {"proto": "ars", "type": 6, "more": 1, "ack": ack, "prio": 0, "ctl": 0, "csbk": csbk, "rrh": None,
                         "rsh": {"f": fr, "r": None, "ctx": cx}, "dev": None, "user": None, "pw": None, "ctor": "member"}
                    ars_case(ctx, f, ae, ad, "sweep-failure")
    # the constructor's assertion
    for fr in (None, 0, 1, 2, 3):
        for rt in (None, 0, 1, 127):
            r = call(lambda: a.ResponseSecondHeader(failure_reason=None if fr is None else getattr(a.FailureReason, ARS_FAILS[fr]), refresh_time=rt))
            misc.append((f"ars.rsh {onat(fr)} {onat(rt)}", "0" if is_err(r) else "1"))
    # every address length 0..255 (+ 256) for each TMS type
    for n in range(257):
        for ty in range(3):
            f = {"proto": "tms", "type": ty, "more": 0, "ack": 0, "res": 0, "addr": bytes((n + i) & 0xFF for i in range(n)).hex(), "cap": 1 if ty == 0 else None,
                 "seq": (n % 128) if ty else None, "enc": 1 if ty == 2 else None, "msg": "4100" if ty == 2 else None, "text": "A" if ty == 2 else None, "ctor": "member"}
            tms_case(ctx, f, te, td, "sweep-address")
    # every identifier length 0..255 (+ 256) in each of the three positions
    for n in range(257):
        for k in ("dev", "user", "pw"):
            f = {"proto": "ars", "type": 0 if n & 1 else 2, "more": n & 1, "ack": 0, "prio": 0, "ctl": 0, "csbk": (n >> 1) & 1, "rrh": [n % 3, 0] if n & 1 else None,
                 "rsh": None, "dev": "", "user": None, "pw": "", "ctor": "member"}
            f[k] = (b"\xc2\x80" * (n // 2) + b"x" * (n % 2)).hex()
            ars_case(ctx, f, ae, ad, "sweep-identifier")


def utf8_probe(ctx, rng, misc, n):
    """`validUtf8` of the model against CPython's strict decoder (it decides UnicodeDecodeError in from_bytes)"""
    leads = [0x00, 0x10, 0x7F, 0x80, 0xBF, 0xC0, 0xC1, 0xC2, 0xDF, 0xE0, 0xE1, 0xEC, 0xED, 0xEE, 0xEF, 0xF0, 0xF1, 0xF3, 0xF4, 0xF5, 0xFF]
    conts = [0x00, 0x7F, 0x80, 0x8F, 0x90, 0x9F, 0xA0, 0xBF, 0xC0, 0xFF]
    for _ in range(n):
        k = rng.randrange(0, 6)
        d = bytes(rng.choice(leads) if (i == 0 or rng.random() < 0.3) else rng.choice(conts) for i in range(k))
        if rng.random() < 0.3:
            d = rand_ident(rng, rng.randrange(0, 8)) + d
        try:
            d.decode("utf-8")
            ok = "1"
        except UnicodeDecodeError:
            ok = "0"
        misc.append((f"ars.utf8 {hx(d)}", ok))
        ctx.count("utf8:valid" if ok == "1" else "utf8:invalid")


def run(ctx):
    ctx.rule = (
        "messages are built from fields with the library's constructors: TMS = type (3) x flags has_more/ack/reserved x "
        "address 0..255 octets x capability x sequence number (None, 0..127, boundaries 31/32/63/64/95/96/127 favoured) x "
        "encoding (None/UNDEFINED/UCS2_LE) x UCS-2 text 0..200 characters; ARS = type (5 implemented + the 2 unimplemented) x "
        "flags has_more/ack/priority/control x registration header event x identifiers/password None or 0..255 UTF-8 octets "
        "(multi-byte characters, strings ending in ..10 .. 80 favoured) x refresh time 1..127 x failure reason (4) x CSBK trailer; "
        "~15 % of the cases leave the property's range on purpose (sequence number >= 128 or missing, missing text, 256+ octet "
        "fields, second header without / with a foreign context, refresh time 0 or > 127) and only feed the correspondence; "
        "every serialisation is parsed back, and mutated serialisations (truncated, octet replaced, length prefix changed, "
        "octets appended, random) go through both parsers. A case is distinct by its full field tuple / byte string."
    )
    ctx.trusted_base += [
        "Lean 4.33 kernel",
        "tools/extract_tms.py (calls the TMS/ARS enumerations of /repo on every value the parsers can look up)",
        "hand-written models Model/Tms.lean, Model/Ars.lean tied to text_messaging_service.py / automatic_registration_service.py by this run's correspondence",
        "Python's UTF-8 and UTF-16-LE codecs (identifiers and texts are opaque byte strings in the model; validUtf8 is compared with CPython's decoder on every run)",
        "bitarray (int2ba/ba2int/frombytes/tobytes) as the substrate of the header codecs",
    ]
    ctx.assumptions += [
        'default endian="big" of from_bytes/as_bytes',
        "an ARS acknowledgement's ResponseSecondHeader is bound to the message's own first header with .context(header), as from_bytes does; without it as_bytes treats the header as a failure header (modelled, compared, outside the property)",
        "USER_DEREGISTRATION_REQUEST and USER_REGISTRATION_RESPONSE raise 'not implemented' in both directions and are outside the property's list of message kinds",
        "listed normalisations: TMS has_more_headers recomputed by as_bytes, reserved bit set for text messages, encoding UNDEFINED == no encoding, fields a PDU type does not carry are not serialised; ARS None and '' identifiers are the same zero-length field, second headers exist only when has_more_headers is set, the response octet fills both refresh_time and failure_reason",
    ]
    rng = ctx.rng
    te, td, ae, ad, misc = [], [], [], [], []
    # corpus first
    captured(ctx, td, ad)
    for f in TMS_CORPUS:
        f = dict(f, ctor="member")
        tms_case(ctx, f, te, td, "corpus")
    for f in ARS_CORPUS:
        f = dict(f, ctor="member")
        ars_case(ctx, f, ae, ad, "corpus")
    sweeps(ctx, (te, td, ae, ad, misc))
    utf8_probe(ctx, rng, misc, ctx.budget(2000, 40000))
    n = ctx.budget(5000, 200000)
    for i in range(n):
        if i & 1:
            f = gen_tms(rng)
            b = tms_case(ctx, f, te, td, "random")
            if b is not None and rng.random() < 0.5:
                x = mutate(rng, b)
                td.append((f"tms.dec {hx(x)}", tms_dec(x)))
                ctx.count("tms:mutated-parse")
                if rng.random() < 0.3:
                    ad.append((f"ars.dec {hx(x)}", ars_dec(x)))
        else:
            f = gen_ars(rng)
            b = ars_case(ctx, f, ae, ad, "random")
            if b is not None and rng.random() < 0.5:
                x = mutate(rng, b)
                ad.append((f"ars.dec {hx(x)}", ars_dec(x)))
                ctx.count("ars:mutated-parse")
                if rng.random() < 0.3:
                    td.append((f"tms.dec {hx(x)}", tms_dec(x)))
    if not ctx.search_only and ctx.driver_ok:
        ctx.correspond("tms.as_bytes", te)
        ctx.correspond("tms.from_bytes", td)
        ctx.correspond("ars.as_bytes", ae)
        ctx.correspond("ars.from_bytes", ad)
        ctx.correspond("headers/sn/utf8", misc)


def replay(obj):
    f = (obj.get("failure") or {}).get("input") or {}
    print(json.dumps(obj.get("type")), (obj.get("failure") or {}).get("what"))
    if "captured" in f:
        b = bytes.fromhex(f["captured"])
        cls = T().TextMessagingService if f["proto"] == "tms" else A().AutomaticRegistrationService
        q = call(cls.from_bytes, b)
        b2 = q if is_err(q) else call(q.as_bytes)
        print("implementation: from_bytes(", f["captured"], ").as_bytes() =", b2 if is_err(b2) else b2.hex())
        return 0 if b2 == b else 1
    if f.get("proto") == "tms":
        r = tms_oracle(f)
        p = call(tms_build, f)
        b = p if is_err(p) else call(p.as_bytes)
        print("implementation: as_bytes =", b if is_err(b) else b.hex())
        if not is_err(b):
            print("implementation: from_bytes(as_bytes) =", tms_dec(b))
        print("model line:", tms_enc_line(f))
    elif f.get("proto") == "ars":
        r = ars_oracle(f)
        p = call(ars_build, f)
        b = p if is_err(p) else call(p.as_bytes)
        print("implementation: as_bytes =", b if is_err(b) else b.hex())
        if not is_err(b):
            print("implementation: from_bytes(as_bytes) =", ars_dec(b))
        print("model line:", ars_enc_line(f))
    else:
        print("nothing to replay")
        return 0
    if r:
        print("STILL FAILS:", r[0], r[1], "expected:", r[2], "actual:", r[3])
        return 1
    print("property holds on this input now")
    return 0
